#!/bin/bash
# usage: confirm_seed.sh <Cxx> <A|B|C|D> [worktree prefix, default /tmp/wt_]   -- confirms a sub-agent's seeded change in its scratch worktree
# (demo fails with change, passes without; pinned suite passes with change) and files it under /verif/seeded.
id="$1"; x="$2"; wt="${3:-/tmp/wt_}$id"; out="$wt/_out"
[ -f "$out/patch_$x.diff" ] || { echo "no patch $id $x"; exit 2; }
cd "$wt" || exit 2
git checkout -q -- wsimod
run() { PYTHONPATH="$wt" PYTHONDONTWRITEBYTECODE=1 timeout 900 /venv/bin/python "$@"; }
run "$out/demo_$x.py" > "$out/confirm_${x}_clean.log" 2>&1; rc_clean=$?
git apply "$out/patch_$x.diff" || { echo "patch does not apply"; exit 2; }
run "$out/demo_$x.py" > "$out/confirm_${x}_mut.log" 2>&1; rc_mut=$?
run -m pytest -q -p no:cacheprovider --timeout=900 tests --deselect tests/test_example_files.py -x > "$out/confirm_${x}_tests.log" 2>&1; rc_t=$?
summary=$(tail -1 "$out/confirm_${x}_tests.log")
git checkout -q -- wsimod; rm -rf "$wt/htmlcov" "$wt/.coverage"
echo "$id $x demo_clean_rc=$rc_clean demo_mut_rc=$rc_mut tests_rc=$rc_t [$summary]"
if [ $rc_clean -eq 0 ] && [ $rc_mut -ne 0 ] && [ $rc_t -eq 0 ]; then
  d="/verif/seeded/${id}_$x"; mkdir -p "$d"
  cp "$out/patch_$x.diff" "$d/patch.diff"; cp "$out/demo_$x.py" "$d/demo.py"; cp "$out/notes_$x.md" "$d/notes.md" 2>/dev/null
  python3 - "$id" "$x" "$d" "$summary" <<'PY'
import json,sys
id,x,d,summary=sys.argv[1:5]
notes=open(d+"/notes.md").read() if True else ""
json.dump({"property":id,"variant":x,"source":"independent sub-agent given only the property text and a scratch worktree",
 "needs_to_manifest":"see notes.md","confirmed":{"demo_on_unmodified_tree":"exit 0","demo_with_change":"non-zero exit",
 "pinned_suite_with_change":summary,"how":"selftest/confirm_seed.sh in the scratch worktree"}},open(d+"/meta.json","w"),indent=1)
PY
  echo "filed $d"
else
  echo "NOT CONFIRMED $id $x"
fi
