#!/bin/bash
# usage: run_seeded.sh <seeded-dir-name> [<Cxx> ...]   -- apply a seeded change to /repo, run checks, undo.
s="/verif/seeded/$1"; shift
[ -f "$s/patch.diff" ] || { echo "no such seed"; exit 2; }
props="$@"; [ -z "$props" ] && props=$(python3 -c "import json;print(json.load(open('$s/meta.json'))['property'])")
cd /repo && git diff --quiet || { echo "/repo is dirty"; exit 2; }
git -C /repo apply "$s/patch.diff" || exit 2
trap 'git -C /repo checkout -- .' EXIT
for p in $props; do
  echo "=== seed $(basename $s) check $p"
  ( cd /verif && timeout 3000 ./check $p 2>&1 | tail -8 )
done
