#!/bin/bash
# usage: run_seed_iso.sh <seeded-dir-name> [<Cxx> ...]
# Applies a seeded change to a scratch COPY of /repo, runs the given checks from a scratch COPY of /verif
# against it (WSI_REPO), prints the verdict lines, removes both copies.  Safe to run in parallel.
seed="$1"; shift
s="/verif/seeded/$seed"
[ -f "$s/patch.diff" ] || { echo "no such seed $seed"; exit 2; }
props="$@"; [ -z "$props" ] && props=$(python3 -c "import json;print(json.load(open('$s/meta.json'))['property'])")
w="/var/tmp/st_${seed}_$$"; mkdir -p "$w"
cp -r /repo "$w/repo" && rsync -a --exclude .git "${VERIF_SRC:-/verif}/" "$w/verif/"
( cd "$w/repo" && git apply "$s/patch.diff" ) || { echo "$seed: patch does not apply"; rm -rf "$w"; exit 2; }
for p in $props; do
  out=$( cd "$w/verif" && WSI_REPO="$w/repo" timeout 3000 ./check $p 2>&1 | grep -v "more backflow\|conda" | tail -4 )
  verdict=$(echo "$out" | grep -c "^VIOLATION")
  echo "=== seed $seed check $p -> $( [ $verdict -gt 0 ] && echo CAUGHT || echo MISSED )"
  echo "$out" | sed 's/^/    /' | cut -c1-400
done
rm -rf "$w"
