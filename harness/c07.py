"""C07 — honest checks: theorems (coq/props/C07.v), exact correspondence of stores / arcs / node kinds,
check -> request probes on whole models."""
import json
import os
import sys

import common as C
import comp_check
import corr_comp as K
import corr_star
import corr_kinds as KD
import mon_probe

PID = "C07"
RULE = ("correspondence: operation sequences on tanks, queue tanks, plain and queue arcs and on the store-backed node kinds "
        "(Storage, Groundwater, River, Reservoir, RiverReservoir) with typed neighbours, every check and request reply compared "
        "exactly with the models. monitor: random whole models are run for three timesteps, then over every arc a pull check X is "
        "followed by a pull request y in {X/2, X, 2X+1, 1/3} (reply must be min(y, X)) and a push check X by a push of volume y "
        "(remainder must be max(y - X, 0)), twice per arc and direction; travel-time arcs only when nothing is queued. "
        "garden irrigation: real Land / GardenSurface / ResidentialDemand objects (floating point), soils from dry to saturated, 2-4 rounds of check -> request with the tag (Demand, Garden) after the land has run each of 1-4 timesteps. "
        "non-trivial = distinct case with >= 3 operations / model with >= 4 nodes")


def main():
    rep = C.Report(PID)
    rep.trusted = list(C.BASE_TRUST) + comp_check.TRUST_COMP
    thorough = C.tier() == "thorough"
    replay = os.environ.get("VERIF_REPLAY")
    if replay:
        body = json.load(open(replay))
        if body.get("kind") == "counterexample" and body.get("part") == "garden":
            import mon_garden
            bad, k, pos = mon_garden.run_case(body["case"])
            for m in bad[:3]:
                rep.violation("counterexample", f"C07 monitor (garden irrigation, replay): {m}", {"part": "garden", "case": body["case"]}, True)
            rep.add_eval(("replay", 0), True)
            return rep.finish("replay of one recorded garden case", [])
        if body.get("kind") == "counterexample" and "config" in body:
            import mon_net as MN
            import netgen as NG
            import random
            cfg = NG.cfg_from_json(body["config"])
            mon, model, err, out = MN.run_cfg(cfg, "exact", pids=())
            NG.set_pollutants(cfg["polset"])
            st = {"probes": 0, "by_class": {}}
            found = []
            mon_probe.probes_on(model, random.Random(body.get("seed", 0)), MN._names(), st, lambda m, s: found.append(m))
            NG.set_pollutants("default")
            for m in found[:3]:
                rep.violation("counterexample", f"C07 monitor (replay): {m}", {"config": body["config"]}, True)
            rep.add_eval(("replay", 0), True)
            return rep.finish("replay of one recorded model", [])
    C.proof_stage(rep, "props/C07.v")
    n = 1200 if thorough else 120
    for fam in ("tank", "qtank", "arc", "kind"):
        K.correspondence(rep, fam, n, 12, tag="c07", maxdigits=30 if fam == "kind" else None)
    import corr_net  # noqa: F401
    K.correspondence(rep, "net", 2000 if thorough else 200, 8, tag="c07", maxdigits=30)
    import corr_leak  # noqa: F401
    K.correspondence(rep, "leak", 2000 if thorough else 250, 8, tag="c07", maxdigits=30)
    import corr_wtw  # noqa: F401
    K.correspondence(rep, "wtw", 2000 if thorough else 250, 8, tag="c07", maxdigits=30)
    seen = mon_probe.run(rep, thorough)
    # the check / request pair served by a surface: garden irrigation asked of a Land by a Demand node (floating point)
    import mon_garden
    mon_garden.run(rep, thorough, PID)
    C.apply_known(rep, PID, {k: (v, "model", {"ops": [], "cls": "model"}, -1) for k, v in seen.items()})
    return rep.finish(RULE, ["no other operation between the check and the request", "offers are wet; requests are non-negative"])


if __name__ == "__main__":
    sys.exit(main())
