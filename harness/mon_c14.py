"""C14 monitors - persistence.

(a) save/load: random well-formed models (netgen configs of every size and pollutant set, plus
    a "zoo" generator that puts every node, surface and arc class into a model with non-default
    parameter values including legal zeros) are built in float mode, written with Model.save
    (csv and csv.gz), read back with Model.load into a fresh Model, and both are run: all results
    returned by Model.run(record_all=True) and a deep parameter/state snapshot of both object graphs
    must agree (relative tolerance 1e-9).  The loaded model is saved and loaded once more and the
    second generation (parsed yaml, data files, snapshot, results) must equal the first EXACTLY.
(b) pickle/resume: for every timestep boundary k the model is run over dates[:k], pickled with
    save_pickle, restored with load_pickle into a new object and run over dates[k:]; the
    concatenated results must equal those of the uninterrupted run EXACTLY.

Known defects of the unmodified library are recognised specifically and returned as signatures
(see KNOWN below); everything else is a violation.  The generic deep snapshot / diff helpers of
this module are also used by mon_c15."""
import contextlib
import copy
import gzip
import io
import math
import os
import re
import tempfile
import time
import traceback
from fractions import Fraction as F

import common as C
import netgen as NG
from exnum import UNBOUNDED, Ex, uninstall_exact

PID = "C14"
TOL = 1e-9
ATOL = 1e-12

KNOWN = {
    "pervious-depth-saved-scaled":
        "Model.save writes PerviousSurface.depth, which already is depth * total_porosity; the reloaded surface is "
        "shallower (depth, capacity, field_capacity_m, wilting_point_m scaled by total_porosity once per save/load cycle)",
    "growing-surface-save-attributeerror":
        "Model.save raises AttributeError for a GrowingSurface without the attribute initial_soil_storage "
        "(not given, or 'nitrate' not simulated)",
    "monthly-surface-data-resave-attributeerror":
        "a loaded model whose surfaces have monthly data (keys ('var', to_datetime('YYYY-MM'))) cannot be saved again: "
        "to_datetime.__str__ calls strftime on the month string it keeps for 'YYYY-MM' dates (AttributeError in write_csv)",
    "to-datetime-leap-year-always-true":
        "model.to_datetime.is_leap_year is a method but land.py GrowingSurface.calc_crop_cover tests it as an attribute "
        "(always true): a model built on pd.Timestamp dates simulates a different crop calendar after save/load in "
        "non-leap years (day of year > 59)",
    "save-type-from-class-name":
        "Model.save writes type_ = class __name__ instead of the key the node is filed under in Model.nodes_type: a "
        "NonResidentialDemand added as type_='Demand' (node_type_override='NonResidentialDemand', the documented form "
        "for subclasses) is run by the default orchestration, the reloaded one is filed under 'NonResidentialDemand' and is not",
}


# ---------------------------------------------------------------------------
# generic deep snapshot of wsimod object graphs (shared with mon_c15)
# ---------------------------------------------------------------------------
_LINKS = ("in_arcs", "out_arcs")
_SKIP_ATTR = {"in_arcs_type", "out_arcs_type", "empty_vqip_predefined", "empty_nutrient", "_verif_pre", "_verif_post"}
_REF_ATTR = {"parent", "in_port", "out_port", "data_input_object"}


def datekey(x):
    """dates as strings independent of their class (pd.Timestamp, pd.Period, model.to_datetime)"""
    x = getattr(x, "_date", x)
    s = str(x)
    return s[:10]


def keystr(k):
    if isinstance(k, tuple):
        return "|".join(datekey(p) if i else str(p) for i, p in enumerate(k))
    return str(k)


def num(x, exact=False):
    if isinstance(x, bool):
        return x
    if isinstance(x, Ex):
        return F(x.q) if exact else float(x)
    if isinstance(x, F):
        return x if exact else float(x)
    return x


def is_num(x):
    return isinstance(x, (int, float, F, Ex)) and not isinstance(x, bool)


def _is_wsi(o):
    return type(o).__module__.startswith("wsimod") and hasattr(o, "__dict__") and not isinstance(o, type)


def fname(f):
    n = getattr(f, "__name__", None) or type(f).__name__
    s = getattr(f, "__self__", None)
    if s is not None and _is_wsi(s):
        return f"{type(s).__qualname__}.{n}"
    return n


def snap(o, exact=False, seen=None, skip=()):
    """nested plain-data picture of parameters and state reachable from o; callables are reduced to their names"""
    seen = set() if seen is None else seen
    if o is None or isinstance(o, (str, bool)):
        return o
    if is_num(o):
        return num(o, exact)
    if isinstance(o, dict):
        return {keystr(k): snap(v, exact, seen, skip) for k, v in o.items()}
    if isinstance(o, (list, tuple)):
        return [snap(v, exact, seen, skip) for v in o]
    if isinstance(o, (set, frozenset)):
        return sorted(str(v) for v in o)
    if callable(o) and not _is_wsi(o):
        return "<fn " + fname(o) + ">"
    if _is_wsi(o):
        if id(o) in seen:
            return f"<ref {type(o).__qualname__} {getattr(o, 'name', '')}>"
        seen.add(id(o))
        d = {"__class__": type(o).__qualname__}
        for k, v in vars(o).items():
            if k in _SKIP_ATTR or k in skip:
                continue
            if k in _LINKS:
                d[k] = sorted(v.keys()) if isinstance(v, dict) else str(v)
            elif k in _REF_ATTR:
                d[k] = None if v is None else f"<{type(v).__qualname__} {getattr(v, 'name', getattr(v, 'surface', ''))}>"
            elif k in ("t", "monthyear"):
                d[k] = None if v is None else datekey(v)
            else:
                d[k] = snap(v, exact, seen, skip)
        return d
    return datekey(o) if hasattr(o, "year") or hasattr(o, "_date") else f"<{type(o).__name__}>"


def close(a, b, tol):
    if tol == 0:
        return a == b
    try:
        if a == b:
            return True
        return math.isclose(float(a), float(b), rel_tol=tol, abs_tol=ATOL)
    except (TypeError, ValueError, OverflowError):
        return False


def diff(a, b, tol=0.0, path="", out=None, limit=200):
    """list of (path, a, b) where the two nested pictures differ"""
    out = [] if out is None else out
    if len(out) >= limit:
        return out
    if is_num(a) and is_num(b):
        if not close(a, b, tol):
            out.append((path, a, b))
    elif isinstance(a, dict) and isinstance(b, dict):
        for k in a:
            if k not in b:
                out.append((f"{path}.{k}", "<present>", "<absent>"))
            else:
                diff(a[k], b[k], tol, f"{path}.{k}", out, limit)
        for k in b:
            if k not in a:
                out.append((f"{path}.{k}", "<absent>", "<present>"))
    elif isinstance(a, list) and isinstance(b, list):
        if len(a) != len(b):
            out.append((path + ".len", len(a), len(b)))
        for i, (x, y) in enumerate(zip(a, b)):
            diff(x, y, tol, f"{path}[{i}]", out, limit)
    elif a != b:
        out.append((path, a, b))
    return out


def fmt_diffs(ds, n=4):
    return "; ".join(f"{p}: {short(x)} != {short(y)}" for p, x, y in ds[:n]) + (f" (+{len(ds) - n} more)" if len(ds) > n else "")


def short(x):
    if isinstance(x, F) and (x.numerator.bit_length() > 200 or x.denominator.bit_length() > 200):
        return f"~{float(x):.15g} (exact fraction of {x.numerator.bit_length()}/{x.denominator.bit_length()} bits)"
    if isinstance(x, F):
        return str(x)
    s = repr(x) if not isinstance(x, float) else f"{x:.12g}"
    return s if len(s) < 80 else s[:77] + "..."


def model_snap(m, exact=False):
    """picture of a whole Model: every node (with tanks, surfaces, pools), every arc, orchestration, filing"""
    seen = set()
    return {
        "nodes": {k: snap(v, exact, seen) for k, v in m.nodes.items()},
        "arcs": {k: snap(v, exact, seen) for k, v in m.arcs.items()},
        "node_order": list(m.nodes.keys()),
        "arc_order": list(m.arcs.keys()),
        "nodes_type": {k: list(v.keys()) for k, v in m.nodes_type.items()},
        "orchestration": snap(m.orchestration),
        "river_discharge_order": list(m.river_discharge_order),
        "dates": [datekey(d) for d in getattr(m, "dates", [])],
        "extensions": list(getattr(m, "extensions", [])),
    }


# ---------------------------------------------------------------------------
# running models
# ---------------------------------------------------------------------------
def quiet():
    return contextlib.redirect_stdout(io.StringIO())


def err_text(ex):
    tb = traceback.extract_tb(ex.__traceback__)
    where = [f"{fr.filename.split('/')[-1]}:{fr.lineno} {fr.name}" for fr in tb if "wsimod" in fr.filename][-3:]
    return f"{type(ex).__name__}: {ex} at {' <- '.join(reversed(where))}"


def run_model(m, dates=None):
    """(results, error text): results = {"flows": [...], "tanks": [...], "surfaces": [...]} as returned by Model.run"""
    try:
        with quiet():
            flows, tanks, _, surfaces = m.run(dates=dates, verbose=False, record_all=True)
        return {"flows": flows, "tanks": tanks, "surfaces": surfaces}, None
    except Exception as ex:
        return None, err_text(ex)


def norm_results(res):
    """results with dates as strings and records keyed by what they describe"""
    out = {}
    for kind, rows in res.items():
        for row in rows:
            key = (kind, str(row.get("arc", row.get("node"))), str(row.get("prop", row.get("surface", ""))), datekey(row["time"]))
            n = 0
            while key + (n,) in out:
                n += 1
            out[key + (n,)] = {k: num(v) for k, v in row.items() if k != "time"}
    return out


def diff_results(r1, r2, tol):
    a, b = norm_results(r1), norm_results(r2)
    out = []
    if list(a.keys()) != list(b.keys()):
        only = [k for k in a if k not in b][:2] + [k for k in b if k not in a][:2]
        out.append(("records", len(a), f"{len(b)} (e.g. {only})" if only else f"{len(b)} (different order)"))
    from wsimod.core import constants
    nonadd = set(constants.NON_ADDITIVE_POLLUTANTS)
    for k in a:
        if k in b:
            for f in a[k]:
                if f not in b[k]:
                    out.append((f"{k}.{f}", a[k][f], "<absent>"))
                elif not (close(a[k][f], b[k][f], tol) if is_num(a[k][f]) and is_num(b[k][f]) else a[k][f] == b[k][f]):
                    if tol and f in nonadd and is_num(a[k][f]) and is_num(b[k][f]):
                        # a non-additive pollutant is a volume-weighted mean: in a record that holds next to nothing (a
                        # store emptied up to rounding residue) it is ill-conditioned - "to floating-point rounding" is
                        # measured on value x volume, against the size of a unit of water
                        va = next((a[k][x] for x in ("flow", "storage", "volume") if is_num(a[k].get(x))), None)
                        vb = next((b[k][x] for x in ("flow", "storage", "volume") if is_num(b[k].get(x))), None)
                        if va is not None and vb is not None and abs(float(a[k][f]) * float(va) - float(b[k][f]) * float(vb)) <= tol * max(1.0, abs(float(va)), abs(float(vb))):
                            continue
                    out.append((f"{'/'.join(str(x) for x in k[:4])}.{f}", a[k][f], b[k][f]))
        if len(out) > 50:
            break
    return out


def any_flow(res):
    return any(row["flow"] for row in res["flows"])


# ---------------------------------------------------------------------------
# configs: well-formed form of netgen configs, the zoo
# ---------------------------------------------------------------------------
FILED_AS = {"ResidentialDemand": "Demand", "RiverReservoir": "Reservoir", "QueueGroundwater": "Groundwater", "EnfieldFoulSewer": "Sewer"}


def wellformed(cfg):
    """netgen writes type_='ResidentialDemand' etc.; the documented form for subclasses that present
    themselves under their parent's name is type_=<parent>, node_type_override=<class> (Model.save writes
    exactly that), otherwise the default orchestration never reaches them."""
    cfg = copy.deepcopy(cfg)
    for n in cfg["nodes"]:
        if n["type_"] in FILED_AS and "node_type_override" not in n:
            n["node_type_override"] = n["type_"]
            n["type_"] = FILED_AS[n["type_"]]
    return cfg


def build(cfg):
    """float-mode model of a config; monthly surface data (keys ('var', 'YYYY-MM')) are keyed by pd.Period"""
    m = NG.build(cfg, "float")
    for node in m.nodes.values():
        for s in getattr(node, "surfaces", []) or []:
            d = getattr(s, "data_input_dict", None)
            if d and any(hasattr(k[1], "to_period") for k in d):
                s.data_input_dict = {(k[0], k[1].to_period("M") if hasattr(k[1], "to_period") else k[1]): v for k, v in d.items()}
    return m


def _node(g, name):
    return next(n for n in g.nodes if n["name"] == name)


def gen_zoo(r, ndates=6, polset=None, pervious=None, growing=True, start="2000-01-01"):
    """a model containing every node class that can run, every surface class and every arc class, with
    non-default parameter values and legal zeros; random within that frame"""
    polset = polset or r.choice(["simple", "four", "reordered", "one", "default", "default"])
    NG.set_pollutants(polset)
    g = NG.Gen(r, ndates, polset, {})
    g.dates = NG.dates(ndates, start)
    adds, nons = g.pols()
    z = lambda *nz: r.choice((F(0),) + tuple(F(x) for x in nz))           # a legal zero or a non-default value
    dec = lambda: {r.choice(adds): {"constant": r.choice([F(1, 10), F(1, 2), F(0)]), "exponent": r.choice([F(1), F(1001, 1000)])}}
    tdata = lambda: g.data({"temperature": [NG.temp(r) for _ in range(g.n)]})
    out = g.waste()
    c1, c2, c3 = g.catchment("steady"), g.catchment(), g.catchment()
    j1, j2 = g.junction(), g.junction()
    r1, r2 = g.river(), g.river()
    _node(g, r1).update(damp=z(1, 4) / 4 if r.random() < 0.5 else F(0), mrf=z(2))
    # ---- arcs of every class between catchments, junctions and rivers
    g.arc(c1, j1, type_="QueueArc", number_of_timesteps=r.choice([2, 3]), cap=r.choice([None, F(9)]))
    g.arc(c2, j1, type_="DecayArc", number_of_timesteps=r.choice([1, 2]), decays=dec())
    g.arc(c3, j2, type_="AltQueueArc", number_of_timesteps=r.choice([0, 1]))
    g.arc(j1, r1, pref=F(3, 2))
    g.arc(j1, out, cap=F(0), pref=F(0))                                  # a closed bypass
    g.arc(j1, r2, cap=F(4), pref=F(1, 100))
    g.arc(j2, r2, cap=F(6))
    g.arc(r1, r2)
    g.arc(r2, out)
    rr = g.reservoir(river_like=True)
    _node(g, rr).update(environmental_flow=z(2, 6), datum=F(3), type_="Reservoir", node_type_override="RiverReservoir")
    j3 = g.junction()                # (a River does not push to a Reservoir; pulls must not reach a queueing arc)
    g.arc(g.catchment(), j3)
    g.arc(j3, rr)
    g.arc(rr, out, cap=r.choice([None, F(4)]))
    # ---- supply
    resv = g.reservoir()
    _node(g, resv)["area"] = F(25)
    g.arc(r1, resv, type_="PullArc", cap=r.choice([F(6), F(15)]))
    fw = g.fwtw()
    _node(g, fw).update(service_reservoir_storage_capacity=z(5, 20), service_reservoir_storage_area=F(2),
                        service_reservoir_storage_elevation=z(4), percent_solids=z(1) / 100)
    _node(g, fw)["service_reservoir_initial_storage"] = _node(g, fw)["service_reservoir_storage_capacity"] * r.choice([F(0), F(1, 2)])
    g.arc(resv, fw)
    dist = g.distribution()
    _node(g, dist)["leakage"] = r.choice([F(1, 10), F(1, 4)])
    g.arc(fw, dist)
    gwl = g.groundwater()
    _node(g, gwl).update(infiltration_threshold=z(1) / 2, infiltration_pct=F(1, 4), residence_time=F(r.choice([2, 7])),
                         decays=dec(), data_input_dict=tdata(), datum=F(1))
    g.arc(dist, gwl)
    g.arc(gwl, r2)
    sw1, sw2 = g.sewer(), g.sewer()
    if r.random() < 0.4:
        _node(g, sw2)["name"] = "foul_" + sw2          # the 'foul' naming hack files it under 'Foul'
        sw2 = "foul_" + sw2
    _node(g, sw1).update(pipe_time=0, pipe_timearea={0: F(1, 2), 1: F(1, 2)}, chamber_area=F(2), chamber_floor=z(3))
    _node(g, sw2).update(pipe_time=1, pipe_timearea={0: F(1)}, chamber_area=F(3), chamber_floor=z(7), capacity=F(r.choice([10, 40])))
    g.arc(gwl, sw1)
    g.arc(fw, sw1)
    load = {p: NG.conc(g.rp) for p in adds}
    load.update({p: F(15) for p in nons})
    dres = g.demand(residential=True)
    _node(g, dres).update(gardening_efficiency=z(1) / 2, constant_weighting=z(1) / 4, constant_temp=z(25), population=F(r.choice([10, 40])),
                          per_capita=F(1, 8))
    dpl = g.demand(residential=False)
    _node(g, dpl)["constant_demand"] = F(3)
    dnon = g.name("demand")
    g.nodes.append({"name": dnon, "type_": "NonResidentialDemand", "constant_demand": F(2), "pollutant_load": dict(load)})
    ud = g.distribution(unlimited=True)
    for d in (dres, dpl):
        g.arc(dist, d)
        g.arc(d, sw1)
    g.arc(ud, dnon)
    g.arc(dnon, sw1)
    g.arc(sw1, sw2, cap=r.choice([None, F(5)]))
    ww = g.wwtw()
    _node(g, ww).update(stormwater_storage_capacity=z(5, 20), stormwater_storage_area=F(2), stormwater_storage_elevation=z(4),
                        percent_solids=z(1) / 100)
    g.arc(sw2, ww, cap=r.choice([None, F(8)]))
    g.arc(sw2, r2, type_="PushArc", cap=F(2), pref=F(1, 1000))
    g.arc(ww, r2, cap=F(6))
    st = g.name("store")
    g.nodes.append({"name": st, "type_": "Storage", "capacity": F(30), "area": F(4), "datum": F(2), "decays": dec(),
                    "initial_storage": g.vq(F(r.choice([0, 12]))), "data_input_dict": tdata()})
    g.arc(ww, st, cap=F(2))
    g.arc(st, r2)
    wtw = g.name("wtw")
    d = {"name": wtw, "type_": "WTW", "treatment_throughput_capacity": F(7)}
    d.update(g.wtw_params())
    g.nodes.append(d)
    # ---- land with every surface class
    ld = g.land()
    lnode = _node(g, ld)
    surfaces = [s for s in lnode["surfaces"] if s["type_"] == "ImperviousSurface"]
    if not surfaces:
        surfaces.append({"type_": "ImperviousSurface", "surface": "urban", "area": F(50), "pore_depth": F(1, 100), "initial_storage": F(0),
                         "pollutant_load": {adds[0]: F(1, 100)}})
    surfaces[0].update(et0_to_e=z(1) / 2, decays=dec(), datum=F(1))
    pervious = (r.random() < 0.5) if pervious is None else pervious
    if pervious:
        area, depth = F(r.choice([10, 100])), r.choice([F(1, 2), F(3, 4), F(1)])
        surfaces.append({"type_": "PerviousSurface", "surface": "rural", "area": area, "depth": depth,
                         "total_porosity": r.choice([F(2, 5), F(1, 2)]), "field_capacity": F(3, 10), "wilting_point": z(3) / 25,
                         "infiltration_capacity": r.choice([F(1, 2), F(1, 100)]), "surface_coefficient": z(1) / 20,
                         "percolation_coefficient": z(3) / 4, "et0_coefficient": z(1) / 2, "ihacres_p": F(r.choice([1, 2])),
                         "pollutant_load": {adds[0]: F(1, 50)}, "initial_storage": g.vq(area * depth * F(2, 5) * r.choice([F(1, 2), F(9, 10)]))})
    growing = growing and polset == "default"
    if growing:
        monthly = {}
        for var in ("nhx", "noy", "srp"):
            for kind in ("dry", "wet", "fertiliser", "manure"):
                for mth in sorted({d[:7] for d in g.dates}):
                    monthly[(f"{var}-{kind}", mth)] = r.choice([F(0), F(1, 10 ** 6), F(1, 10 ** 5)])
        soil = {p: r.choice([F(1, 5), F(2), F(0)]) for p in ("phosphate", "ammonia", "nitrate", "nitrite", "org-nitrogen", "org-phosphorus")}
        soil["phosphate"] = F(6, 5)            # initial_soil_storage must be truthy and is only kept when given
        import pandas as pd
        doy = pd.Timestamp(start).dayofyear
        crop = {"crop_factor_stages": [0.0, 0.0, 0.3, 0.9, 1.2, 1.2, 0.325, 0.0, 0.0],
                "crop_factor_stage_dates": [0, doy, doy + 1, doy + 30, doy + 60, doy + 112, doy + 143, doy + 144, 366],
                "sowing_day": doy + 1, "harvest_day": doy + 143}
        for i, t in enumerate(["GrowingSurface", "IrrigationSurface", "GardenSurface", "VariableAreaSurface"]):
            s = {"type_": t, "surface": f"crop{i}", "area": F(r.choice([20, 40])), "rooting_depth": r.choice([F(1, 2), F(3, 4)]),
                 "ET_depletion_factor": r.choice([F(0), F(1, 2)]), "total_porosity": F(9, 20), "field_capacity": F(3, 10),
                 "wilting_point": F(1, 10), "initial_storage": g.vq(F(r.choice([4, 8]))), "initial_soil_storage": dict(soil),
                 "data_input_dict": dict(monthly), "infiltration_capacity": F(1, 4), "percolation_coefficient": F(1, 2)}
            s.update(copy.deepcopy(crop))
            if t == "IrrigationSurface":
                s["irrigation_coefficient"] = z(1) / 2
            if t == "VariableAreaSurface":
                s["current_surface_area"] = z(10)
            surfaces.append(s)
    lnode["surfaces"] = surfaces
    lnode.update(surface_residence_time=F(2), subsurface_residence_time=F(3), percolation_residence_time=F(7))
    qgw = g.groundwater(queue=True)
    _node(g, qgw).update(timearea={0: F(1, 2), 1: F(1, 4), 3: F(1, 4)}, datum=F(2))
    if r.random() < 0.5:
        _node(g, qgw).update(decays=dec(), data_input_dict=tdata())
    g.arc(ld, qgw)
    g.arc(qgw, r1)
    g.arc(ld, r1)
    g.arc(ld, sw1, cap=r.choice([None, F(3)]))
    if growing:
        g.arc(dres, ld)                      # garden irrigation requests
        g.arc(r1, ld, type_="PullArc")       # irrigation abstraction
    orch = [{"FWTW": "treat_water"}, {"Demand": "create_demand"}, {"NonResidentialDemand": "create_demand"}, {"Land": "run"},
            {"Groundwater": "infiltrate"}, {"Sewer": "make_discharge"}, {"Foul": "make_discharge"}, {"WWTW": "calculate_discharge"},
            {"Groundwater": "distribute"}, {"River": "calculate_discharge"}, {"Reservoir": "make_abstractions"},
            {"Land": "apply_irrigation"}, {"WWTW": "make_discharge"}, {"Storage": "distribute"}, {"Catchment": "route"}]
    if r.random() < 0.5:
        r.shuffle(g.nodes)
    cfg = {"polset": polset, "dates": g.dates, "nodes": g.nodes, "arcs": g.arcs, "size": "zoo", "orchestration": orch}
    return wellformed(cfg)


def gen_transit(r, ndates=7):
    """small models whose only content is water in transit: catchment -> queueing arc -> junction -> outlet, and a
    sewer chain with pipe_time 1 feeding a queue groundwater"""
    polset = r.choice(["simple", "four", "one"])
    NG.set_pollutants(polset)
    g = NG.Gen(r, ndates, polset, {})
    adds, nons = g.pols()
    out = g.waste()
    j = g.junction()
    kind = r.choice(["QueueArc", "DecayArc", "AltQueueArc", "sewer"])
    c = g.catchment(r.choice(["steady", "burst", "mixed", "spell"]))
    if kind == "QueueArc":
        g.arc(c, j, type_="QueueArc", number_of_timesteps=r.choice([2, 3, 4]))
    elif kind == "DecayArc":
        g.arc(c, j, type_="DecayArc", number_of_timesteps=r.choice([1, 2]),
              decays={adds[0]: {"constant": F(1, 10), "exponent": F(1001, 1000)}})
    elif kind == "AltQueueArc":
        g.arc(c, j, type_="AltQueueArc", number_of_timesteps=1)
    else:
        s1, s2 = g.sewer(), g.sewer()
        _node(g, s1).update(pipe_time=0, capacity=F(40), pipe_timearea={0: F(1, 2), 2: F(1, 2)})
        _node(g, s2).update(pipe_time=1, capacity=F(40))
        d = g.demand(residential=False)
        _node(g, d)["constant_demand"] = F(4)
        ud = g.distribution(unlimited=True)
        g.arc(ud, d)
        g.arc(d, s1)
        g.arc(s1, s2)
        g.arc(s2, j)
        g.arc(c, j)
    g.arc(j, out)
    cfg = {"polset": polset, "dates": g.dates, "nodes": g.nodes, "arcs": g.arcs, "size": "transit:" + kind}
    return wellformed(cfg)


def classes_of(cfg):
    nodes, surfaces, arcs = {}, {}, {}
    for n in cfg["nodes"]:
        k = n.get("node_type_override", n["type_"])
        nodes[k] = nodes.get(k, 0) + 1
        for s in n.get("surfaces", []):
            surfaces[s["type_"]] = surfaces.get(s["type_"], 0) + 1
    for a in cfg["arcs"]:
        arcs[a["type_"]] = arcs.get(a["type_"], 0) + 1
    return nodes, surfaces, arcs


def plain_pervious(cfg):
    """[(land name, surface name, total_porosity)] of surfaces hit by the known depth defect"""
    out = []
    for n in cfg["nodes"]:
        for s in n.get("surfaces", []):
            if s["type_"] == "PerviousSurface":
                out.append((n["name"], s["surface"], s.get("total_porosity", F(2, 5))))
    return out


def scaled(cfg, y):
    """the config a saved file really describes: PerviousSurface.depth taken from the parsed yaml y (bit for bit, so
    that the reference model has exactly the parameters of the loaded one)"""
    cfg = copy.deepcopy(cfg)
    for n in cfg["nodes"]:
        for s in n.get("surfaces", []):
            if s["type_"] == "PerviousSurface":
                s["depth"] = F(y["nodes"][n["name"]]["surfaces"][s["surface"]]["depth"])
    return cfg


# ---------------------------------------------------------------------------
# (a) save / load
# ---------------------------------------------------------------------------
def read_dir(d):
    """(parsed yaml, {data file name: text})"""
    import yaml
    y, files = None, {}
    for fn in sorted(os.listdir(d)):
        p = os.path.join(d, fn)
        if fn.endswith(".yml"):
            y = yaml.safe_load(open(p))
        else:
            raw = open(p, "rb").read()
            gz = raw[:2] == b"\x1f\x8b"
            text = (gzip.decompress(raw) if gz else raw).decode()
            # parsed rows; the time column is normalised because the first generation is written from the dates the
            # user supplied (pd.Timestamp: '2000-01-01 00:00:00') and later ones from model.to_datetime ('2000-01-01')
            rows = [line.split(",") for line in text.splitlines()]
            if rows and "time" in rows[0]:
                ti = rows[0].index("time")
                rows = [rows[0]] + [row[:ti] + [row[ti][:10]] + row[ti + 1:] for row in rows[1:]]
            files[fn] = rows
            if gz != fn.endswith(".gz"):
                files[fn] = [[f"<extension does not match content: gzip={gz}>"]] + rows
    if y and "dates" in y:
        y["dates"] = [str(d)[:10] for d in y["dates"]]
    return y, files


def save_load(m, compress):
    """save m, load into a fresh Model; returns (loaded model, yaml, files, error text)"""
    from wsimod.orchestration.model import Model
    with tempfile.TemporaryDirectory(prefix="c14_") as d:
        try:
            with quiet():
                m.save(d, compress=compress)
        except Exception as ex:
            return None, None, None, "save: " + err_text(ex)
        y, files = read_dir(d)
        m2 = Model()
        try:
            with quiet():
                m2.load(d)
        except Exception as ex:
            return None, y, files, "load: " + err_text(ex)
    return m2, y, files, None


_PERV_PATH = re.compile(r"^\.nodes\.([^.]+)\.surfaces\[(\d+)\]\.(depth|capacity|field_capacity_m|wilting_point_m)$")


def only_pervious_depth(ds, m, cfg):
    """True when every difference is a derived-depth attribute of a plain PerviousSurface"""
    hit = {(a, b) for a, b, _ in plain_pervious(cfg)}
    for p, _, _ in ds:
        mt = _PERV_PATH.match(p)
        if not mt:
            return False
        s = m.nodes[mt.group(1)].surfaces[int(mt.group(2))]
        if (mt.group(1), s.surface) not in hit:
            return False
    return bool(ds)


def yaml_diff_gen(y1, y2, cfg):
    """differences between first and second generation yaml, the known depth rescaling taken out"""
    ds = diff(y1, y2, 0.0)
    perv = {(a, b): float(tp) for a, b, tp in plain_pervious(cfg)}
    keep, known = [], False
    for p, a, b in ds:
        mt = re.match(r"^\.nodes\.([^.]+)\.surfaces\.([^.]+)\.depth$", p)
        if mt and (mt.group(1), mt.group(2)) in perv and is_num(a) and is_num(b) and close(a * perv[(mt.group(1), mt.group(2))], b, TOL):
            known = True
            continue
        keep.append((p, a, b))
    return keep, known


def has_monthly_surface_data(cfg):
    return any(s.get("data_input_dict") for n in cfg["nodes"] for s in n.get("surfaces", []))


def effective_label(n, saved=False):
    """the key of Model.nodes_type a node is filed under: originally (type_) and after save/load (class __name__)"""
    if "foul" in n["name"]:
        return "Foul"                      # add_nodes forces this label from the name, before and after
    cls = n.get("node_type_override", n["type_"])
    return FILED_AS.get(cls, cls) if saved else n["type_"]


def mislabelled(cfg):
    """nodes whose filing label is not the name their class presents (Model.save writes the latter as type_)"""
    return [n["name"] for n in cfg["nodes"] if effective_label(n) != effective_label(n, True)]


def relabel(cfg):
    """the config with the labels Model.save writes"""
    cfg = copy.deepcopy(cfg)
    for n in cfg["nodes"]:
        cls = n.get("node_type_override", n["type_"])
        n["node_type_override"] = cls
        n["type_"] = FILED_AS.get(cls, cls)
    return cfg


def check_saveload(cfg, compress):
    """one save/load case.  Returns dict(problems=[messages], known=set(signatures), nontrivial=bool, skipped=reason or None)"""
    res = {"problems": [], "known": set(), "nontrivial": False, "skipped": None, "runs": 0}
    bad = res["problems"].append
    try:
        # The depth rescaling of PerviousSurface and the filing under the class name have been repaired in the tree
        # (known_findings.json, 'fixed'); the compensating comparison below (reference model rebuilt from the saved
        # depths and labels) is kept for the record but no longer selected: every model takes the plain comparison.
        perv, mis = [], []
        m0 = build(cfg)
        s0 = model_snap(m0)
        m1, y1, f1, err = save_load(m0, compress)
        if err:
            bad(f"first generation: {err}")
            return res
        want_ext = ".csv.gz" if compress else ".csv"
        wrong = [fn for fn in f1 if not fn.endswith(want_ext) or (f1[fn] and f1[fn][0][0].startswith("<extension"))]
        if wrong:
            bad(f"compress={compress}: data files {wrong[:3]} are not {want_ext} files")
        s1 = model_snap(m1)
        m2, y2, f2, err = save_load(m1, compress)
        if err:
            m2 = None
            if (err.startswith("save: AttributeError: 'str' object has no attribute 'strftime'") and "write_csv" in err
                    and has_monthly_surface_data(cfg)):
                res["known"].add("monthly-surface-data-resave-attributeerror")
            else:
                bad(f"second generation: {err}")
        s2 = model_snap(m2) if m2 is not None else None
        # ---- original vs first generation: parameters
        d01 = diff(s0, s1, TOL)
        ref1 = ref2 = None
        if perv or mis:
            # known defects apply to this model: recognise them by what exactly differs ...
            dperv = [x for x in d01 if _PERV_PATH.match(x[0])]
            dlab = [x for x in d01 if x[0].startswith(".nodes_type")]
            other = [x for x in d01 if x not in dperv and x not in dlab]
            if dperv and perv and only_pervious_depth(dperv, m0, cfg):
                res["known"].add("pervious-depth-saved-scaled")
            elif dperv:
                other += dperv
            # the filing changed exactly for the mislabelled nodes: each sits under its own label before, under the
            # name of its class after
            moved = {n["name"]: (effective_label(n), effective_label(n, True)) for n in cfg["nodes"] if n["name"] in mis}
            if dlab and mis and all(nm in s0["nodes_type"].get(a, []) and nm in s1["nodes_type"].get(b_, []) for nm, (a, b_) in moved.items()):
                res["known"].add("save-type-from-class-name")
            elif dlab:
                other += dlab
            if other:
                bad(f"parameter snapshot of the loaded model differs from the original: {fmt_diffs(other)}")
            for land, sname, tp in perv:
                sd = next(x for nn in cfg["nodes"] if nn["name"] == land for x in nn["surfaces"] if x["surface"] == sname)
                depth = sd.get("depth", F(3, 4))
                saved = y1["nodes"][land]["surfaces"][sname]["depth"]
                if not close(saved, float(depth), TOL) and not close(saved, float(depth * tp), TOL):
                    bad(f"PerviousSurface {land}/{sname}: saved depth {saved} is neither the constructor value {float(depth)} "
                        f"nor the known depth * total_porosity {float(depth * tp)}")
            # ... and repeat the comparison with them factored out: the loaded model must be the model of the config
            # with the pervious depths the file states and the labels save writes
            refcfg = lambda y: relabel(scaled(cfg, y)) if perv else relabel(cfg)
            ref1 = build(refcfg(y1))
            dd = diff(model_snap(ref1), s1, TOL)
            if dd:
                bad(f"loaded model differs from the original beyond the known defects (pervious depth, filing label): {fmt_diffs(dd)}")
            if m2 is not None:
                ref2 = build(refcfg(y2))
                dd = diff(model_snap(ref2), s2, TOL)
                if dd:
                    bad(f"second-generation model differs beyond the known defects (pervious depth, filing label): {fmt_diffs(dd)}")
                if not perv:
                    d12 = diff(s1, s2, 0.0)
                    if d12:
                        bad(f"saving and loading again changed the model: {fmt_diffs(d12)}")
        else:
            if d01:
                bad(f"parameter snapshot of the loaded model differs from the original: {fmt_diffs(d01)}")
            if m2 is not None:
                d12 = diff(s1, s2, 0.0)
                if d12:
                    bad(f"saving and loading again changed the model: {fmt_diffs(d12)}")
        # ---- second generation files vs first generation files
        if m2 is not None:
            yd, yk = yaml_diff_gen(y1, y2, cfg)
            if yk:
                res["known"].add("pervious-depth-saved-scaled")
            if yd:
                bad(f"second-generation config differs from the first: {fmt_diffs(yd)}")
            if f1 != f2:
                names = [k for k in set(f1) | set(f2) if f1.get(k) != f2.get(k)]
                bad(f"second-generation data files differ from the first: {sorted(names)[:4]}")
        # ---- behaviour
        r0, e0 = run_model(m0)
        r1, e1 = run_model(m1)
        r2, e2 = run_model(m2) if m2 is not None else (None, e1)
        res["runs"] += 2 + (m2 is not None)
        if e0 or e1 or e2:
            if e0 == e1 == e2:
                res["skipped"] = "all generations raise alike: " + str(e0)
            else:
                bad(f"run of original: {e0 or 'ok'}; of loaded: {e1 or 'ok'}; of second generation: {e2 or 'ok'}")
            return res
        res["nontrivial"] = any_flow(r0)
        d = diff_results(r0, r1, TOL)
        if perv or mis:
            if d and not (res["known"] & {"pervious-depth-saved-scaled", "save-type-from-class-name"}):
                bad(f"results of the loaded model differ from the original: {fmt_diffs(d)}")
            for tag, ref, rr_ in (("loaded", ref1, r1), ("second-generation", ref2, r2)):
                if ref is None or rr_ is None:
                    continue
                rref, eref = run_model(ref)
                res["runs"] += 1
                if eref:
                    bad(f"reference run raised {eref}")
                    continue
                d = diff_results(rref, rr_, TOL)
                if d:
                    bad(f"results of the {tag} model differ beyond the known defects (pervious depth, filing label): {fmt_diffs(d)}")
            if not perv and r2 is not None:
                d = diff_results(r1, r2, 0.0)
                if d:
                    bad(f"results after saving and loading again differ from the first generation: {fmt_diffs(d)}")
        else:
            if d:
                bad(f"results of the loaded model differ from the original: {fmt_diffs(d)}")
            if r2 is not None:
                d = diff_results(r1, r2, 0.0)
                if d:
                    bad(f"results after saving and loading again differ from the first generation: {fmt_diffs(d)}")
    except Exception as ex:       # the monitor itself must not die silently on an odd model
        bad("monitor error: " + err_text(ex) + " | " + traceback.format_exc()[-400:])
    finally:
        NG.set_pollutants("default")
        uninstall_exact()
    return res


def probe_growing_without_soil(r):
    """known finding (ii): a GrowingSurface without initial_soil_storage cannot be saved"""
    cfg = gen_zoo(r, 3, "default", pervious=False)
    for n in cfg["nodes"]:
        for s in n.get("surfaces", []):
            s.pop("initial_soil_storage", None)
    try:
        m = build(cfg)
        _, _, _, err = save_load(m, False)
    finally:
        NG.set_pollutants("default")
    if err and err.startswith("save: AttributeError") and "initial_soil_storage" in err:
        return "growing-surface-save-attributeerror", None
    return None, (None if err is None else f"GrowingSurface without initial_soil_storage: {err}")


def type_probe_cfg():
    polset = "simple"
    NG.set_pollutants(polset)
    import random
    g = NG.Gen(random.Random(1), 3, polset, {})
    ud = g.distribution(unlimited=True)
    sw = g.sewer()
    _node(g, sw)["capacity"] = F(50)
    out = g.waste()
    d = g.name("demand")
    g.nodes.append({"name": d, "type_": "Demand", "node_type_override": "NonResidentialDemand", "constant_demand": F(3),
                    "pollutant_load": {"phosphate": F(1, 10), "temperature": F(12)}})
    g.arc(ud, d)
    g.arc(d, sw)
    g.arc(sw, out)
    return {"polset": polset, "dates": g.dates, "nodes": g.nodes, "arcs": g.arcs, "size": "type-probe"}


def probe_type_filing():
    """a further defect of the unmodified tree (dedicated case): the filing key of a node is not what save writes"""
    cfg = type_probe_cfg()
    try:
        m0 = build(cfg)
        m1, y1, _, err = save_load(m0, False)
        if err:
            return None, f"type probe: {err}"
        r0, e0 = run_model(m0)
        r1, e1 = run_model(m1)
    finally:
        NG.set_pollutants("default")
    if e0 or e1:
        return None, f"type probe runs raised: {e0} / {e1}"
    moved = list(m0.nodes_type.get("Demand", {})) != list(m1.nodes_type.get("Demand", {}))
    d = diff_results(r0, r1, TOL)
    if moved and d:
        return "save-type-from-class-name", None
    if d:
        return None, f"type probe: results differ without the filing difference: {fmt_diffs(d)}"
    return None, None


def to_native_dates(m):
    """give a model built on pd.Timestamp / pd.Period the library's own date class everywhere"""
    from wsimod.orchestration.model import to_datetime
    conv = lambda d: to_datetime(str(d)[:10]) if len(str(d)) > 7 else to_datetime(str(d))
    m.dates = [conv(d) for d in m.dates]
    for node in m.nodes.values():
        if getattr(node, "data_input_dict", None):
            node.data_input_dict = {(k[0], conv(k[1])): v for k, v in node.data_input_dict.items()}
        for s in getattr(node, "surfaces", []) or []:
            if getattr(s, "data_input_dict", None):
                s.data_input_dict = {(k[0], conv(k[1])): v for k, v in s.data_input_dict.items()}
    return m


def probe_leap_year(r):
    """a further defect of the unmodified tree (dedicated case): model.to_datetime.is_leap_year is a method, and
    GrowingSurface.calc_crop_cover tests it as an attribute (always true): with the dates every loaded model gets, the
    crop calendar is shifted by a day after February in non-leap years.  A model built on pd.Timestamp dates (where
    is_leap_year is a property) therefore simulates differently after save/load."""
    cfg = gen_zoo(r, 4, "default", pervious=False, growing=True, start="2001-03-10")
    try:
        m0 = build(cfg)
        m1, _, _, err = save_load(m0, False)
        if err:
            return None, f"leap-year probe: {err}"
        same_params = not diff(model_snap(m0), model_snap(m1), TOL)
        r0, e0 = run_model(m0)
        r1, e1 = run_model(m1)
        rn, en = run_model(to_native_dates(build(cfg)))
    finally:
        NG.set_pollutants("default")
    if e0 or e1 or en:
        return None, f"leap-year probe runs raised: {e0} / {e1} / {en}"
    d01, dn1 = diff_results(r0, r1, TOL), diff_results(rn, r1, TOL)
    if same_params and d01 and not dn1 and all("surfaces/" in p or "flows/" in p or "tanks/" in p for p, _, _ in d01):
        return "to-datetime-leap-year-always-true", None
    if d01:
        return None, f"leap-year probe: results differ, not explained by the date class: {fmt_diffs(dn1 or d01)}"
    return None, None


def probe_sparse_pollutant_sets(r):
    """pollutant sets with no additive pollutant at all, with no non-additive one, with one of each: a small model
    (catchment -> river -> junction -> outlet) is run, a fresh copy is saved, the process goes back to the library's default
    set (what a new session has), the saved model is loaded: the set in force must be the saved one, and the loaded model
    must reproduce the run"""
    import tempfile
    import pandas as pd
    from wsimod.core import constants
    from wsimod.orchestration.model import Model
    dates = [pd.Timestamp(d) for d in ("2000-02-27", "2000-02-28", "2000-02-29", "2000-03-01")]
    msgs = []
    for adds, nons in ([], ["temperature"]), (["phosphate"], []), (["salt"], ["temperature"]), (["phosphate", "salt"], []):
        def mk():
            constants.POLLUTANTS, constants.ADDITIVE_POLLUTANTS, constants.NON_ADDITIVE_POLLUTANTS = adds + nons, list(adds), list(nons)
            data = {}
            for i, d in enumerate(dates):
                data[("flow", d)] = float(3 + 2 * i)
                for p_ in adds:
                    data[(p_, d)] = 0.25
                for p_ in nons:
                    data[(p_, d)] = 10.0 + i
            m = Model()
            m.add_nodes([{"name": "c", "type_": "Catchment", "data_input_dict": data},
                         {"name": "j", "type_": "Node"}, {"name": "w", "type_": "Waste"}])
            m.add_arcs([{"name": "a1", "type_": "Arc", "in_port": "c", "out_port": "j"},
                        {"name": "a2", "type_": "QueueArc", "in_port": "j", "out_port": "w", "number_of_timesteps": 1}])
            m.dates = list(dates)
            return m
        try:
            with quiet():
                r0, e0 = run_model(mk())
                with tempfile.TemporaryDirectory(prefix="c14s_") as d:
                    mk().save(d)
                    constants.set_default_pollutants()          # a new session
                    m1 = Model()
                    m1.load(d)
                inforce = (list(constants.POLLUTANTS), list(constants.ADDITIVE_POLLUTANTS), list(constants.NON_ADDITIVE_POLLUTANTS))
                r1, e1 = run_model(m1)
            if sorted(inforce[0]) != sorted(adds + nons) or inforce[1] != adds or inforce[2] != nons:
                msgs.append(f"pollutant set saved as additive {adds} / non-additive {nons}; after loading into a fresh session the set in force is "
                            f"additive {inforce[1]} / non-additive {inforce[2]}")
            elif e0 or e1:
                if e0 != e1:
                    msgs.append(f"pollutant set additive {adds} / non-additive {nons}: original run: {e0}; loaded model's run: {e1}")
            else:
                dd = diff_results(r0, r1, TOL)
                if dd:
                    msgs.append(f"pollutant set additive {adds} / non-additive {nons}: loaded model differs: {fmt_diffs(dd)}")
        except Exception as ex:
            msgs.append(f"pollutant set additive {adds} / non-additive {nons}: save / load raised {err_text(ex)}")
        finally:
            constants.set_default_pollutants()
    return None, ("sparse pollutant sets: " + " || ".join(msgs[:2])) if msgs else None


# ---------------------------------------------------------------------------
# (b) pickle / resume
# ---------------------------------------------------------------------------
def in_transit(m):
    """volume queued in arcs and queue tanks"""
    tot = 0.0
    for a in m.arcs.values():
        q = getattr(a, "queue", None)
        if q is not None:
            tot += sum(v["volume"] for v in (q.values() if isinstance(q, dict) else [x["vqip"] for x in q]))
    for n in m.nodes.values():
        for v in vars(n).values():
            ia = getattr(v, "internal_arc", None)
            if ia is not None:
                tot += sum(x["volume"] for x in ia.queue.values())
    return tot


def check_pickle(cfg, ks=None):
    """all pickle points of one model.  Returns dict(problems, points, transit_points, skipped)"""
    from wsimod.orchestration.model import Model
    res = {"problems": [], "points": 0, "transit_points": 0, "skipped": None, "nontrivial": False}
    bad = res["problems"].append
    try:
        full_m = build(cfg)
        dates = list(full_m.dates)
        full, e = run_model(full_m)
        if e:
            res["skipped"] = "uninterrupted run raises: " + e
            return res
        res["nontrivial"] = any_flow(full)
        end_state = model_snap(full_m)
        for k in (ks or range(1, len(dates))):
            m = build(cfg)
            head, e = run_model(m, dates[:k])
            if e:
                bad(f"run of dates[:{k}] raised {e} although the uninterrupted run does not")
                continue
            transit = in_transit(m)
            with tempfile.TemporaryDirectory(prefix="c14p_") as d:
                fid = os.path.join(d, "model.pkl")
                try:
                    with quiet():
                        m.save_pickle(fid)
                        m2 = Model().load_pickle(fid)
                except Exception as ex:
                    bad(f"pickle point {k}: {err_text(ex)}")
                    continue
            if m2 is m:
                bad(f"pickle point {k}: load_pickle returned the pickled object itself")
            tail, e = run_model(m2, dates[k:])
            res["points"] += 1
            res["transit_points"] += transit > 0
            if e:
                bad(f"pickle point {k} (after {datekey(dates[k - 1])}): resumed run raised {e}")
                continue
            joined = {key: head[key] + tail[key] for key in head}
            d = diff_results(full, joined, 0.0)
            if d:
                bad(f"pickle point {k} (after {datekey(dates[k - 1])}, {transit:.6g} in transit): resumed run differs from the "
                    f"uninterrupted run: {fmt_diffs(d)}")
            # the resumed object graph must also be in the state of the uninterrupted model at the end
            d = diff(end_state, model_snap(m2), 0.0)
            if d:
                bad(f"pickle point {k}: state of the resumed model after the last timestep differs from the uninterrupted "
                    f"model: {fmt_diffs(d)}")
    except Exception as ex:
        bad("monitor error: " + err_text(ex) + " | " + traceback.format_exc()[-400:])
    finally:
        NG.set_pollutants("default")
        uninstall_exact()
    return res


# ---------------------------------------------------------------------------
# driver
# ---------------------------------------------------------------------------
def _count(into, d):
    for k, v in d.items():
        into[k] = into.get(k, 0) + v


def run(rep, thorough):
    seen = set()
    t0 = time.time()
    r = C.rng("c14")
    MAXV = 3
    nviol = 0
    # ------------------------------------------------------------------ (a)
    mon = {"cases": 0, "by_size": {}, "node_classes": {}, "surface_classes": {}, "arc_classes": {}, "csv": 0, "csv.gz": 0,
           "with_plain_pervious": 0, "without_pervious": 0, "model_runs": 0, "skipped_all_raise": 0, "violations": 0, "known": {},
           "nontrivial": 0}
    plan = []
    n_rand = 60 if thorough else 14
    n_zoo = 24 if thorough else 8
    sizes = ["river", "supply", "land", "full"]
    for i in range(n_rand):
        polset = r.choice(["simple", "four", "reordered", "one", "default"])
        # (every third model has parameters changed through apply_overrides after construction: what is saved is the
        # model as it stands, and the loaded model is constructed with those values)
        cfg = wellformed(NG.gen_model(r, r.choice([3, 4, 6]), polset, sizes[i % 4], {"overrides": True} if i % 3 == 1 else None))
        mon["with_overrides"] = mon.get("with_overrides", 0) + int(bool(cfg.get("overrides")))
        if (i // 4) % 2:
            cfg = relabel(cfg)          # labels as Model.save writes them (otherwise netgen files a RiverReservoir under its own label)
        plan.append((cfg, [False, True] if thorough else [bool(i % 2)]))
    for i in range(n_zoo):
        cfg = gen_zoo(r, r.choice([4, 6]), ["default", "simple", "four", "default", "reordered", "one", "default"][i % 7],
                      pervious=bool(i % 2), growing=(i % 7 != 6))
        plan.append((cfg, [False, True] if (thorough or i < 4) else [bool((i // 2) % 2)]))
    for idx, (cfg, modes) in enumerate(plan):
        for compress in modes:
            out = check_saveload(cfg, compress)
            mon["cases"] += 1
            mon["by_size"][cfg["size"]] = mon["by_size"].get(cfg["size"], 0) + 1
            nc, sc, ac = classes_of(cfg)
            _count(mon["node_classes"], nc)
            _count(mon["surface_classes"], sc)
            _count(mon["arc_classes"], ac)
            mon["csv.gz" if compress else "csv"] += 1
            mon["with_plain_pervious" if plain_pervious(cfg) else "without_pervious"] += 1
            mon["model_runs"] += out["runs"]
            mon["skipped_all_raise"] += out["skipped"] is not None
            mon["nontrivial"] += out["nontrivial"]
            for s in out["known"]:
                mon["known"][s] = mon["known"].get(s, 0) + 1
            seen |= out["known"]
            rep.add_eval(("saveload", idx, compress), nontrivial=out["nontrivial"] and not out["problems"])
            if out["skipped"]:
                rep.notes.append(f"C14 save/load case {idx} ({cfg['size']}): {out['skipped']}")
            if out["problems"]:
                mon["violations"] += 1
                nviol += 1
                if nviol <= MAXV:
                    rep.violation("counterexample", f"{PID} monitor: save/load ({'csv.gz' if compress else 'csv'}, {cfg['size']} model, "
                                  f"{cfg['polset']} pollutants): " + " || ".join(out["problems"][:3]),
                                  {"part": "saveload", "compress": compress, "cfg": NG.cfg_json(cfg)}, True)
            elif len(rep.samples) < 1 and out["nontrivial"]:
                rep.samples.append({"part": "saveload", "compress": compress, "size": cfg["size"], "polset": cfg["polset"],
                                    "nodes": nc, "surfaces": sc, "arcs": ac, "dates": len(cfg["dates"]), "known": sorted(out["known"])})
    for sig, msg in (probe_growing_without_soil(r), probe_type_filing(), probe_leap_year(r), probe_sparse_pollutant_sets(r)):
        mon["cases"] += 1
        if sig:
            seen.add(sig)
            mon["known"][sig] = mon["known"].get(sig, 0) + 1
        if msg:
            mon["violations"] += 1
            nviol += 1
            rep.violation("counterexample", f"{PID} monitor: {msg}", {"part": "probe"}, False)
    mon["wall_s"] = round(time.time() - t0, 1)
    rep.monitor["C14_saveload"] = mon
    # ------------------------------------------------------------------ (b)
    t1 = time.time()
    pm = {"models": 0, "pickle_points": 0, "points_with_water_in_transit": 0, "by_size": {}, "arc_classes": {}, "node_classes": {},
          "skipped_run_raises": 0, "violations": 0}
    plan = []
    for i in range(40 if thorough else 12):
        plan.append(gen_transit(r, r.choice([6, 8])))
    for i in range(12 if thorough else 4):
        plan.append(gen_zoo(r, 6, ["simple", "default", "four", "one"][i % 4], pervious=bool(i % 2)))
    for i in range(16 if thorough else 4):
        plan.append(wellformed(NG.gen_model(r, 5, None, ["full", "supply", "land", "river"][i % 4])))
    pv = 0
    for idx, cfg in enumerate(plan):
        out = check_pickle(cfg)
        pm["models"] += 1
        pm["pickle_points"] += out["points"]
        pm["points_with_water_in_transit"] += out["transit_points"]
        pm["by_size"][cfg["size"]] = pm["by_size"].get(cfg["size"], 0) + 1
        nc, sc, ac = classes_of(cfg)
        _count(pm["arc_classes"], ac)
        _count(pm["node_classes"], nc)
        pm["skipped_run_raises"] += out["skipped"] is not None
        rep.add_eval(("pickle", idx), nontrivial=out["transit_points"] > 0 and not out["problems"])
        if out["skipped"]:
            rep.notes.append(f"C14 pickle model {idx} ({cfg['size']}): {out['skipped']}")
        if out["problems"]:
            pm["violations"] += 1
            pv += 1
            if pv <= MAXV:
                rep.violation("counterexample", f"{PID} monitor: pickle/resume ({cfg['size']} model): " + " || ".join(out["problems"][:3])
                              + (f" ({len(out['problems'])} failing pickle points of {out['points']})" if len(out["problems"]) > 1 else ""),
                              {"part": "pickle", "cfg": NG.cfg_json(cfg)}, True)
        elif len(rep.samples) < 2 and out["transit_points"]:
            rep.samples.append({"part": "pickle", "size": cfg["size"], "polset": cfg["polset"], "dates": len(cfg["dates"]),
                                "pickle_points": out["points"], "with_water_in_transit": out["transit_points"], "arcs": ac})
    pm["wall_s"] = round(time.time() - t1, 1)
    rep.monitor["C14_pickle"] = pm
    return seen


def replay(rep, payload):
    """re-run one recorded case; reports a violation again if it still fails.  Returns the known signatures seen."""
    part = payload.get("part")
    if part == "probe":
        out = set()
        for sig, msg in (probe_growing_without_soil(C.rng("c14")), probe_type_filing(), probe_leap_year(C.rng("c14"))):
            if sig:
                out.add(sig)
            if msg:
                rep.violation("counterexample", f"{PID} monitor: {msg}", {"part": "probe"}, False)
        return out
    cfg = NG.cfg_from_json(payload["cfg"])
    for n in cfg["nodes"]:            # json turned a few integer-valued entries into Fractions; restore what must be int
        for s in n.get("surfaces", []):
            for k in ("crop_factor_stage_dates", "sowing_day", "harvest_day"):
                if k in s:
                    s[k] = [int(x) for x in s[k]] if isinstance(s[k], list) else int(s[k])
            if "crop_factor_stages" in s:
                s["crop_factor_stages"] = [float(x) for x in s["crop_factor_stages"]]
        if "pipe_time" in n:
            n["pipe_time"] = int(n["pipe_time"])
    for a in cfg["arcs"]:
        if "number_of_timesteps" in a:
            a["number_of_timesteps"] = int(a["number_of_timesteps"])
    if part == "saveload":
        out = check_saveload(cfg, bool(payload.get("compress")))
        rep.add_eval(("replay", "saveload"), True)
        if out["problems"]:
            rep.violation("counterexample", f"{PID} monitor: save/load replay: " + " || ".join(out["problems"][:3]),
                          {"part": "saveload", "compress": bool(payload.get("compress")), "cfg": payload["cfg"]}, True)
        return out["known"]
    out = check_pickle(cfg)
    rep.add_eval(("replay", "pickle"), True)
    if out["problems"]:
        rep.violation("counterexample", f"{PID} monitor: pickle/resume replay: " + " || ".join(out["problems"][:3]),
                      {"part": "pickle", "cfg": payload["cfg"]}, True)
    return set()


if __name__ == "__main__":
    import json
    import sys
    rep = C.Report(PID)
    if len(sys.argv) > 1:
        sigs = replay(rep, json.load(open(sys.argv[1])))
    else:
        sigs = run(rep, C.tier() == "thorough")
    print(json.dumps(rep.monitor, indent=1, default=str))
    for v in rep.violations:
        print("VIOLATION", v[1][:600], "->", v[2])
    for n in rep.notes[:10]:
        print("note:", n[:300])
    print("known signatures seen:", sorted(sigs))
    print("violations:", len(rep.violations), "evaluations:", rep.evaluations, "nontrivial:", len(rep.nontrivial))
