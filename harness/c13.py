"""C13 — determinism and chunking: theorems (coq/props/C13.v) + river-order correspondence + rerun / chunk / hash-seed / contamination monitor."""
import json
import os
import sys

import common as C
import corr_orch as O
import mon_c13

PID = "C13"
RULE = ("monitor (floating point, bit-exact comparison of the flows, tanks and surfaces lists of Model.run): random netgen models "
        "of every size, some with travel-time arcs, (a) built and run twice, (b) run as every 2-chunk split and some 3-chunk "
        "splits of the date list against one run, (c) in fresh interpreters under several PYTHONHASHSEED values, (d) after "
        "another model was built and run in the same process. correspondence: river order of random river graphs against the "
        "order-deterministic model. non-trivial = model with >= 4 nodes")


def main():
    rep = C.Report(PID)
    rep.trusted = list(C.BASE_TRUST) + [
        "interpreter-level behaviour (hash randomisation, class attributes, module registries, shared default arguments) cannot be "
        "exhibited by the Coq model; it is reached only through fresh-interpreter and same-process reruns of the implementation"]
    thorough = C.tier() == "thorough"
    replay = os.environ.get("VERIF_REPLAY")
    if replay:
        body = json.load(open(replay))
        if body.get("kind") == "counterexample":
            mon_c13.replay(rep, body)
            return rep.finish("replay of one recorded case", [])
    C.proof_stage(rep, "props/C13.v")
    O.correspondence(rep, 1500 if thorough else 300, tag="c13orch")
    seen = mon_c13.run(rep, thorough)
    C.apply_known(rep, PID, {k: (k, "model", {"ops": [], "cls": "model"}, -1) for k in seen})
    return rep.finish(RULE, ["same pollutant configuration for models sharing a process (constants.* are module globals by design)"])


if __name__ == "__main__":
    sys.exit(main())
