"""C14 — persistence: save/load round-trip theorems and the resumed-run theorem (coq/props/C14.v) + exact parameter
correspondence incl. Model.save / Model.load round trips + whole-model save/load and pickle/resume monitor."""
import json
import os
import sys

import common as C
import corr_comp as K
import corr_params  # noqa: F401  (registers the family)
import mon_c14

PID = "C14"
RULE = ("correspondence (family params): Tank, Arc, Surface, ImperviousSurface, PerviousSurface, Storage, River, WTW constructed from "
        "random dyadic arguments, random sequences of apply_overrides and of Model.save + Model.load round trips; after every step all "
        "parameters and derived quantities, and for a round trip the constructor arguments found in config.yml, equal the model's "
        "exactly. monitor (floating point): random netgen models and 'zoo' models with every node, surface and arc class are saved "
        "(csv and csv.gz), loaded into a fresh Model, saved and loaded again: deep parameter snapshot and all results of "
        "Model.run(record_all) of original vs loaded agree to 1e-9 relative, second generation (yaml, data files, snapshot, results) "
        "equals the first exactly; every timestep boundary k: run dates[:k], save_pickle, load_pickle into a new object, run "
        "dates[k:]: concatenated results equal the uninterrupted run exactly. non-trivial = model with flow / pickle point with "
        "water in transit / parameter case with >= 3 operations")


def main():
    rep = C.Report(PID)
    rep.trusted = list(C.BASE_TRUST) + [
        "coq/Params.v is hand-written from tanks.py, arcs.py, land.py, storage.py, wtw.py and Model.save; policed by the params "
        "correspondence (which goes through the real Model.save / Model.load and the written config.yml)",
        "the yaml / csv / csv.gz text layer, dill, date classes and the classes outside Params.v are not modelled: they are reached only by "
        "the whole-model monitor (partial)"]
    thorough = C.tier() == "thorough"
    replay = os.environ.get("VERIF_REPLAY")
    if replay:
        body = json.load(open(replay))
        if body.get("kind") == "counterexample" and "part" in body:
            seen = mon_c14.replay(rep, body)
            C.apply_known(rep, PID, {k: (k, "model", {"ops": [], "cls": "model"}, -1) for k in seen})
            return rep.finish("replay of one recorded case", [])
    C.proof_stage(rep, "props/C14.v")
    K.correspondence(rep, "params", 1500 if thorough else 300, 8, tag="c14")
    seen = mon_c14.run(rep, thorough)
    C.apply_known(rep, PID, {k: (k, "model", {"ops": [], "cls": "model"}, -1) for k in seen})
    return rep.finish(RULE, ["total_porosity of a PerviousSurface is non-zero (documented range (0, 1]; a zero value raises ZeroDivisionError "
                             "in apply_overrides and in save: the model reports it and the correspondence demands the exception)",
                             "models expressible through constructor parameters (attributes patched onto objects after construction are "
                             "outside what save can see)"])


if __name__ == "__main__":
    sys.exit(main())
