"""Exact correspondence for coq/LandV.v: the real Land node with ImperviousSurface / PerviousSurface surfaces (one to
three, any order) between receivers filed as Sewer, Groundwater, River, Node.  Operations: Land.run under the weather of
the timestep (rain, potential evaporation, temperature: zero rain, rain below / above evaporation, bursts above the
infiltration capacity), sewer flooding pushed with the 'Sewer' tag, close-outs.  After every operation every surface
store, the three residence tanks, the two running accounts the node declares and every arc record and neighbour state."""
import contextlib
import io
from fractions import Fraction as F

import common as C
import corr_comp as K
import corr_kinds as KD
import gens as G
from exnum import Ex, frac

# float constants of PerviousSurface, exactly as the class computes with them: the deep-soil term and the total weight
# are a float product and a float sum
W_PREV, W_AIR, DEEP_TERM, W_TOTAL = F(0.1), F(0.6), F(10 * 0.1), F(0.6 + 0.1 + 0.1)


def gen_case(r, maxops):
    adds = r.sample(["phosphate", "ammonia", "solids", "salt"], r.randint(0, 2))
    nons = ["temperature"] + r.sample(["ph", "do"], r.randint(0, 1))
    part = K.Part(adds, nons)
    surfaces = []
    for i in range(r.choice([1, 2, 2, 3])):
        area = F(r.choice([1, 10, 50, 200]))
        load = [r.choice([F(0), F(1, 1000), F(1, 50)]) for _ in adds] if r.random() < 0.6 else []
        if r.random() < 0.5:
            pore = r.choice([F(0), F(1, 100), F(1, 20)])
            surfaces.append({"type": "ImperviousSurface", "area": area, "pore": pore, "e": r.choice([F(1), F(1, 2)]), "load": load,
                             "init": r.choice([F(0), F(1, 4)]) * area * pore})
        else:
            depth = r.choice([F(1, 2), F(3, 4)])
            por = F(2, 5)
            iv = G.rand_vqip(r, part.na, part.nn, wet=True)
            sc = area * depth * por * r.choice([F(0), F(1, 2), F(9, 10)])
            init = (sc, [x * sc / iv[0] for x in iv[1]] if iv[0] > 0 else [F(0)] * part.na, [F(r.randint(2, 20))] + list(iv[2][1:]))
            surfaces.append({"type": "PerviousSurface", "area": area, "depth": depth, "por": por, "fc": F(3, 10), "wp": F(3, 25),
                             "infil": r.choice([F(1, 2), F(1, 100)]), "sc": r.choice([F(1, 20), F(1, 4)]), "pc": r.choice([F(3, 4), F(1, 2)]),
                             "et0c": F(1, 2), "p": F(r.choice([1, 2])), "load": load, "init": init})
    c = {"kind": "land", "cls": "Land", "adds": adds, "nons": nons, "surfaces": surfaces,
         "res": [F(r.choice([1, 2])), F(r.choice([2, 5])), F(r.choice([5, 20]))],
         "outs": KD.gen_star(r, part, r.choice([0, 1, 2, 3, 4]), [4, 5, 1, 0, 1, 5])}
    ops = []
    for _ in range(r.randint(1, maxops)):
        x = r.random()
        if x < 0.6:
            ops.append(("run", r.choice([F(0), F(1, 1000), F(1, 100), F(1, 20), F(3, 5)]), r.choice([F(0), F(1, 500), F(1, 100), F(1, 10)]), F(r.randint(2, 25))))
        elif x < 0.72:
            v = G.rand_vqip(r, part.na, part.nn, wet=True)
            ops.append(("flood", (v[0], v[1], [F(r.randint(2, 25))] + list(v[2][1:]))))
        else:
            ops.append(("end",))
    c["ops"] = ops
    return c


class Run:
    def __init__(self, c):
        from wsimod.arcs import arcs
        from wsimod.nodes.land import Land
        self.c = c
        self.part = part = K.Part(c["adds"], c["nons"])
        self.data = {}
        sdicts = []
        for i, s in enumerate(c["surfaces"]):
            load = {n: Ex(v) for n, v in zip(c["adds"], s["load"])}
            if s["type"] == "ImperviousSurface":
                sdicts.append({"type_": "ImperviousSurface", "surface": f"s{i}", "area": Ex(s["area"]), "pore_depth": Ex(s["pore"]),
                               "et0_to_e": Ex(s["e"]), "pollutant_load": load, "initial_storage": Ex(s["init"])})
            else:
                sdicts.append({"type_": "PerviousSurface", "surface": f"s{i}", "area": Ex(s["area"]), "depth": Ex(s["depth"]),
                               "total_porosity": Ex(s["por"]), "field_capacity": Ex(s["fc"]), "wilting_point": Ex(s["wp"]),
                               "infiltration_capacity": Ex(s["infil"]), "surface_coefficient": Ex(s["sc"]), "percolation_coefficient": Ex(s["pc"]),
                               "et0_coefficient": Ex(s["et0c"]), "ihacres_p": Ex(s["p"]), "pollutant_load": load,
                               "initial_storage": part.d(s["init"])})
        with contextlib.redirect_stdout(io.StringIO()):
            self.hub = Land(name="hub", data_input_dict=self.data, surfaces=sdicts, surface_residence_time=Ex(c["res"][0]),
                            subsurface_residence_time=Ex(c["res"][1]), percolation_residence_time=Ex(c["res"][2]))
        self.hub.t = 0
        self.outs = []
        for i, a in enumerate(c["outs"]):
            nb = KD.FAKE[a["ty"]](f"o{i}", part, a["nb"])
            self.outs.append((arcs.Arc(name=f"ao{i}", in_port=self.hub, out_port=nb, capacity=Ex(a["cap"]), preference=Ex(a["pref"])), nb))

    def do(self, op):
        p, h, k = self.part, self.hub, op[0]
        with contextlib.redirect_stdout(io.StringIO()):
            if k == "run":
                self.data[("precipitation", 0)] = Ex(op[1])
                self.data[("et0", 0)] = Ex(op[2])
                self.data[("temperature", 0)] = Ex(op[3])
                h.run()
            elif k == "flood":
                return h.push_set(p.d(op[1]), "Sewer")
            else:
                self.data[("temperature", 0)] = Ex(20)
                h.end_timestep()
                for arc, nb in self.outs:
                    arc.end_timestep()
        return None

    def enc(self):
        p, h = self.part, self.hub
        zero = p.d((F(0), [F(0)] * p.na, [F(0)] * p.nn))
        out = []
        for t in h.surfaces + [h.surface_runoff, h.subsurface_runoff, h.percolation]:
            out += p.ev(t.storage) + p.ev(t.storage_) + p.ev(zero)
        out += p.ev(h.running_inflow_mb) + p.ev(h.running_outflow_mb)
        for arc, nb in self.outs:
            out += K.enc_arc_py(p, arc) + [0] + nb.fk.enc()
        return out


def run_impl(c):
    R = Run(c)
    out = []
    for op in c["ops"]:
        try:
            r = R.do(op)
        except ZeroDivisionError:
            return out + [-999]
        if r is not None:
            out += R.part.ev(r)
        out += R.enc()
    return out


def expr(c):
    from wsimod.core import constants
    na, nn = len(c["adds"]), len(c["nons"])
    sfs = []
    for s in c["surfaces"]:
        if s["type"] == "ImperviousSurface":
            cap = s["area"] * s["pore"]
            tank = f"(t_init {C.qlit(cap)} (mkV {C.qlit(s['init'])} [] []) [] (2#1))"
            sfs.append(f"mkSF (SImp {C.qlit(s['e'])}) {C.qlit(s['area'])} {tank} {C.veclit(s['load'])}")
        else:
            d = s["depth"] * s["por"]
            cap = s["area"] * d
            tank = f"(t_init {C.qlit(cap)} {C.vlit(s['init'])} [] (2#1))"
            ps = (f"(mkPerv {C.qlit(d)} {C.qlit(s['fc'] * s['depth'])} {C.qlit(s['wp'] * s['depth'])} {C.qlit(s['infil'])} {C.qlit(s['sc'])} "
                  f"{C.qlit(s['pc'])} {C.qlit(s['et0c'])} {C.qlit(s['p'])} {C.qlit(W_PREV)} {C.qlit(W_AIR)} {C.qlit(DEEP_TERM)} {C.qlit(W_TOTAL)})")
            sfs.append(f"mkSF (SPerv {ps}) {C.qlit(s['area'])} {tank} {C.veclit(s['load'])}")
    zero = "(mkV 0 [] [])"
    unb = C.qlit(F(10 ** 15))
    rt = [f"(t_init {unb} {zero} [] {C.qlit(x)})" for x in c["res"]]
    ops = []
    for op in c["ops"]:
        if op[0] == "run":
            tn = "[" + "; ".join([C.qlit(op[3])] + ["0"] * (nn - 1)) + "]"
            ops.append(f"LRun {C.qlit(op[1])} {C.qlit(op[2])} {C.qlit(op[3])} {tn}")
        elif op[0] == "flood":
            ops.append(f"LFlood {C.vlit(op[1])}")
        else:
            ops.append("LEnd (20#1)")
    l = f"(mkLD _ [{'; '.join(sfs)}] {rt[0]} {rt[1]} {rt[2]} {zero} {zero} {KD.star_lit(c['outs'], True)})"
    return f"run_land {na} {nn} {int(constants.MAXITER)} {l} [{'; '.join(ops)}]"


K.FAMILIES["land"] = (gen_case, run_impl, expr)
K.add_imports("Distrib", "Kinds", "TimeArea", "Boundary", "LandV")
