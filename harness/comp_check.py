"""Shared driver of the component-level property checks (C02, C04, C05, C06, C09)."""
import json
import os
import sys

import common as C
import corr_comp as K
import mon_comp as M

TRUST_COMP = [
    "hand-written Gallina models Tank.v / Arc.v / QTank.v of wsimod.nodes.tanks and wsimod.arcs.arcs, policed on every run "
    "by the exact correspondence check (whole observable state after every operation of random operation sequences, "
    "implementation on exact numbers vs model under vm_compute, compared as integers)",
    "end nodes of an arc are modelled as an arbitrary `port` constrained only by the reply contract (ArcLaws.contract); "
    "tank-backed ends are proved to meet it (ArcLaws.tank_contract)",
]


NODE_FAMILIES = ("tarea", "wtw", "demand", "leak", "land")


def run(pid, families, rule, assumptions, extra_trust=(), n_quick=140, n_thorough=1500, maxops=14, extra=None, net_corr=None):
    rep = C.Report(pid)
    rep.trusted = list(C.BASE_TRUST) + TRUST_COMP + list(extra_trust)
    thorough = C.tier() == "thorough"
    replay = os.environ.get("VERIF_REPLAY")
    if replay:
        body = json.load(open(replay))
        kind = body.get("kind")
        if kind == "counterexample" and "case" in body:
            M.replay_case(rep, pid, body["family"], body["case"])
            return rep.finish("replay of one recorded case", assumptions)
        if kind == "broken-correspondence" and "case" in body:
            c = M.case_from_json(body["case"])
            if K.disagree(body["family"], c):
                rep.violation("broken-correspondence", "recorded case still disagrees", {"family": body["family"], "case": body["case"]}, False)
            rep.add_eval(("replay", str(body["case"])), True)
            return rep.finish("replay of one recorded case", assumptions)
        # broken obligation: fall through to the full check
    C.proof_stage(rep, f"props/{pid}.v")
    n = n_thorough if thorough else n_quick
    for fam in families:
        if fam in NODE_FAMILIES:
            # node classes on top of the component models (Sewer / QueueGroundwater, works, demand, distribution, land)
            import importlib
            import corr_kinds  # noqa: F401
            importlib.import_module("corr_" + fam)
            K.correspondence(rep, fam, n, (6 if fam == "land" else 8) if not thorough else (8 if fam == "land" else 14), tag=pid.lower(),
                             maxdigits=80 if fam == "land" else 30)
            continue
        K.correspondence(rep, fam, n, maxops if not thorough else maxops + 10, tag=pid.lower())
    if net_corr:
        import corr_kinds  # noqa: F401
        import corr_net  # noqa: F401
        import corr_star  # noqa: F401
        K.correspondence(rep, "net", net_corr[1] if thorough else net_corr[0], 8, tag=pid.lower(), maxdigits=30)
    seen = M.monitor(rep, pid, [f for f in families if f not in NODE_FAMILIES], n if not thorough else n * 2, maxops if not thorough else maxops + 10,
                     cases_extra=K.MISMATCHED)
    if extra:
        for k, v in (extra(rep, thorough) or {}).items():
            seen.setdefault(k, (v, 'net', {'ops': [], 'cls': 'model'}, -1))
    C.apply_known(rep, pid, seen)
    return rep.finish(rule, assumptions)
