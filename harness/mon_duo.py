"""Sewer duo monitor (C04, C02, C09): a real Sewer fed by tagged pushes over an arc from a source node, discharging over
an arc of any class (plain, QueueArc / DecayArc with travel time, AltQueueArc) into a receiver that is often full (a
small Sewer, a small Storage, a WWTW with little throughput) plus, sometimes, an overflow to an outlet; several
timesteps of pushes with changing quality, make_discharge and close-out, exact arithmetic.  Before every close-out:
  C04  what the sewer's arcs record as carried in minus carried out is what its tank gained (volume and every additive
       pollutant); the same for the receiver when it is a store;
  C02  per arc: entered = left + change in transit + decayed;
  C09  water pushed with the default / 'Sewer' tag becomes available after pipe_time close-outs, with a 'Land' / 'Demand'
       tag each fraction of pipe_timearea after its own delay - neither earlier nor later, whether pipe_time and
       pipe_timearea came from the constructor or from apply_overrides (measured on volume: arrived so far = available now
       + everything that has left).
Requests whose exact values explode are cut off by the watchdog."""
import contextlib
import io
import random
from fractions import Fraction as F

import common as C
import mon_net as MN
import netgen as NG
from exnum import EPS, UNBOUNDED, Ex, frac, install_exact

DUST = F(1, 10 ** 9)
TAS = [{0: F(1)}, {0: F(1, 2), 1: F(1, 2)}, {0: F(3, 4), 2: F(1, 4)}, {1: F(1)}, {0: F(1, 4), 1: F(1, 2), 3: F(1, 4)}]


def gen_case(r):
    polset = r.choice(["simple", "four", "one"])
    adds, nons = NG.POLSETS[polset]
    T = r.randint(4, 7)
    c = {"polset": polset, "T": T, "sender": "Sewer",
         "cap": F(r.choice([8, 20, 60])), "pipe_time": r.choice([0, 0, 1, 2]), "ta": r.choice(TAS),
         "ov": None,
         "arc": r.choice(["Arc", "QueueArc", "QueueArc", "DecayArc", "AltQueueArc"]), "nt": r.choice([0, 1, 1, 2]),
         "arc_cap": r.choice([None, None, F(6)]),
         "recv": r.choice(["Sewer", "Sewer", "Storage", "WWTW", "River"]), "recv_cap": F(r.choice([2, 4, 9])),
         "overflow": r.random() < 0.4}
    if c["arc"] == "AltQueueArc":
        c["nt"] = r.choice([1, 2])
    if r.random() < 0.4:
        ov = {}
        if r.random() < 0.7:
            ov["pipe_time"] = r.choice([0, 1, 2, 3])
        if r.random() < 0.4:
            ov["pipe_timearea"] = r.choice(TAS)
        if r.random() < 0.4:
            ov["capacity"] = c["cap"] * r.choice([F(1, 2), F(2)])
        c["ov"] = ov or None
    steps = []
    for t in range(T):
        pushes = []
        for _ in range(r.choice([0, 1, 1, 2, 3])):
            vol = F(r.choice([1, 2, 3, 5, 8, 13]), r.choice([1, 1, 2]))
            v = {"volume": vol}
            for p in adds:
                v[p] = vol * F(r.randint(0, 40), 100)
            for p in nons:
                v[p] = F(r.randint(2, 25))
            pushes.append((r.choice(["default", "Sewer", "Land", "Demand", "Land"]), v))
        steps.append(pushes)
    c["steps"] = steps
    # every third case: a time-area groundwater store as the sender (QueueGroundwater.distribute; all pushes take the
    # time-area diagram; sometimes with decays) - a choice that leaves the draws above as they are
    rs = random.Random(r.getrandbits(32))
    if rs.random() < 0.34:
        c["sender"] = "QueueGroundwater"
        c["cap"] = F(rs.choice([60, 200, 1000]))
        c["decays"] = rs.random() < 0.4
        if c["ov"]:
            c["ov"].pop("pipe_time", None)
            if "pipe_timearea" in c["ov"]:
                c["ov"]["timearea"] = c["ov"].pop("pipe_timearea")
            c["ov"] = c["ov"] or None
        c["steps"] = [[("default", v) for tag, v in pushes] for pushes in steps]
    return c


def build(c):
    from wsimod.arcs import arcs as A
    from wsimod.nodes.nodes import Node
    from wsimod.nodes.sewer import Sewer
    from wsimod.nodes.storage import River, Storage
    from wsimod.nodes.waste import Waste
    from wsimod.nodes.wtw import WWTW
    dates = list(range(c["T"]))
    temp = {("temperature", t): Ex(10 + t) for t in dates}
    src = Node(name="src")
    if c.get("sender", "Sewer") == "Sewer":
        sw = Sewer(name="sewer", capacity=Ex(c["cap"]), pipe_time=c["pipe_time"], pipe_timearea={k: Ex(v) for k, v in c["ta"].items()},
                   data_input_dict=dict(temp))
    else:
        from wsimod.nodes.storage import QueueGroundwater
        kw = dict(name="sewer", capacity=Ex(c["cap"]), area=Ex(10), timearea={k: Ex(v) for k, v in c["ta"].items()}, data_input_dict=dict(temp))
        if c.get("decays"):
            adds_, _ = NG.POLSETS[c["polset"]]
            kw["decays"] = {adds_[0]: {"constant": Ex(F(1, 10)), "exponent": Ex(F(101, 100))}}
        sw = QueueGroundwater(**kw)
    if c["ov"]:
        ov = dict(c["ov"])
        for key in ("pipe_timearea", "timearea"):
            if key in ov:
                ov[key] = {k: Ex(v) for k, v in ov[key].items()}
        if False:
            ov["pipe_timearea"] = {k: Ex(v) for k, v in ov["pipe_timearea"].items()}
        if "capacity" in ov:
            ov["capacity"] = Ex(ov["capacity"])
        try:
            sw.apply_overrides(ov)
        except RuntimeError as ex:          # recorded known finding (C15 node-data-input-dict-runtimeerror): raised after every value is set
            if "data_input_dict" not in str(ex):
                raise
    k = c["recv"]
    if k == "Sewer":
        rc = Sewer(name="recv", capacity=Ex(c["recv_cap"]))
    elif k == "Storage":
        rc = Storage(name="recv", capacity=Ex(c["recv_cap"]), area=Ex(1))
    elif k == "WWTW":
        adds, nons = NG.POLSETS[c["polset"]]
        rc = WWTW(name="recv", treatment_throughput_capacity=Ex(c["recv_cap"] / 2), stormwater_storage_capacity=Ex(1),
                  process_parameters={p: {"constant": Ex(F(1, 2)), "exponent": Ex(1)} for p in adds},
                  liquor_multiplier={**{p: Ex(F(1, 10)) for p in adds}, "volume": Ex(F(1, 10))}, percent_solids=Ex(F(1, 100)))
    else:
        rc = River(name="recv", length=Ex(200), width=Ex(5), velocity=Ex(8640), damp=Ex(F(1, 10)))
    feed = A.Arc(name="feed", in_port=src, out_port=sw, capacity=Ex(UNBOUNDED))
    kw = dict(name="main", in_port=sw, out_port=rc, capacity=Ex(UNBOUNDED if c["arc_cap"] is None else c["arc_cap"]))
    if c["arc"] in ("QueueArc", "DecayArc", "AltQueueArc"):
        kw["number_of_timesteps"] = c["nt"]
    if c["arc"] == "DecayArc":
        adds, _ = NG.POLSETS[c["polset"]]
        kw["decays"] = {adds[0]: {"constant": Ex(F(1, 20)), "exponent": Ex(F(101, 100))}}
    main = getattr(A, c["arc"])(**kw)
    arcs = [feed, main]
    nodes = [src, sw, rc]
    if c["overflow"]:
        out = Waste(name="out")
        arcs.append(A.Arc(name="spill", in_port=sw, out_port=out, capacity=Ex(UNBOUNDED), preference=Ex(F(1, 1000))))
        nodes.append(out)
    return nodes, arcs, sw, rc, feed, main


def run_case(c):
    """returns (messages [(pid, text)], timesteps run)"""
    bad = []
    install_exact()
    NG.set_pollutants(c["polset"])
    try:
        with contextlib.redirect_stdout(io.StringIO()):
            nodes, arcs, sw, rc, feed, main = build(c)
            names = MN._names()
            eff_pt = (c["ov"] or {}).get("pipe_time", c["pipe_time"])
            eff_ta = (c["ov"] or {}).get("pipe_timearea", (c["ov"] or {}).get("timearea", c["ta"]))
            qgw = c.get("sender", "Sewer") != "Sewer"
            tank = sw.tank if qgw else sw.sewer_tank
            schedule = {}          # close-out index after which water is available -> volume
            left = F(0)            # everything that has left the sewer (volume)
            arrived_init = frac(tank.active_storage["volume"])
            for t in range(c["T"]):
                for n in nodes:
                    n.t = t
                st0 = {n.name: (MN.node_stock(n, names), MN.node_decayed(n, names)) if MN.tanks_of(n) else None for n in (sw, rc)}
                decl0 = MN.cvec(tank.storage, names)
                tr0 = {a.name: MN.arc_transit(a, names) for a in arcs}
                dec0 = {a.name: MN.cvec(a.total_decayed, names) for a in arcs if hasattr(a, "total_decayed")}
                for tag, v in c["steps"][t]:
                    offer = {k: Ex(x) for k, x in v.items()}
                    held0 = MN.tank_stock(tank, names)[0]
                    reply = feed.send_push_request(offer, tag=tag)
                    held1 = MN.tank_stock(tank, names)[0]
                    if held1 > max(frac(tank.capacity), held0) + DUST:
                        bad.append(("C05", f"timestep {t}: an unforced push of {v['volume']} raised what the {type(sw).__name__}'s tank holds (arrived + queued) "
                                           f"from {held0} to {held1}, above its capacity {frac(tank.capacity)}"))
                    took = frac(v["volume"]) - frac(reply["volume"])
                    if took > 0:
                        if qgw or tag in ("Land", "Demand"):
                            for d, f in eff_ta.items():
                                schedule[t + d] = schedule.get(t + d, F(0)) + took * f
                        else:
                            schedule[t + eff_pt] = schedule.get(t + eff_pt, F(0)) + took
                # C09: what has arrived so far (available now + everything that has left) is what was due by now
                due = arrived_init + sum(v for k, v in schedule.items() if k <= t)
                avail = frac(tank.active_storage["volume"])
                if abs((avail + left) - due) > DUST:
                    bad.append(("C09", f"timestep {t}: {avail} available in the sewer + {left} already gone, but {due} was due to have arrived by now "
                                       f"(pipe_time {eff_pt}, pipe_timearea {dict(eff_ta)}{', set through apply_overrides' if c['ov'] else ''})"))
                sw.distribute() if qgw else sw.make_discharge()
                # C04 / C02 before close-out
                for n in (sw, rc):
                    if st0[n.name] is None or type(n).__name__ in ("WWTW", "River"):
                        continue
                    ins = MN.zeros(len(names))
                    outs = MN.zeros(len(names))
                    for a in n.in_arcs.values():
                        ins = MN.vadd(ins, MN.cvec(a.vqip_out, names))
                    for a in n.out_arcs.values():
                        outs = MN.vadd(outs, MN.cvec(a.vqip_in, names))
                    d_st = MN.vadd(MN.vsub(MN.node_stock(n, names), st0[n.name][0]), MN.vsub(MN.node_decayed(n, names), st0[n.name][1]))
                    if not all(abs(x - y) <= DUST for x, y in zip(MN.vsub(ins, outs), d_st)):
                        bad.append(("C04", f"timestep {t}: the arcs of {n.name} ({type(n).__name__}) record {MN.fmt(ins)} carried in and {MN.fmt(outs)} "
                                           f"carried out over a {c['arc']}, its tank changed by {MN.fmt(d_st)} (decay included)"))
                for a in arcs:
                    vi, vo = MN.cvec(a.vqip_in, names), MN.cvec(a.vqip_out, names)
                    dtr = MN.vsub(MN.arc_transit(a, names), tr0[a.name])
                    dd = MN.vsub(MN.cvec(a.total_decayed, names), dec0[a.name]) if a.name in dec0 else MN.zeros(len(names))
                    if not all(abs(x - y) <= DUST for x, y in zip(vi, MN.vadd(MN.vadd(vo, dtr), dd))):
                        bad.append(("C02", f"timestep {t}: arc {a.name} ({type(a).__name__}): entered {MN.fmt(vi)} != left {MN.fmt(vo)} + change in "
                                           f"transit {MN.fmt(dtr)} + decayed {MN.fmt(dd)}"))
                left += sum(frac(a.vqip_in["volume"]) for a in sw.out_arcs.values())
                for n in nodes:
                    n.end_timestep()
                for a in arcs:
                    a.end_timestep()
                if bad:
                    break
            return bad, t + 1
    finally:
        NG.set_pollutants("default")


def run(rep, thorough, pid):
    r = C.rng("duo")          # the same cases for every property that runs this monitor
    n = 1500 if thorough else 220
    stats = {"cases": 0, "timesteps": 0, "violations": 0, "too_slow": 0, "arc_classes": {}, "receivers": {}, "senders": {}, "with_overrides": 0}
    for i in range(n):
        c = gen_case(random.Random(r.getrandbits(48)))
        try:
            C.arm(20)
            bad, steps = run_case(c)
        except C.TooSlow:
            stats["too_slow"] += 1
            continue
        except Exception as ex:
            bad, steps = [("C12", f"raised {type(ex).__name__}: {ex}")], 0
            if pid in ("C04", "C02", "C09"):
                bad = [(pid, bad[0][1])]
        finally:
            C.disarm()
        stats["cases"] += 1
        stats["timesteps"] += steps
        stats["arc_classes"][c["arc"]] = stats["arc_classes"].get(c["arc"], 0) + 1
        stats["receivers"][c["recv"]] = stats["receivers"].get(c["recv"], 0) + 1
        stats["with_overrides"] += int(bool(c["ov"]))
        stats["senders"][c.get("sender", "Sewer")] = stats["senders"].get(c.get("sender", "Sewer"), 0) + 1
        rep.add_eval(("duo", i), nontrivial=steps >= 3)
        mine = [m for p, m in bad if p == pid]
        if mine:
            stats["violations"] += 1
            if stats["violations"] <= 3:
                rep.violation("counterexample", f"{pid} monitor [sewer duo]: {mine[0]}", {"part": "duo", "case": NG.cfg_json(c)}, True)
    rep.monitor[f"{pid}_sewer_duo"] = stats
    return {}
