"""C05 — component level: theorems (coq/props/C05.v), exact correspondence, implementation monitors."""
import sys

import comp_check

RULE = ("correspondence: random operation sequences (pushes incl. forced/dry-mass/sub-epsilon, pulls, pollutant pulls, "
        "evaporation, checks, balance calls, timestep ends with varying temperature) on Tank/ResidenceTank/DecayTank, "
        "QueueTank/DecayQueueTank, Arc/PullArc/PushArc, QueueArc/DecayArc and AltQueueArc/DecayArcAlt between tank-backed or scripted (accept all / "
        "part / none, varying per call) neighbours, over random pollutant partitions; the whole observable state after "
        "every operation is compared exactly with the Gallina model. monitors: the C05 clauses evaluated directly on the "
        "implementation after every operation of fresh sequences. non-trivial = distinct sequence of >= 3 operations")

def duo(rep, thorough):
    # a Sewer / QueueGroundwater behind arcs that back up: an unforced push never raises what its tank holds (arrived plus
    # queued, measured on the tank's parts) above the capacity
    import mon_duo
    seen = mon_duo.run(rep, thorough, "C05") or {}
    # whole models under Model.run (every third with travel-time and one-way arcs, every fifth with parallel arcs between the
    # same pair of nodes): no arc admits more than its capacity within a timestep
    import net_check
    seen.update(net_check.monitor_models(rep, "C05", 500 if thorough else 90, 6 if thorough else 4))
    return seen


if __name__ == "__main__":
    sys.exit(comp_check.run("C05", "tank qtank arc qarc altarc tarea".split(), RULE,
                            ["exact-rational semantics stands for float semantics up to rounding",
                             "offers are wet (non-negative, pollutant mass only with positive volume); no arc-level force for capacity clauses",
                             "end nodes respect the reply contract (proved for tank-backed ends)"], extra=duo))
