"""C15 monitors - parameter overrides.

For every component class with an apply_overrides method (tanks, arcs, nodes, land surfaces, the
nutrient pool) and random subsets of its overridable parameters with random legal values, in EXACT
arithmetic (number class Ex, so that "exactly" means exactly):

(a) as constructed: a component built with parameters p and then overridden with o must have the
    same deep attribute snapshot (parameters, derived quantities, tank fields mirrored from node
    fields, handler bindings, function lists) as a twin freshly constructed with p updated by o, and
    must behave the same: both are put into identical small rigs (source, sinks, sewer, groundwater,
    junction, outlet) and driven with the same sequence of pushes, pulls, checks, orchestration calls
    and timestep ends; every reply and the complete state of the rig after every day are compared.
(b) idempotence: applying the same override dict (a fresh copy) a second and a third time changes
    neither snapshot nor behaviour.  Sequences of two different overrides are covered as well.
(c) no cross-talk: default-constructed bystanders of every class and a same-class sibling that exist
    before the override keep their snapshots (and the sibling its behaviour); components constructed
    afterwards with default arguments equal control snapshots taken in a fresh interpreter; the
    mutable default arguments of every wsimod function and the constants module are unchanged.

Known defects of the unmodified library are recognised specifically (class / attribute / mechanism),
returned as signatures, and repaired on the overridden object so that the rest of the comparison
stays sharp; anything else is a violation."""
import copy
import inspect
import json
import os
import random
import subprocess
import sys
import time
import traceback
from fractions import Fraction as F

import common as C
import netgen as NG
from exnum import UNBOUNDED, Ex, install_exact, uninstall_exact
from mon_c14 import datekey, diff, err_text, fmt_diffs, quiet, snap

PID = "C15"

KNOWN_SHARED = {
    "Demand.pollutant_load", "ResidentialDemand.pollutant_load", "Surface.pollutant_load", "DecayTank.decays",
    "DecayQueueTank.decays", "NutrientPool.degrhpar", "NutrientPool.dishpar", "NutrientPool.minfpar", "NutrientPool.disfpar",
    "NutrientPool.immobdpar", "NutrientPool.fraction_manure_to_dissolved_inorganic", "NutrientPool.fraction_residue_to_fast",
}
KNOWN = {
    "shared-mutable-default:<Class>.<attr>":
        "a mutable default argument is stored on the instance and updated in place by apply_overrides, so every instance "
        "that did not pass its own value (existing or future) sees the override",
    "distribution-leakage-rewrapped":
        "Distribution.apply_overrides calls decorate_pull_handlers again: with leakage > 0 the pull handlers are wrapped "
        "once more per call (leakage applied repeatedly); wrappers are never removed when leakage is overridden to 0",
    "node-data-input-dict-runtimeerror":
        "Node.apply_overrides raises RuntimeError('Not recognised format for data_input_dict') whenever the node already "
        "holds a non-empty data_input_dict and no file name is supplied (after the subclass part has been applied)",
    "queuegroundwater-stale-check-tank":
        "QueueGroundwater answers push checks from the Tank that Storage.__init__ created and that was replaced by the "
        "QueueTank; capacity/area/datum overrides do not reach it (constructed twin: check tank has the new values)",
    "surface-deposition-not-enabled-by-override":
        "Surface decides at construction whether simple_deposition / atmospheric deposition run (pollutant_load non-empty, "
        "'nhx-dry' in data); overriding pollutant_load / data_input_dict on a surface built without them never deposits",
    "unlimiteddistribution-leakage-only-via-override":
        "UnlimitedDistribution(leakage=x) installs its own pull handlers after the decoration (no leakage), but "
        "apply_overrides({'leakage': x}) decorates them (leakage): override and construction differ",
}


# ---------------------------------------------------------------------------
# serialisation of snapshots (controls come from a fresh interpreter as JSON)
# ---------------------------------------------------------------------------
def ser(x):
    """JSON-able canonical form: every number becomes the exact fraction it stands for"""
    if isinstance(x, bool) or x is None or isinstance(x, str):
        return x
    if isinstance(x, (int, float)):
        x = F(x)
    if isinstance(x, F):
        return f"F:{x.numerator}/{x.denominator}"
    if isinstance(x, Ex):
        return ser(F(x.q))
    if isinstance(x, dict):
        return {str(k): ser(v) for k, v in x.items()}
    if isinstance(x, (list, tuple)):
        return [ser(v) for v in x]
    return x


def ser_raw(x):
    """JSON-able form that keeps ints and floats as they are (used for the library's default arguments, which must be
    restored with their own types)"""
    if isinstance(x, (F, Ex)):
        return ser(x)
    if isinstance(x, dict):
        return {str(k): ser_raw(v) for k, v in x.items()}
    if isinstance(x, (list, tuple)):
        return [ser_raw(v) for v in x]
    return x


def xsnap(o, skip=()):
    return snap(o, exact=True, skip=skip)


# ---------------------------------------------------------------------------
# mutable default arguments of the library
# ---------------------------------------------------------------------------
def wsimod_classes():
    import wsimod.arcs.arcs as arcs
    import wsimod.core.core as core
    import wsimod.nodes.catchment as catchment
    import wsimod.nodes.demand as demand
    import wsimod.nodes.distribution as distribution
    import wsimod.nodes.land as land
    import wsimod.nodes.nodes as nodes
    import wsimod.nodes.nutrient_pool as nutrient_pool
    import wsimod.nodes.sewer as sewer
    import wsimod.nodes.storage as storage
    import wsimod.nodes.tanks as tanks
    import wsimod.nodes.waste as waste
    import wsimod.nodes.wtw as wtw
    out = {}
    for mod in (core, arcs, tanks, nodes, catchment, demand, distribution, land, nutrient_pool, sewer, storage, waste, wtw):
        for nm, cls in vars(mod).items():
            if inspect.isclass(cls) and cls.__module__ == mod.__name__:
                out[cls.__qualname__] = cls
    return out


def mutable_defaults():
    """{'Class.param' (for __init__) or 'Class.func.param': (function, index or kw name, object)}"""
    out = {}
    for cname, cls in wsimod_classes().items():
        for fname_, f in vars(cls).items():
            if not inspect.isfunction(f):
                continue
            try:
                sig = inspect.signature(f)
            except (TypeError, ValueError):
                continue
            pos = [p for p in sig.parameters.values() if p.default is not inspect.Parameter.empty and p.kind in (p.POSITIONAL_ONLY, p.POSITIONAL_OR_KEYWORD)]
            for i, p in enumerate(pos):
                if isinstance(p.default, (dict, list, set)):
                    key = f"{cname}.{p.name}" if fname_ == "__init__" else f"{cname}.{fname_}.{p.name}"
                    out[key] = (f, i, p.default)
            for p in sig.parameters.values():
                if p.kind == p.KEYWORD_ONLY and isinstance(p.default, (dict, list, set)):
                    out[f"{cname}.{fname_}.{p.name}"] = (f, p.name, p.default)
    return out


def defaults_picture():
    return {k: ser_raw(xsnap(v[2])) for k, v in mutable_defaults().items()}


def constants_picture():
    from wsimod.core import constants
    return {k: ser(xsnap(v)) for k, v in vars(constants).items()
            if not k.startswith("_") and isinstance(v, (int, float, str, list, dict, F, Ex)) and k not in ("POLLUTANTS", "ADDITIVE_POLLUTANTS", "NON_ADDITIVE_POLLUTANTS")}


def unser(x):
    if isinstance(x, str) and x.startswith("F:"):
        a, b = x[2:].split("/")
        return Ex(F(int(a), int(b)))
    if isinstance(x, dict):
        return {k: unser(v) for k, v in x.items()}
    if isinstance(x, list):
        return [unser(v) for v in x]
    return x


def check_defaults(pristine):
    """compare the live default objects with the pristine picture; returns [(key, old object)] of mutated ones and
    gives the functions fresh pristine default objects (existing instances keep the mutated object)"""
    mutated = []
    for key, (f, idx, obj) in mutable_defaults().items():
        if key in pristine and ser_raw(xsnap(obj)) != pristine[key]:
            mutated.append((key, obj))
            fresh = type(obj)(unser(pristine[key])) if not isinstance(obj, dict) else {_unkey(k): v for k, v in unser(pristine[key]).items()}
            if isinstance(idx, int):
                d = list(f.__defaults__)
                d[idx] = fresh
                f.__defaults__ = tuple(d)
            else:
                f.__kwdefaults__[idx] = fresh
    return mutated


def _unkey(k):
    try:
        return int(k)
    except (TypeError, ValueError):
        return k


def heal(mutated, pristine):
    for key, obj in mutated:
        if isinstance(obj, dict):
            obj.clear()
            obj.update({_unkey(k): v for k, v in unser(pristine[key]).items()})


# ---------------------------------------------------------------------------
# default-constructed bystanders
# ---------------------------------------------------------------------------
SURFACE_TYPES = ["Surface", "ImperviousSurface", "PerviousSurface", "GrowingSurface", "IrrigationSurface", "GardenSurface",
                 "VariableAreaSurface"]
ARC_TYPES = ["Arc", "PullArc", "PushArc", "QueueArc", "AltQueueArc", "DecayArc", "DecayArcAlt", "SewerArc", "WeirArc"]
NODE_TYPES = ["Node", "Waste", "Catchment", "Storage", "Groundwater", "QueueGroundwater", "River", "Reservoir", "RiverReservoir",
              "Sewer", "WTW", "WWTW", "FWTW", "Demand", "ResidentialDemand", "NonResidentialDemand", "Distribution",
              "UnlimitedDistribution"]
TANK_TYPES = ["Tank", "ResidenceTank", "DecayTank", "QueueTank", "DecayQueueTank"]


def defaults_zoo():
    """one object of every class, constructed with default arguments only"""
    import wsimod.arcs.arcs as arcs
    import wsimod.nodes.tanks as tanks
    from wsimod.nodes.land import Land
    from wsimod.nodes.nodes import NODES_REGISTRY
    from wsimod.nodes.nutrient_pool import NutrientPool
    zoo = {}
    with quiet():
        for t in TANK_TYPES:
            zoo["tank:" + t] = getattr(tanks, t)()
        for t in NODE_TYPES:
            zoo["node:" + t] = NODES_REGISTRY[t](name="by_" + t)
        zoo["node:Land"] = Land(name="by_Land", surfaces=[{"type_": t, "surface": "by_" + t} for t in SURFACE_TYPES])
        a, b = NODES_REGISTRY["Node"](name="by_a"), NODES_REGISTRY["Node"](name="by_b")
        for t in ARC_TYPES:
            zoo["arc:" + t] = getattr(arcs, t)(name="by_" + t, in_port=a, out_port=b)
        zoo["pool"] = NutrientPool()
    return zoo


def zoo_picture(zoo):
    return {k: ser(xsnap(v)) for k, v in zoo.items()}


def controls_main():
    """run in a fresh interpreter: pictures of default-constructed objects and of the mutable defaults, per pollutant set"""
    install_exact()
    out = {}
    for ps in list(NG.POLSETS) + ["default"]:
        NG.set_pollutants(ps)
        out[ps] = {"zoo": zoo_picture(defaults_zoo()), "constants": constants_picture()}
    out["defaults"] = defaults_picture()
    sys.stdout.write("CONTROLS" + json.dumps(out))


def get_controls():
    env = dict(os.environ)
    env["PYTHONPATH"] = os.pathsep.join([C.REPO, os.path.dirname(os.path.abspath(__file__))])
    env["PYTHONHASHSEED"] = "0"
    env["WSIMOD_VERIF"] = "1"
    p = subprocess.run([C.PY, os.path.abspath(__file__), "--controls"], env=env, stdout=subprocess.PIPE, stderr=subprocess.PIPE,
                       text=True, timeout=300)
    if p.returncode != 0 or "CONTROLS" not in p.stdout:
        raise RuntimeError("control interpreter failed: " + (p.stderr or p.stdout)[-400:])
    return json.loads(p.stdout.split("CONTROLS", 1)[1])


# ---------------------------------------------------------------------------
# rigs
# ---------------------------------------------------------------------------
DATES = ["2000-03-01", "2000-03-02", "2000-03-03", "2000-03-04"]


EXACT = [True]          # arithmetic of the current pass: exact rationals (Ex) or floats


def N(x):
    """a number of the current arithmetic"""
    if isinstance(x, Ex):
        x = x.q
    return Ex(F(x)) if EXACT[0] else float(F(x))


def cx(x):
    """parameters in the current arithmetic: Fractions are converted, floats (the library's own default values) and
    ints are left bit for bit as they are"""
    if isinstance(x, bool) or x is None or isinstance(x, (str, int, float)):
        return x
    if isinstance(x, (F, Ex)):
        return N(x)
    if isinstance(x, list):
        return [cx(y) for y in x]
    if isinstance(x, tuple):
        return tuple(cx(y) for y in x)
    if isinstance(x, dict):
        return {k: cx(v) for k, v in x.items()}
    return x


def monthly(val=F(1, 10 ** 5)):
    import pandas as pd
    d = {}
    for var in ("nhx", "noy", "srp"):
        for kind in ("dry", "wet", "fertiliser", "manure"):
            d[(f"{var}-{kind}", pd.Period("2000-03", "M"))] = N(val)
    return d


def resolve(rig, p):
    """placeholders in parameter / override dicts: "vq" (a standard initial storage), ("monthly", value) (monthly
    deposition data of a surface)"""
    p = cx(p)
    for k, v in list(p.items()):
        if isinstance(v, str) and v == "vq":
            p[k] = rig.vq(8, F(1, 10), F(10))
        elif k == "data_input_dict" and isinstance(v, (list, tuple)) and len(v) == 2 and v[0] == "monthly":
            p[k] = monthly(v[1])
    if p.pop("monthly", False) and "data_input_dict" not in p:
        p["data_input_dict"] = monthly()
    return p


class Rig:
    """a target component in a small fixed environment, and how to drive it"""

    def __init__(self, spec, params, polset):
        import pandas as pd
        self.spec = spec
        self.nodes, self.arcs, self.extra = {}, {}, {}
        self.dates = [pd.Timestamp(d) for d in DATES]
        with quiet():
            self.target = spec["make"](self, params)
        self.set_date(0)

    # -- environment helpers -------------------------------------------------
    def pols(self):
        from wsimod.core import constants
        return list(constants.ADDITIVE_POLLUTANTS), list(constants.NON_ADDITIVE_POLLUTANTS)

    def vq(self, vol, conc=F(1, 10), temp=F(12)):
        adds, nons = self.pols()
        d = {"volume": F(vol)}
        for i, p in enumerate(adds):
            d[p] = F(vol) * conc * (i + 1) / len(adds)
        for p in nons:
            d[p] = temp if p == "temperature" else F(7)
        return cx(d)

    def tdata(self, extra=()):
        import pandas as pd
        d = {}
        for i, t in enumerate(DATES):
            d[("temperature", pd.Timestamp(t))] = N(F(9 + 2 * i))
            for var, val in extra:
                d[(var, pd.Timestamp(t))] = N(val[i] if isinstance(val, (list, tuple)) else val)
        return d

    def node(self, type_, name, **kw):
        from wsimod.nodes.nodes import NODES_REGISTRY
        n = NODES_REGISTRY[type_](name=name, **kw)
        self.nodes[name] = n
        return n

    def arc(self, a, b, type_="Arc", **kw):
        import wsimod.arcs.arcs as arcs
        nm = f"{a}-{b}"
        if "capacity" not in kw:
            kw["capacity"] = N(UNBOUNDED)
        arc = getattr(arcs, type_)(name=nm, in_port=self.nodes[a], out_port=self.nodes[b], **kw)
        self.arcs[nm] = arc
        return arc

    def neighbours(self, tname, pulls_from="U"):
        """source U -> target -> {D store, S sewer, G groundwater, J junction -> W outlet}"""
        self.node("Storage", "U", capacity=N(1000), area=N(10), initial_storage=self.vq(400, F(1, 20), F(8)))
        self.node("Storage", "D", capacity=N(60), area=N(5), initial_storage=self.vq(10, F(1, 5), F(15)))
        self.node("Sewer", "S", capacity=N(45), pipe_timearea={0: N(F(1, 2)), 1: N(F(1, 2))})
        self.node("Groundwater", "G", capacity=N(500), area=N(10), residence_time=N(4), initial_storage=self.vq(20))
        self.node("Node", "J")
        self.node("Waste", "W")
        self.arc("U", tname)
        for n in ("D", "S", "G", "J"):
            self.arc(tname, n)
        self.arc("J", "W")

    def set_date(self, i):
        for n in self.nodes.values():
            n.t = self.dates[i]
            n.monthyear = self.dates[i].to_period("M")
        for k, o in self.extra.items():
            if hasattr(o, "t"):
                o.t = self.dates[i]

    # -- driving ---------------------------------------------------------------
    def end(self):
        for n in self.nodes.values():
            n.end_timestep()
        for a in self.arcs.values():
            a.end_timestep()
        for o in self.extra.values():
            if hasattr(o, "end_timestep"):
                o.end_timestep()

    def picture(self):
        seen = set()
        d = {"nodes": {k: snap(v, True, seen) for k, v in self.nodes.items()},
             "arcs": {k: snap(v, True, seen) for k, v in self.arcs.items()},
             "extra": {k: snap(v, True, seen) for k, v in self.extra.items()}}
        return d

    def do(self, op):
        kind = op[0]
        try:
            with quiet():
                if kind == "push":
                    return xsnap(self.arcs[op[1]].send_push_request(self.vq(*op[2]), tag=op[3]))
                if kind == "pull":
                    return xsnap(self.arcs[op[1]].send_pull_request({"volume": N(op[2])}, tag=op[3]))
                if kind == "pushcheck":
                    return xsnap(self.arcs[op[1]].send_push_check(tag=op[2]))
                if kind == "pullcheck":
                    return xsnap(self.arcs[op[1]].send_pull_check(tag=op[2]))
                if kind == "call":
                    return xsnap(getattr(self.nodes[op[1]], op[2])())
                if kind == "distribute":
                    return xsnap(self.nodes[op[1]].push_distributed(self.vq(*op[2])))
                if kind == "treat":
                    t = self.target
                    t.current_input = self.vq(*op[1])
                    t.treat_current_input()
                    return xsnap({"treated": t.treated, "liquor": t.liquor, "solids": t.solids})
                if kind == "t":          # method of the target with plain arguments
                    args = [self.vq(*a) if isinstance(a, tuple) else ({"volume": N(a["volume"])} if isinstance(a, dict) else
                                                                      (N(a) if isinstance(a, (int, F)) and not isinstance(a, bool) else a)) for a in op[2]]
                    kw = op[3] if len(op) > 3 else {}
                    return xsnap(getattr(self.target, op[1])(*args, **kw))
                if kind == "tq":         # internal arc of a queue tank
                    return xsnap(self.target.internal_arc.update_queue(direction="push"))
        except Exception as ex:
            return "raised " + err_text(ex)
        raise ValueError(op)

    def drive(self, script):
        trace = []
        for i, day in enumerate(script):
            self.set_date(i)
            for op in day:
                trace.append([str(op[0]) + ":" + str(op[1]) if len(op) > 1 else str(op[0]), self.do(op)])
            trace.append(["state", self.picture()])
            try:
                with quiet():
                    self.end()
            except Exception as ex:
                trace.append(["end", "raised " + err_text(ex)])
        return trace


# ---------------------------------------------------------------------------
# component specifications
# ---------------------------------------------------------------------------
def pick(r, *xs):
    return r.choice([F(x) if not isinstance(x, F) else x for x in xs])


def decays_of(r, adds, which=None):
    k = which or r.choice(adds)
    return {k: {"constant": pick(r, F(1, 10), F(1, 2), 0, F(1, 1000)), "exponent": pick(r, 1, F(1001, 1000), F(11, 10))}}


def full_load(r, adds, nons):
    d = {p: pick(r, 0, F(1, 100), F(1, 8)) for p in adds}
    d.update({p: pick(r, 15, 20) for p in nons})
    return d


def tank_make(cls):
    def make(rig, p):
        import wsimod.nodes.tanks as tanks
        p = resolve(rig, p)
        if cls in ("DecayTank", "DecayQueueTank"):
            parent = rig.node("Node", "P", data_input_dict=rig.tdata())
            p["parent"] = parent
        rig.extra["target"] = getattr(tanks, cls)(**p)
        return rig.extra["target"]
    return make


def tank_script(r, cls):
    days = []
    for d in range(3):
        ops = []
        for _ in range(r.randint(2, 4)):
            k = r.choice(["push", "pull", "excess", "avail", "ponded", "head", "evap", "force"])
            if k == "push":
                a = [(r.choice([1, 5, 20, 60]), pick(r, F(1, 10), F(1, 3)), pick(r, 5, 18))]
                ops.append(("t", "push_storage", a, {"time": r.choice([0, 1, 2])} if "Queue" in cls and r.random() < 0.6 else {}))
            elif k == "force":
                ops.append(("t", "push_storage", [(r.choice([1, 30]), F(1, 4), F(11))], {"force": True}))
            elif k == "pull":
                ops.append(("t", "pull_storage", [{"volume": r.choice([0, 2, 9, 100])}]))
            elif k == "excess":
                ops.append(("t", "get_excess", []))
            elif k == "avail":
                ops.append(("t", "get_avail", []))
            elif k == "ponded":
                ops.append(("t", "pull_ponded", []))
            elif k == "head":
                ops.append(("t", "get_head", []))
            elif k == "evap" and "Queue" not in cls:
                ops.append(("t", "evaporate", [r.choice([0, 1, 3])]))
        if cls == "ResidenceTank":
            ops.append(("t", "pull_outflow", []))
        if "Queue" in cls:
            ops.append(("tq",))
        days.append(ops)
    return days


def tank_base(cls):
    def base(r, adds, nons):
        p = {"capacity": pick(r, 0, 10, 50, 200), "area": pick(r, 1, 2, 10), "datum": pick(r, 0, 3, 10),
             "initial_storage": r.choice([F(0), F(8), "vq"])}
        if r.random() < 0.3:
            for k in r.sample(["capacity", "area", "datum", "initial_storage"], 2):
                p.pop(k)
        if cls == "ResidenceTank":
            p["residence_time"] = pick(r, 1, 2, 5)
        if cls in ("DecayTank", "DecayQueueTank") and r.random() < 0.6:
            p["decays"] = decays_of(r, adds)
        if cls in ("QueueTank", "DecayQueueTank") and r.random() < 0.7:
            p["number_of_timesteps"] = r.choice([0, 1, 2])
        return p
    return base


def tank_over(cls):
    def over(r, adds, nons, p):
        o = {"capacity": pick(r, 0, 5, 30, 120), "area": pick(r, 1, 4, 20), "datum": pick(r, 0, 2, 7)}
        if cls == "ResidenceTank":
            o["residence_time"] = pick(r, 1, 3, 8)
        if cls in ("DecayTank", "DecayQueueTank"):
            o["decays"] = decays_of(r, adds)
        if cls in ("QueueTank", "DecayQueueTank"):
            o["number_of_timesteps"] = r.choice([0, 1, 2, 3])
        return o
    return over


def arc_make(cls):
    def make(rig, p):
        p = resolve(rig, p)
        rig.node("Storage", "U", capacity=N(1000), area=N(10), initial_storage=rig.vq(400, F(1, 20), F(8)), data_input_dict=rig.tdata())
        rig.node("Storage", "D", capacity=N(60), area=N(5), initial_storage=rig.vq(10, F(1, 5), F(15)))
        rig.node("Waste", "W")
        if cls == "DecayArcAlt":
            p["parent"] = rig.nodes["U"]
        a = rig.arc("U", "D", type_=cls, **p)
        rig.arc("U", "W", capacity=N(25), preference=N(F(1, 2)))
        return a
    return make


def arc_script(r, cls):
    days = []
    for d in range(4):
        ops = []
        for _ in range(r.randint(2, 4)):
            k = r.choice(["push", "pull", "pushcheck", "pullcheck", "distribute"])
            if k == "push":
                ops.append(("push", "U-D", (r.choice([1, 4, 12, 40]), pick(r, F(1, 10), F(1, 3)), pick(r, 5, 18)), "default"))
            elif k == "pull" and cls not in ("AltQueueArc", "DecayArcAlt"):
                ops.append(("pull", "U-D", r.choice([1, 3, 15]), "default"))
            elif k == "pushcheck":
                ops.append(("pushcheck", "U-D", "default"))
            elif k == "pullcheck":
                ops.append(("pullcheck", "U-D", "default"))
            elif k == "distribute":
                ops.append(("distribute", "U", (r.choice([6, 30, 90]), F(1, 7), F(9))))
        days.append(ops)
    return days


def arc_base(cls):
    def base(r, adds, nons):
        p = {}
        if r.random() < 0.7:
            p["capacity"] = pick(r, 0, 3, 10, 50)
        if r.random() < 0.5:
            p["preference"] = pick(r, F(1, 2), 1, 3)
        if cls in ("QueueArc", "AltQueueArc", "DecayArc", "DecayArcAlt"):
            p["number_of_timesteps"] = r.choice([0, 1, 2]) if cls not in ("AltQueueArc", "DecayArcAlt") else r.choice([0, 1])
        if cls in ("DecayArc", "DecayArcAlt"):
            p["decays"] = decays_of(r, adds)
        return p
    return base


def arc_over(r, adds, nons, p):
    return {"capacity": pick(r, 0, 2, 8, 35, UNBOUNDED), "preference": pick(r, F(1, 4), 1, 2, 5)}


# ---- nodes ------------------------------------------------------------------
def node_make(type_, fixed=None, needs_data=False):
    def make(rig, p):
        p = resolve(rig, p)
        p.update(fixed(rig) if fixed else {})
        if needs_data or p.get("decays") is not None:
            p["data_input_dict"] = rig.tdata()
        rig.node(type_, "T", **p)
        rig.neighbours("T")
        return rig.nodes["T"]
    return make


def node_script(calls, tags=("default",), treat=False):
    def script(r, cls):
        days = []
        for d in range(4):
            ops = []
            for _ in range(r.randint(2, 4)):
                k = r.choice(["push", "pull", "pushcheck", "pullcheck", "pullD"])
                tag = r.choice(tags)
                if k == "push":
                    ops.append(("push", "U-T", (r.choice([1, 4, 12, 40]), pick(r, F(1, 10), F(1, 3)), pick(r, 5, 18)), tag))
                elif k == "pull":
                    ops.append(("pull", "U-T", r.choice([1, 3, 15]), "default"))
                elif k == "pullD":
                    ops.append(("pull", "T-D", r.choice([1, 3, 15]), "default"))
                elif k == "pushcheck":
                    ops.append(("pushcheck", "U-T", tag))
                else:
                    ops.append(("pullcheck", "T-D", "default"))
            if treat:
                ops.append(("treat", (r.choice([2, 8, 30]), pick(r, F(1, 10), F(1, 3)), pick(r, 5, 18))))
            for c in calls:
                ops.append(("call", "T", c))
            ops.append(("call", "S", "make_discharge"))
            ops.append(("call", "G", "distribute"))
            days.append(ops)
        return days
    return script


def storage_base(extra=None, decays=True):
    def base(r, adds, nons):
        p = {"capacity": pick(r, 0, 10, 50, 200), "area": pick(r, 1, 2, 10), "datum": pick(r, 0, 3), "initial_storage": r.choice([F(0), F(8), "vq"])}
        if r.random() < 0.3:
            for k in r.sample(list(p), 2):
                p.pop(k)
        if decays and r.random() < 0.4:
            p["decays"] = decays_of(r, adds)
        if extra:
            p.update(extra(r, adds, nons))
        return p
    return base


def storage_over(extra=None):
    def over(r, adds, nons, p):
        o = {"capacity": pick(r, 0, 5, 30, 120), "area": pick(r, 1, 4, 20), "datum": pick(r, 0, 2, 7)}
        if p.get("decays") is not None:
            o["decays"] = decays_of(r, adds)
        if extra:
            o.update(extra(r, adds, nons))
        return o
    return over


def wtw_params(r, adds):
    pp = {p: {"constant": pick(r, F(1, 100), F(1, 2), F(9, 10)), "exponent": pick(r, 1, F(1001, 1000))} for p in adds}
    lm = {p: pick(r, 0, F(1, 10), F(1, 20)) for p in adds}
    lm["volume"] = pick(r, 0, F(3, 100), F(1, 10))
    return pp, lm


def wtw_base(extra=None):
    def base(r, adds, nons):
        p = {}
        pp, lm = wtw_params(r, adds)
        if r.random() < 0.7:
            p["process_parameters"] = pp
        if r.random() < 0.7:
            p["liquor_multiplier"] = lm
        if r.random() < 0.6:
            p["percent_solids"] = pick(r, 0, F(1, 5000), F(1, 100))
        if r.random() < 0.6:
            p["treatment_throughput_capacity"] = pick(r, 3, 10, 50)
        if extra:
            p.update(extra(r, adds, nons))
        return p
    return base


def wtw_over(extra=None):
    def over(r, adds, nons, p):
        a = r.choice(adds)
        o = {"percent_solids": pick(r, 0, F(1, 2000), F(1, 50)), "treatment_throughput_capacity": pick(r, 2, 8, 40),
             "liquor_multiplier": r.choice([{"volume": pick(r, 0, F(1, 25), F(1, 5))}, {a: pick(r, 0, F(1, 5))},
                                            {"volume": pick(r, F(1, 50), F(1, 8)), a: pick(r, 0, F(1, 4))}]),
             "process_parameters": r.choice([{a: {"constant": pick(r, F(1, 50), F(3, 4))}}, {a: {"exponent": pick(r, 1, F(1002, 1000))}},
                                             {a: {"constant": pick(r, F(1, 10), F(1, 3)), "exponent": F(1)}}])}
        if extra:
            o.update(extra(r, adds, nons))
        return o
    return over


MODES = {"decays": "update", "pollutant_load": "update", "liquor_multiplier": "update", "process_parameters": "update2",
         "degrhpar": "update", "dishpar": "update", "minfpar": "update", "disfpar": "update", "immobdpar": "update",
         "fraction_manure_to_dissolved_inorganic": "update", "fraction_residue_to_fast": "update"}


def merge(spec, p, o):
    """constructor parameters of the twin: p updated by o in the way the documentation of apply_overrides says"""
    q = copy.deepcopy(p)
    defaults = spec.get("dict_defaults", lambda: {})()
    for k, v in o.items():
        mode = MODES.get(k, "set")
        if mode == "set" or (k not in q and k not in defaults):
            q[k] = copy.deepcopy(v)
            continue
        cur = copy.deepcopy(q.get(k, defaults.get(k)))
        if cur is None:
            cur = {}
        for kk, vv in v.items():
            if mode == "update2" and isinstance(cur.get(kk), dict):
                cur[kk].update(copy.deepcopy(vv))
            else:
                cur[kk] = copy.deepcopy(vv)
        q[k] = cur
    return q


def wtw_dict_defaults():
    from wsimod.core import constants
    lm = {x: F(7, 10) for x in constants.ADDITIVE_POLLUTANTS}
    lm["volume"] = F(3, 100)
    # the library's own defaults are the floats 0.7 / 0.03 / 0.01 / 1.001: keep them bit for bit
    lm = {k: (0.7 if k != "volume" else 0.03) for k in lm}
    pp = {x: {"constant": 0.01, "exponent": 1.001} for x in constants.ADDITIVE_POLLUTANTS}
    return {"liquor_multiplier": lm, "process_parameters": pp}


def land_surfaces(rig, target_type, p, companion=True):
    adds, nons = rig.pols()
    s = dict(p)
    s["type_"] = target_type
    s.setdefault("surface", "target")
    out = [s]
    if companion:
        out.append({"type_": "ImperviousSurface", "surface": "paved", "area": N(30), "pore_depth": N(F(1, 100)),
                    "pollutant_load": {adds[0]: N(F(1, 100))}, "decays": {}, "data_input_dict": {}})
    return out


def land_env(rig, surfaces, land_params=None):
    lp = {"surface_residence_time": N(2), "subsurface_residence_time": N(3), "percolation_residence_time": N(6)}
    lp.update(land_params or {})
    data = rig.tdata(extra=(("precipitation", [F(1, 50), F(0), F(1, 10), F(1, 200)]), ("et0", [F(1, 500), F(1, 250), F(0), F(1, 300)])))
    rig.node("Land", "T", surfaces=surfaces, data_input_dict=data, **lp)
    rig.node("Storage", "U", capacity=N(1000), area=N(10), initial_storage=rig.vq(400, F(1, 20), F(8)))
    rig.node("Node", "JU")
    rig.node("Sewer", "S", capacity=N(45), pipe_timearea={0: N(F(1, 2)), 1: N(F(1, 2))})
    rig.node("Groundwater", "G", capacity=N(500), area=N(10), residence_time=N(4), initial_storage=rig.vq(20))
    rig.node("Node", "J")
    rig.node("Waste", "W")
    rig.arc("U", "JU")
    rig.arc("JU", "T", type_="PullArc")
    for n in ("S", "G", "J"):
        rig.arc("T", n)
    rig.arc("J", "W")
    return rig.nodes["T"]


def surface_make(type_):
    def make(rig, p):
        p = resolve(rig, p)
        land = land_env(rig, land_surfaces(rig, type_, p))
        return land.surfaces[0]
    return make


def surface_script(r, cls):
    days = []
    for d in range(4):
        ops = [("call", "T", "run")]
        if r.random() < 0.5:
            ops.append(("t", "push_storage", [(r.choice([1, 4]), F(1, 10), F(12))], {"force": True}))
        if r.random() < 0.5:
            ops.append(("t", "pull_storage", [{"volume": r.choice([1, 2])}]))
        ops.append(("t", "get_excess", []))
        ops.append(("call", "T", "apply_irrigation"))
        if cls == "GardenSurface":
            ops.append(("t", "calculate_irrigation_demand", []))
        ops.append(("call", "S", "make_discharge"))
        ops.append(("call", "G", "distribute"))
        days.append(ops)
    return days


def surface_common_base(r, adds, nons, with_depth=None):
    p = {}
    if r.random() < 0.8:
        p["area"] = pick(r, 5, 20, 100)
    # the soil depth is always given as an exact number: with the library's float defaults (0.75 * 0.4) the restore step
    # depth / total_porosity * total_porosity of PerviousSurface.apply_overrides is subject to float rounding, which is
    # outside the exact-arithmetic reading of "exactly"
    if with_depth and (r.random() < 0.8 or with_depth in ("depth", "rooting_depth")):
        p[with_depth] = pick(r, F(1, 2), F(3, 4), 1) if with_depth != "pore_depth" else pick(r, 0, F(1, 100), F(1, 20))
    if r.random() < 0.6:
        p["pollutant_load"] = {r.choice(adds): pick(r, 0, F(1, 100), F(1, 10))}
    if r.random() < 0.5:
        p["decays"] = decays_of(r, adds)
    if r.random() < 0.3:
        p["datum"] = pick(r, 0, 2)
    p["initial_storage"] = r.choice(["vq", F(0), F(3)])
    return p


def surface_common_over(r, adds, nons, with_depth=None):
    o = {"area": pick(r, 8, 40, 150), "pollutant_load": {r.choice(adds): pick(r, 0, F(1, 50), F(1, 5))}, "decays": decays_of(r, adds),
         "datum": pick(r, 0, 1, 5), "surface": r.choice(["renamed", "target"])}
    if with_depth:
        o[with_depth] = pick(r, F(1, 4), F(2, 3), 2) if with_depth != "pore_depth" else pick(r, 0, F(1, 50), F(1, 10))
    if "nitrate" in adds:
        o["data_input_dict"] = ("monthly", pick(r, F(1, 10 ** 4), F(3, 10 ** 5)))
    return o


def pervious_extra_base(r):
    p = {}
    for k, vals in (("total_porosity", (F(2, 5), F(1, 2), F(9, 20))), ("field_capacity", (F(3, 10), F(1, 4))), ("wilting_point", (0, F(3, 25), F(1, 10))),
                    ("infiltration_capacity", (F(1, 2), F(1, 100))), ("surface_coefficient", (0, F(1, 20), F(1, 4))),
                    ("percolation_coefficient", (0, F(3, 4), F(1, 2))), ("et0_coefficient", (0, F(1, 2), 1)), ("ihacres_p", (1, 2, 10))):
        if r.random() < 0.6:
            p[k] = pick(r, *vals)
    return p


def pervious_extra_over(r, growing=False):
    o = {"total_porosity": pick(r, F(1, 4), F(3, 10), F(3, 5)), "field_capacity": pick(r, F(1, 5), F(7, 20)), "wilting_point": pick(r, 0, F(1, 20), F(3, 20)),
         "infiltration_capacity": pick(r, F(1, 4), F(1, 50)), "surface_coefficient": pick(r, 0, F(1, 10), F(1, 2)),
         "percolation_coefficient": pick(r, 0, F(1, 4), 1), "ihacres_p": pick(r, 1, 3, 8),
         "soil_temp_w_prev": pick(r, 0, F(1, 5)), "soil_temp_w_air": pick(r, F(1, 2), F(7, 10)), "soil_temp_w_deep": pick(r, 0, F(1, 5)),
         "soil_temp_deep": pick(r, 5, 12)}
    if not growing:
        o["et0_coefficient"] = pick(r, 0, F(1, 4), F(3, 4))
    return o


GROW_CROP = {"crop_factor_stages": [0.0, 0.0, 0.3, 0.9, 1.2, 1.2, 0.325, 0.0, 0.0],
             "crop_factor_stage_dates": [0, 50, 55, 80, 121, 171, 221, 254, 366], "sowing_day": 55, "harvest_day": 254}
GROW_NONCTOR = {"crop_cover_max": (F(1, 2), F(4, 5)), "ground_cover_max": (F(1, 5), F(2, 5)), "satact": (F(1, 2), F(7, 10)), "thetaupp": (F(1, 10), F(3, 20)),
                "thetalow": (F(1, 20), F(1, 10)), "thetapow": (1, 2), "uptake1": (10, 20), "uptake2": (1, 2), "uptake3": (F(1, 100), F(1, 20)),
                "uptake_PNratio": (F(1, 8), F(1, 5)), "erodibility": (F(1, 500), F(1, 200)), "sreroexp": (1, F(6, 5)), "cohesion": (1, 2),
                "slope": (2, 8), "srfilt": (F(1, 2), F(9, 10)), "macrofilt": (F(1, 50), F(1, 200)), "limpar": (F(1, 2), F(4, 5)), "exppar": (2, 3),
                "hsatINs": (1, 2), "denpar": (F(1, 100), F(1, 40)), "adosorption_nr_limit": (F(1, 10 ** 5), F(1, 10 ** 4)),
                "adsorption_nr_maxiter": (10, 30), "kfr": (100, 160), "nfr": (F(1, 3), F(1, 2)), "kadsdes": (F(1, 50), F(1, 20)),
                "bulk_density": (1200, 1500)}
PERV_NONCTOR = ("soil_temp_w_prev", "soil_temp_w_air", "soil_temp_w_deep", "soil_temp_deep")
RIVER_NONCTOR = {"uptake_PNratio": (F(1, 8), F(1, 5)), "bulk_density": (1200, 1500), "denpar_w": (F(1, 1000), F(1, 500)), "T_wdays": (2, 5, 8),
                 "halfsatINwater": (F(1, 1000), F(1, 500)), "hsatTP": (F(1, 10 ** 5), F(1, 10 ** 4)), "limpppar": (F(1, 10 ** 5), F(1, 5000)),
                 "prodNpar": (F(1, 2000), F(1, 500)), "prodPpar": (F(1, 20000), F(1, 5000)), "muptNpar": (F(1, 2000), F(1, 500)),
                 "muptPpar": (F(1, 20000), F(1, 5000)), "max_temp_lag": (10, 20), "max_phosphorus_lag": (100, 365)}


def growing_base(r, adds, nons, irrigation=False):
    p = surface_common_base(r, adds, nons, "rooting_depth")
    p.update(pervious_extra_base(r))
    p.pop("et0_coefficient", None)
    p.update(copy.deepcopy(GROW_CROP))
    p["initial_storage"] = "vq"
    p["monthly"] = True
    if r.random() < 0.7:
        p["ET_depletion_factor"] = pick(r, 0, F(1, 2), F(3, 5))
    p["initial_soil_storage"] = {k: pick(r, F(1, 5), 2) for k in ("phosphate", "ammonia", "nitrate", "nitrite", "org-nitrogen", "org-phosphorus")}
    if irrigation and r.random() < 0.7:
        p["irrigation_coefficient"] = pick(r, 0, F(1, 10), F(1, 2))
    return p


def growing_over(r, adds, nons, irrigation=False):
    o = surface_common_over(r, adds, nons, "rooting_depth")
    o.update(pervious_extra_over(r, growing=True))
    o.update({"ET_depletion_factor": pick(r, 0, F(1, 4), F(1, 2)), "sowing_day": r.choice([40, 58, 61]), "harvest_day": r.choice([200, 260]),
              "crop_factor_stages": [0.0, 0.0, 0.5, 0.8, 1.0, 1.0, 0.3, 0.0, 0.0], "crop_factor_stage_dates": [0, 40, 58, 85, 120, 170, 220, 260, 366]})
    for k, vals in GROW_NONCTOR.items():
        o[k] = pick(r, *vals) if k != "adsorption_nr_maxiter" else r.choice(vals)
    if irrigation:
        o["irrigation_coefficient"] = pick(r, 0, F(1, 5), 1)
    return o


def set_nonctor(obj, extras):
    """twin side of overridable parameters that are not constructor arguments: plain assignment, then the derived
    tables the constructor computes from them"""
    for k, v in extras.items():
        setattr(obj, k, v)
    if extras and hasattr(obj, "infer_sow_harvest_calendar"):
        (obj.harvest_sow_calendar, obj.ground_cover_stages, obj.crop_cover_stages, obj.autumn_sow) = obj.infer_sow_harvest_calendar()


def pool_make(rig, p):
    from wsimod.nodes.nutrient_pool import NutrientPool
    sp = {"area": N(40), "rooting_depth": N(F(1, 2)), "initial_storage": rig.vq(6, F(1, 10), F(10)), "data_input_dict": monthly(),
          "pollutant_load": {}, "decays": {},
          "initial_soil_storage": {k: N(1) for k in ("phosphate", "ammonia", "nitrate", "nitrite", "org-nitrogen", "org-phosphorus")}}
    sp.update(copy.deepcopy(GROW_CROP))
    land = land_env(rig, land_surfaces(rig, "GrowingSurface", sp))
    s = land.surfaces[0]
    pool = NutrientPool(**cx(p))
    for name in ("fast_pool", "humus_pool", "dissolved_inorganic_pool", "dissolved_organic_pool", "adsorbed_inorganic_pool"):
        getattr(pool, name).storage = dict(getattr(s.nutrient_pool, name).storage)
    s.nutrient_pool = pool
    return pool


POOL_DICTS = {"degrhpar": (F(7, 10 ** 5), F(7, 10 ** 6)), "dishpar": (F(7, 10 ** 5), F(7, 10 ** 6)), "minfpar": (F(13, 10 ** 5), F(3, 10 ** 6)),
              "disfpar": (F(3, 10 ** 6), F(1, 10 ** 7)), "immobdpar": (F(56, 10 ** 4), F(2866, 10 ** 4)),
              "fraction_manure_to_dissolved_inorganic": (F(1, 2), F(1, 10)), "fraction_residue_to_fast": (F(1, 10), F(1, 10))}


def pool_base(r, adds, nons):
    p = {}
    for k, (n, ph) in POOL_DICTS.items():
        if r.random() < 0.5:
            p[k] = {"N": n * r.choice([1, 2]), "P": ph * r.choice([1, 3])}
    if r.random() < 0.5:
        p["fraction_dry_n_to_dissolved_inorganic"] = pick(r, F(1, 2), F(9, 10))
    return p


def pool_over(r, adds, nons, p):
    o = {"fraction_dry_n_to_dissolved_inorganic": pick(r, F(1, 4), F(3, 4), 1)}
    for k, (n, ph) in POOL_DICTS.items():
        o[k] = r.choice([{"N": n * 5}, {"P": ph * 7}, {"N": n * 2, "P": ph * 2}])
    return o


def pool_defaults():
    from wsimod.nodes.nutrient_pool import NutrientPool
    sig = inspect.signature(NutrientPool.__init__)
    return {k: copy.deepcopy(sig.parameters[k].default) for k in POOL_DICTS}


def make_specs():
    S = {}
    for t in TANK_TYPES:
        S["tank:" + t] = {"make": tank_make(t), "base": tank_base(t), "over": tank_over(t), "script": tank_script, "cls": t,
                          "vq_key": "initial_storage"}
    for t in ARC_TYPES:
        S["arc:" + t] = {"make": arc_make(t), "base": arc_base(t), "over": arc_over, "script": arc_script, "cls": t}
    st = node_script(["distribute"])
    S["node:Storage"] = {"make": node_make("Storage"), "base": storage_base(), "over": storage_over(), "script": st, "cls": "Storage",
                         "vq_key": "initial_storage"}
    gwx = lambda r, a, n: {k: v for k, v in (("residence_time", pick(r, 1, 2, 5, 20)), ("infiltration_threshold", pick(r, 0, F(1, 2), 1)),
                                             ("infiltration_pct", pick(r, 0, F(1, 4), 1))) if r.random() < 0.7}
    S["node:Groundwater"] = {"make": node_make("Groundwater"), "base": storage_base(gwx), "over": storage_over(
        lambda r, a, n: {"residence_time": pick(r, 1, 3, 10), "infiltration_threshold": pick(r, 0, F(1, 4), 1), "infiltration_pct": pick(r, 0, F(1, 2))}),
        "script": node_script(["infiltrate", "distribute"]), "cls": "Groundwater", "vq_key": "initial_storage"}
    ta = lambda r: r.choice([{0: F(1)}, {0: F(1, 2), 1: F(1, 2)}, {0: F(1, 2), 1: F(1, 4), 3: F(1, 4)}, {1: F(1)}])
    S["node:QueueGroundwater"] = {"make": node_make("QueueGroundwater"), "base": storage_base(lambda r, a, n: {"timearea": ta(r)} if r.random() < 0.7 else {}),
                                  "over": storage_over(lambda r, a, n: {"timearea": ta(r)}), "script": node_script(["distribute"]),
                                  "cls": "QueueGroundwater", "vq_key": "initial_storage"}
    rvx = lambda r, a, n: {k: v for k, v in (("length", pick(r, 100, 200, 400)), ("width", pick(r, 5, 10, 20)), ("velocity", pick(r, 400, 800, 17280)),
                                             ("damp", pick(r, 0, F(1, 10), F(1, 4))), ("mrf", pick(r, 0, 2, 5))) if r.random() < 0.7}

    def river_base(r, adds, nons):
        p = rvx(r, adds, nons)
        p["initial_storage"] = r.choice([F(0), F(8), "vq"])
        if r.random() < 0.3:
            p["decays"] = decays_of(r, adds)
        return p

    def river_over(r, adds, nons, p):
        o = {"length": pick(r, 50, 300), "width": pick(r, 4, 25), "velocity": pick(r, 200, 1000, 20000), "damp": pick(r, 0, F(1, 5), F(1, 2)),
             "mrf": pick(r, 0, 1, 4), "datum": pick(r, 0, 2)}
        for k, vals in RIVER_NONCTOR.items():
            o[k] = pick(r, *vals) if not k.startswith("max_") else r.choice(vals)
        if p.get("decays") is not None:
            o["decays"] = decays_of(r, adds)
        return o
    S["node:River"] = {"make": node_make("River", needs_data=True), "base": river_base, "over": river_over,
                       "script": node_script(["calculate_discharge", "distribute"]), "cls": "River", "vq_key": "initial_storage",
                       "nonctor": set(RIVER_NONCTOR)}
    S["node:Reservoir"] = {"make": node_make("Reservoir"), "base": storage_base(), "over": storage_over(), "script": node_script(["make_abstractions"]),
                           "cls": "Reservoir", "vq_key": "initial_storage"}
    S["node:RiverReservoir"] = {"make": node_make("RiverReservoir"),
                                "base": storage_base(lambda r, a, n: {"environmental_flow": pick(r, 0, 2, 6)} if r.random() < 0.7 else {}),
                                "over": storage_over(lambda r, a, n: {"environmental_flow": pick(r, 0, 1, 9)}),
                                "script": node_script(["make_abstractions", "satisfy_environmental"]), "cls": "RiverReservoir", "vq_key": "initial_storage"}

    def sewer_base(r, adds, nons):
        p = {"capacity": pick(r, 0, 10, 40), "pipe_time": r.choice([0, 1, 2]), "pipe_timearea": ta(r), "chamber_area": pick(r, 1, 3), "chamber_floor": pick(r, 0, 10)}
        for k in r.sample(list(p), r.randint(0, 3)):
            p.pop(k)
        return p
    S["node:Sewer"] = {"make": node_make("Sewer"), "base": sewer_base,
                       "over": lambda r, a, n, p: {"capacity": pick(r, 0, 5, 25, 80), "pipe_time": r.choice([0, 1, 3]), "pipe_timearea": ta(r),
                                                   "chamber_area": pick(r, 1, 2, 5), "chamber_floor": pick(r, 0, 4)},
                       "script": node_script(["make_discharge"], tags=("default", "Sewer", "Land", "Demand")), "cls": "Sewer"}
    S["node:WTW"] = {"make": node_make("WTW"), "base": wtw_base(), "over": wtw_over(), "script": node_script([], treat=True), "cls": "WTW",
                     "dict_defaults": wtw_dict_defaults}
    S["node:WWTW"] = {"make": node_make("WWTW"),
                      "base": wtw_base(lambda r, a, n: {k: v for k, v in (("stormwater_storage_capacity", pick(r, 0, 5, 20)), ("stormwater_storage_area", pick(r, 1, 2)),
                                                                          ("stormwater_storage_elevation", pick(r, 0, 10))) if r.random() < 0.6}),
                      "over": wtw_over(lambda r, a, n: {"stormwater_storage_capacity": pick(r, 0, 3, 30), "stormwater_storage_area": pick(r, 1, 4),
                                                        "stormwater_storage_elevation": pick(r, 0, 5)}),
                      "script": node_script(["calculate_discharge", "make_discharge"], tags=("default", "Sewer")), "cls": "WWTW",
                      "dict_defaults": wtw_dict_defaults}
    S["node:FWTW"] = {"make": node_make("FWTW"),
                      "base": wtw_base(lambda r, a, n: {k: v for k, v in (("service_reservoir_storage_capacity", pick(r, 0, 5, 20)), ("service_reservoir_storage_area", pick(r, 1, 2)),
                                                                          ("service_reservoir_storage_elevation", pick(r, 0, 10)),
                                                                          ("service_reservoir_initial_storage", pick(r, 0, 2))) if r.random() < 0.6}),
                      "over": wtw_over(lambda r, a, n: {"service_reservoir_storage_capacity": pick(r, 0, 3, 30), "service_reservoir_storage_area": pick(r, 1, 4),
                                                        "service_reservoir_storage_elevation": pick(r, 0, 5)}),
                      "script": node_script(["treat_water"]), "cls": "FWTW", "dict_defaults": wtw_dict_defaults}

    def demand_base(r, adds, nons):
        p = {}
        if r.random() < 0.7:
            p["constant_demand"] = pick(r, 0, 3, 8)
        if r.random() < 0.6:
            p["pollutant_load"] = {r.choice(adds): pick(r, 0, F(1, 10), 1)}
        return p
    S["node:Demand"] = {"make": node_make("Demand"), "base": demand_base,
                        "over": lambda r, a, n, p: {"constant_demand": pick(r, 0, 2, 11), "pollutant_load": {r.choice(a): pick(r, 0, F(1, 4), 2)}},
                        "script": node_script(["create_demand"]), "cls": "Demand"}
    S["node:NonResidentialDemand"] = dict(S["node:Demand"], make=node_make("NonResidentialDemand"), cls="NonResidentialDemand")

    def resdemand_base(r, adds, nons):
        p = {k: v for k, v in (("population", pick(r, 0, 10, 40)), ("per_capita", pick(r, 0, F(1, 8), F(3, 20))), ("gardening_efficiency", pick(r, 0, F(1, 2))),
                               ("constant_temp", pick(r, 0, 25)), ("constant_weighting", pick(r, 0, F(1, 4), 1))) if r.random() < 0.7}
        if r.random() < 0.7:
            p["pollutant_load"] = full_load(r, adds, nons)
        return p

    def resdemand_over(r, adds, nons, p):
        o = {"population": pick(r, 0, 5, 60), "per_capita": pick(r, 0, F(1, 10), F(1, 5)), "gardening_efficiency": pick(r, 0, F(1, 4), 1),
             "constant_temp": pick(r, 0, 10, 30), "constant_weighting": pick(r, 0, F(1, 2)), "constant_demand": pick(r, 0, 4)}
        o["pollutant_load"] = full_load(r, adds, nons) if "pollutant_load" not in p else {r.choice(adds): pick(r, 0, F(1, 4))}
        return o
    S["node:ResidentialDemand"] = {"make": node_make("ResidentialDemand", needs_data=True), "base": resdemand_base, "over": resdemand_over,
                                   "script": node_script(["create_demand"]), "cls": "ResidentialDemand",
                                   "require": lambda p, o: "pollutant_load" in p or len(o.get("pollutant_load", {})) > 1}
    S["node:Distribution"] = {"make": node_make("Distribution"), "base": lambda r, a, n: ({"leakage": pick(r, 0, F(1, 10), F(1, 4))} if r.random() < 0.7 else {}),
                              "over": lambda r, a, n, p: {"leakage": pick(r, 0, F(1, 20), F(1, 5), F(1, 2))}, "script": node_script([]), "cls": "Distribution"}
    S["node:UnlimitedDistribution"] = dict(S["node:Distribution"], make=node_make("UnlimitedDistribution"), cls="UnlimitedDistribution")
    S["node:Catchment"] = {"make": node_make("Catchment", fixed=lambda rig: {"data_input_dict": rig.tdata(
        extra=[("flow", [F(3), F(0), F(7), F(2)])] + [(p, F(1, 10)) for p in rig.pols()[0]] + [(p, F(7)) for p in rig.pols()[1] if p != "temperature"])}),
        "base": lambda r, a, n: {}, "over": lambda r, a, n, p: {}, "script": node_script(["route"]), "cls": "Catchment", "allow_empty": True}
    S["node:Waste"] = {"make": node_make("Waste"), "base": lambda r, a, n: {}, "over": lambda r, a, n, p: {}, "script": node_script([]), "cls": "Waste",
                       "allow_empty": True}

    def land_make(rig, p):
        adds, nons = rig.pols()
        surfaces = [{"type_": "PerviousSurface", "surface": "soil", "area": N(60), "depth": N(F(1, 2)), "pollutant_load": {adds[0]: N(F(1, 50))}, "decays": {},
                     "data_input_dict": {}, "initial_storage": rig.vq(9, F(1, 10), F(10))},
                    {"type_": "ImperviousSurface", "surface": "paved", "area": N(30), "pore_depth": N(F(1, 100)), "pollutant_load": {adds[0]: N(F(1, 100))},
                     "decays": {}, "data_input_dict": {}}]
        return land_env(rig, surfaces, cx(p))
    S["node:Land"] = {"make": land_make,
                      "base": lambda r, a, n: {k: v for k, v in (("surface_residence_time", pick(r, 1, 2)), ("subsurface_residence_time", pick(r, 2, 5)),
                                                                 ("percolation_residence_time", pick(r, 5, 20))) if r.random() < 0.7},
                      "over": lambda r, a, n, p: {"surface_residence_time": pick(r, 1, 3), "subsurface_residence_time": pick(r, 1, 4, 9),
                                                  "percolation_residence_time": pick(r, 2, 30)},
                      "script": surface_script, "cls": "Land", "days": 2}
    # ---- surfaces
    S["surface:Surface"] = {"make": surface_make("Surface"), "base": lambda r, a, n: surface_common_base(r, a, n, "depth"),
                            "over": lambda r, a, n, p: surface_common_over(r, a, n, "depth"), "script": surface_script, "cls": "Surface", "days": 2}
    S["surface:ImperviousSurface"] = {"make": surface_make("ImperviousSurface"),
                                      "base": lambda r, a, n: dict(surface_common_base(r, a, n, "pore_depth"), **({"et0_to_e": pick(r, 0, F(1, 2), 1)} if r.random() < 0.6 else {})),
                                      "over": lambda r, a, n, p: dict(surface_common_over(r, a, n, "pore_depth"), et0_to_e=pick(r, 0, F(1, 4), 2)),
                                      "script": surface_script, "cls": "ImperviousSurface", "days": 2}
    S["surface:PerviousSurface"] = {"make": surface_make("PerviousSurface"),
                                    "base": lambda r, a, n: dict(surface_common_base(r, a, n, "depth"), **pervious_extra_base(r)),
                                    "over": lambda r, a, n, p: dict(surface_common_over(r, a, n, "depth"), **pervious_extra_over(r)),
                                    "script": surface_script, "cls": "PerviousSurface", "nonctor": set(PERV_NONCTOR), "days": 2}
    for t in ("GrowingSurface", "IrrigationSurface", "GardenSurface", "VariableAreaSurface"):
        irr = t == "IrrigationSurface"
        S["surface:" + t] = {"make": surface_make(t), "base": (lambda irr: lambda r, a, n: growing_base(r, a, n, irr))(irr),
                             "over": (lambda irr: lambda r, a, n, p: growing_over(r, a, n, irr))(irr), "script": surface_script, "cls": t,
                             "nonctor": set(GROW_NONCTOR) | set(PERV_NONCTOR), "polsets": ["default"], "float_behaviour": True}
    S["pool:NutrientPool"] = {"make": pool_make, "base": pool_base, "over": pool_over, "script": surface_script, "cls": "NutrientPool",
                              "polsets": ["default"], "dict_defaults": pool_defaults, "float_behaviour": True}
    return S


# ---------------------------------------------------------------------------
# known-defect recognition and repair
# ---------------------------------------------------------------------------
def wrap_depth(f):
    d = 0
    while getattr(f, "__closure__", None) and f.__name__ in ("pull_set", "pull_check") and "f" in f.__code__.co_freevars:
        f = f.__closure__[f.__code__.co_freevars.index("f")].cell_contents
        d += 1
    return d, f


def peel(f, n):
    for _ in range(n):
        f = f.__closure__[f.__code__.co_freevars.index("f")].cell_contents
    return f


def hidden(spec, obj):
    """parts of a component the generic snapshot cannot reach (they hang behind handler functions)"""
    from wsimod.nodes.distribution import Distribution
    out = {}
    if isinstance(obj, Distribution):
        out["wrap_depth"] = [wrap_depth(obj.pull_set_handler["default"])[0], wrap_depth(obj.pull_check_handler["default"])[0]]
    if type(obj).__qualname__ == "QueueGroundwater":
        h = obj.push_check_handler["default"]
        t = getattr(h, "__self__", None)
        if t is not None and t is not obj.tank:
            out["push_check_tank"] = xsnap(t)
    return out


def tpicture(spec, obj):
    d = xsnap(obj)
    h = hidden(spec, obj)
    if h:
        d = dict(d)
        d["__hidden__"] = h
    return d


def repair(spec, obj, twin, sigs):
    """recognise the known defects on the overridden object by their mechanism and undo them, so that the
    comparison with the twin still shows anything else"""
    from wsimod.nodes.distribution import Distribution, UnlimitedDistribution
    if isinstance(obj, Distribution):
        for hname in ("pull_set_handler", "pull_check_handler"):
            d_o, _ = wrap_depth(getattr(obj, hname)["default"])
            d_t, _ = wrap_depth(getattr(twin, hname)["default"])
            if d_o > d_t:
                sigs.add("unlimiteddistribution-leakage-only-via-override" if isinstance(obj, UnlimitedDistribution) and d_o - d_t == 1 and obj.leakage > 0
                         else "distribution-leakage-rewrapped")
                getattr(obj, hname)["default"] = peel(getattr(obj, hname)["default"], d_o - d_t)
    if type(obj).__qualname__ == "QueueGroundwater":
        t = getattr(obj.push_check_handler["default"], "__self__", None)
        if t is not None and t is not obj.tank and (t.capacity, t.area, t.datum) != (obj.tank.capacity, obj.tank.area, obj.tank.datum):
            sigs.add("queuegroundwater-stale-check-tank")
            t.capacity, t.area, t.datum = obj.tank.capacity, obj.tank.area, obj.tank.datum
    if hasattr(obj, "inflows") and hasattr(twin, "inflows"):
        mine = [getattr(f, "__name__", "") for f in obj.inflows]
        for i, f in enumerate(twin.inflows):
            nm = getattr(f, "__name__", "")
            if nm in ("simple_deposition", "atmospheric_deposition", "precipitation_deposition") and nm not in mine:
                sigs.add("surface-deposition-not-enabled-by-override")
                obj.inflows.insert(min(i, len(obj.inflows)), getattr(obj, nm))
                mine = [getattr(g, "__name__", "") for g in obj.inflows]


VIA_MODEL = [False]       # set per case: overrides of nodes and arcs handed to the model, not to the component


def via_model(obj, oo):
    """the route of an `overrides:` block: Model.add_overrides finds the node or arc by type and name and hands the entry on"""
    from wsimod.arcs.arcs import Arc
    from wsimod.nodes.nodes import Node
    from wsimod.orchestration.model import Model
    if isinstance(obj, Node):
        m = Model()
        m.add_instantiated_nodes([obj])
        ty = next(t for t, d in m.nodes_type.items() if obj.name in d)
        m.add_overrides({"nodes": {obj.name: dict(oo, name=obj.name, type_=ty)}})
    elif isinstance(obj, Arc):
        m = Model()
        m.arcs[obj.name] = obj
        m.add_overrides({"arcs": {obj.name: dict(oo, name=obj.name, type_=type(obj).__name__)}})
    else:
        obj.apply_overrides(oo)


def apply_together(obj, ovs, sigs, problems):
    """one Model.add_overrides call whose block holds one labelled entry per override dict, all naming the same node or arc
    (entries are keyed by free labels and applied in the order listed); False when the component is neither"""
    import contextlib
    import io
    import warnings
    from wsimod.arcs.arcs import Arc
    from wsimod.nodes.nodes import Node
    from wsimod.orchestration.model import Model
    if not isinstance(obj, (Node, Arc)):
        return False
    m = Model()
    if isinstance(obj, Node):
        m.add_instantiated_nodes([obj])
        ty = next(t for t, d in m.nodes_type.items() if obj.name in d)
        block = {"nodes": {f"entry{i}": dict(resolve(None, o), name=obj.name, type_=ty) for i, o in enumerate(ovs)}}
    else:
        m.arcs[obj.name] = obj
        block = {"arcs": {f"entry{i}": dict(resolve(None, o), name=obj.name, type_=type(obj).__name__) for i, o in enumerate(ovs)}}
    buf = io.StringIO()
    try:
        with contextlib.redirect_stdout(buf), warnings.catch_warnings():
            warnings.simplefilter("ignore")
            m.add_overrides(block)
    except RuntimeError as ex:
        did = getattr(obj, "data_input_dict", None)
        if "Not recognised format for data_input_dict" in str(ex) and isinstance(did, dict) and did:
            sigs.add("node-data-input-dict-runtimeerror")
            # (the block stops at the entry that raised: the rest is applied one by one, as the other cases do)
            for o in ovs[1:]:
                apply(obj, o, sigs, problems, "first application")
        else:
            problems.append(f"one overrides block with {len(ovs)} entries: add_overrides raised {err_text(ex)}")
    except Exception as ex:
        problems.append(f"one overrides block with {len(ovs)} entries: add_overrides raised {err_text(ex)}")
    if "No override behaviour defined" in buf.getvalue():
        problems.append(f"one overrides block: add_overrides did not consume {buf.getvalue().strip()[:120]}")
    return True


def apply(obj, o, sigs, problems, label):
    import io
    import contextlib
    oo = resolve(None, o)
    buf = io.StringIO()
    try:
        with contextlib.redirect_stdout(buf):
            import warnings
            with warnings.catch_warnings():
                warnings.simplefilter("ignore")
                via_model(obj, oo) if VIA_MODEL[0] else obj.apply_overrides(oo)
    except RuntimeError as ex:
        did = getattr(obj, "data_input_dict", None)
        if "Not recognised format for data_input_dict" in str(ex) and isinstance(did, dict) and did:
            sigs.add("node-data-input-dict-runtimeerror")
        else:
            problems.append(f"{label}: apply_overrides raised {err_text(ex)}")
    except Exception as ex:
        problems.append(f"{label}: apply_overrides raised {err_text(ex)}")
    if "No override behaviour defined" in buf.getvalue():
        problems.append(f"{label}: apply_overrides did not consume {buf.getvalue().strip()[:120]}")


# ---------------------------------------------------------------------------
# one case
# ---------------------------------------------------------------------------
def override_keys(spec, polset):
    """names of the overridable parameters of a component (for the systematic part of the plan)"""
    import random
    NG.set_pollutants(polset)
    from wsimod.core import constants
    adds, nons = list(constants.ADDITIVE_POLLUTANTS), list(constants.NON_ADDITIVE_POLLUTANTS)
    r = random.Random(0)
    keys = set()
    for _ in range(6):
        p = spec["base"](r, adds, nons)
        keys |= set(spec["over"](r, adds, nons, p))
    return sorted(keys)


def gen_case(r, key, spec, polset, select="random"):
    """select: "random" subset, "all" overridable parameters, or ("single", name)"""
    NG.set_pollutants(polset)
    from wsimod.core import constants
    adds, nons = list(constants.ADDITIVE_POLLUTANTS), list(constants.NON_ADDITIVE_POLLUTANTS)
    for _ in range(40):
        p = spec["base"](r, adds, nons)
        cand = spec["over"](r, adds, nons, p)
        ks = sorted(cand)
        mode = r.random()
        if not ks:
            sel = []
        elif select == "all":
            sel = ks
        elif isinstance(select, (tuple, list)):
            if select[1] not in cand and _ < 39:
                continue
            sel = [select[1]] if select[1] in cand else [r.choice(ks)]
        elif mode < 0.3:
            sel = [r.choice(ks)]
        else:
            sel = r.sample(ks, r.randint(1, min(len(ks), 5)))
        o1 = {k: cand[k] for k in sel}
        o2 = None
        if ks and select == "random" and r.random() < 0.4:
            cand2 = spec["over"](r, adds, nons, p)
            o2 = {k: cand2[k] for k in r.sample(ks, r.randint(1, min(len(ks), 3)))}
        ok = spec.get("require", lambda p, o: True)
        if ok(p, o1):
            break
    script = spec["script"](r, spec["cls"])
    return {"key": key, "polset": polset, "params": p, "overrides": [o1] + ([o2] if o2 else []), "script": script,
            "via_model": random.Random(f"{key}:{polset}:{len(script)}:{sorted(o1)}").random() < 0.5}


def forced_cases(r, specs):
    """fixed parameter / override combinations: one per known defect (so that each is looked for in every run) and the
    couplings between parameters and derived quantities"""
    simple_adds = POLSET_ADDS("simple")
    soil = {k: F(1) for k in ("phosphate", "ammonia", "nitrate", "nitrite", "org-nitrogen", "org-phosphorus")}
    grow = dict(copy.deepcopy(GROW_CROP), rooting_depth=F(1, 2), area=F(20), initial_storage="vq", monthly=True, initial_soil_storage=soil)
    out = [
        ("node:Demand", "simple", {"constant_demand": F(3)}, [{"pollutant_load": {"phosphate": F(1, 4)}}]),
        ("node:ResidentialDemand", "simple", {"population": F(10), "per_capita": F(1, 8)}, [{"pollutant_load": {"phosphate": F(1, 100), "temperature": F(15)}}]),
        ("surface:ImperviousSurface", "simple", {"area": F(20), "pore_depth": F(1, 100)}, [{"pollutant_load": {"phosphate": F(1, 50)}, "decays": decays_of(r, simple_adds)}]),
        ("surface:PerviousSurface", "four", {"area": F(20), "depth": F(1, 2), "initial_storage": "vq"}, [{"total_porosity": F(1, 2)}]),
        ("surface:PerviousSurface", "simple", {"area": F(20), "depth": F(3, 4), "total_porosity": F(2, 5), "initial_storage": "vq"}, [{"field_capacity": F(7, 20), "area": F(12)}]),
        ("surface:PerviousSurface", "one", {"area": F(50), "depth": F(1), "initial_storage": "vq"}, [{"depth": F(1, 2)}, {"wilting_point": F(1, 20)}]),
        ("surface:GrowingSurface", "default", dict(grow), [{"total_porosity": F(1, 2)}, {"crop_cover_max": F(1, 2)}]),
        ("surface:IrrigationSurface", "default", dict(grow), [{"irrigation_coefficient": F(1, 2), "rooting_depth": F(3, 4)}]),
        ("tank:DecayTank", "simple", {"capacity": F(50), "initial_storage": "vq"}, [{"decays": decays_of(r, simple_adds)}]),
        ("tank:DecayQueueTank", "simple", {"capacity": F(50)}, [{"decays": decays_of(r, simple_adds)}]),
        ("pool:NutrientPool", "default", {}, [{k: {"N": v[0] * 3} for k, v in POOL_DICTS.items()}]),
        ("node:Distribution", "simple", {"leakage": F(1, 10)}, [{"leakage": F(1, 5)}]),
        ("node:Distribution", "four", {"leakage": F(1, 4)}, [{"leakage": F(0)}]),
        ("node:UnlimitedDistribution", "simple", {}, [{"leakage": F(1, 5)}]),
        ("node:QueueGroundwater", "simple", {"capacity": F(50), "area": F(2), "initial_storage": "vq"}, [{"capacity": F(120)}]),
        ("node:River", "simple", {"initial_storage": "vq"}, [{"damp": F(1, 5), "length": F(300)}]),
        ("node:WTW", "simple", {}, [{"liquor_multiplier": {"volume": F(1, 10)}}]),
        ("node:WWTW", "four", {"percent_solids": F(1, 100)}, [{"liquor_multiplier": {"volume": F(1, 5)}}, {"stormwater_storage_capacity": F(0)}]),
        ("node:FWTW", "one", {}, [{"percent_solids": F(1, 50)}, {"liquor_multiplier": {"volume": F(1, 25)}}]),
        ("node:Storage", "simple", {"capacity": F(50), "area": F(2), "initial_storage": "vq"}, [{"capacity": F(5)}]),
        ("node:Sewer", "simple", {"capacity": F(10)}, [{"capacity": F(80), "pipe_time": 1}]),
        ("node:Land", "simple", {}, [{"surface_residence_time": F(3)}]),
    ]
    cases = []
    for key, polset, p, ovs in out:
        NG.set_pollutants(polset)
        cases.append({"key": key, "polset": polset, "params": p, "overrides": ovs, "script": specs[key]["script"](r, specs[key]["cls"])})
    NG.set_pollutants("default")
    return cases


def POLSET_ADDS(name):
    return list(NG.POLSETS[name][0])


def case_json(case):
    return NG.cfg_json(case)


def case_from_json(j):
    def fr(x):
        if isinstance(x, str):
            try:
                return F(x) if x[:1].isdigit() or x[:1] == "-" else x
            except (ValueError, ZeroDivisionError):
                return x
        if isinstance(x, list):
            return [fr(y) for y in x]
        if isinstance(x, dict):
            return {(int(k) if k.lstrip("-").isdigit() else k): fr(v) for k, v in x.items()}
        return x
    c = fr(j)
    c["key"], c["polset"] = j["key"], j["polset"]

    def tup(op):
        op = list(op)
        for i, a in enumerate(op):
            if isinstance(a, list) and a and not isinstance(a[0], (list, dict)) and op[0] in ("push", "distribute", "treat"):
                op[i] = tuple(a)
            elif isinstance(a, list) and op[0] == "t" and i == 2:
                op[i] = [tuple(y) if isinstance(y, list) else y for y in a]
        return tuple(op)
    c["script"] = [[tup(op) for op in day] for day in c["script"]]
    for k in ("crop_factor_stage_dates", "sowing_day", "harvest_day", "number_of_timesteps", "pipe_time", "adsorption_nr_maxiter", "max_temp_lag",
              "max_phosphorus_lag"):
        for d in [c["params"]] + c["overrides"]:
            if k in d:
                d[k] = [int(x) for x in d[k]] if isinstance(d[k], list) else int(d[k])
    for d in [c["params"]] + c["overrides"]:
        if "crop_factor_stages" in d:
            d["crop_factor_stages"] = [float(x) for x in d["crop_factor_stages"]]
    return c


def ctor_split(spec, q):
    non = spec.get("nonctor", set())
    return {k: v for k, v in q.items() if k not in non}, {k: v for k, v in q.items() if k in non}


def build(spec, params):
    ctor, extras = ctor_split(spec, params)
    rig = Rig(spec, ctor, None)
    if extras:
        set_nonctor(rig.target, cx(extras))
    return rig


def run_case(case, specs, controls, pristine):
    """all checks of one case; returns dict(problems, sigs, nontrivial).  Light components: one pass in exact arithmetic.
    Components whose simulation is too expensive in exact rationals (spec['float_behaviour']): an exact pass for the
    snapshots (derived quantities, idempotence, cross-talk) without driving, and a float pass for the behaviour with
    the rounding tolerance."""
    spec = specs[case["key"]]
    if not spec.get("float_behaviour"):
        return run_pass(case, spec, controls, pristine, True, case["script"][:spec.get("days", 4)], 0.0)
    out = run_pass(case, spec, controls, pristine, True, [], 0.0)
    out2 = run_pass(case, spec, controls, pristine, False, case["script"], 1e-9)
    return {"problems": out["problems"] + ["[float pass] " + x for x in out2["problems"]], "sigs": out["sigs"] | out2["sigs"],
            "nontrivial": out2["nontrivial"]}


def run_pass(case, spec, controls, pristine, exact, script, tol):
    sigs, problems = set(), []
    out = {"problems": problems, "sigs": sigs, "nontrivial": False}
    EXACT[0] = exact
    (install_exact if exact else uninstall_exact)()
    NG.set_pollutants(case["polset"])
    try:
        p, ovs = case["params"], case["overrides"]
        const0 = constants_picture()
        # everything that must exist BEFORE the override
        ref = build(spec, p)
        trace0 = ref.drive(script)
        zoo = defaults_zoo()
        zoo0 = zoo_picture(zoo)
        sib = build(spec, p)
        sib0 = sib.picture()
        a, b = build(spec, p), build(spec, p)
        leaked = check_defaults(pristine)
        if leaked:
            problems.append(f"constructing {case['key']} changed default arguments {[k for k, _ in leaked]}")
        # ---- overrides: a gets each dict once, b gets the last one three times; for every other case the overrides of
        # nodes and arcs travel through Model.add_overrides (an `overrides:` block), for the rest they go to the component
        VIA_MODEL[0] = bool(case.get("via_model"))
        q = p
        if VIA_MODEL[0] and len(ovs) >= 2 and apply_together(a.target, ovs, sigs, problems):
            # (both override dicts as two labelled entries of ONE overrides block naming the same component)
            for o in ovs:
                q = merge(spec, q, o)
        else:
            for o in ovs:
                apply(a.target, o, sigs, problems, "first application")
                q = merge(spec, q, o)
        for o in ovs[:-1]:
            apply(b.target, o, sigs, problems, "first application")
        pics = []
        for i in range(3):
            apply(b.target, ovs[-1], sigs, problems, f"application {i + 1}")
            pics.append(tpicture(spec, b.target))
        mutated = check_defaults(pristine)           # from here on the library's defaults are fresh objects again
        for key, _ in mutated:
            if key in KNOWN_SHARED:
                sigs.add("shared-mutable-default:" + key)
            else:
                problems.append(f"override of {case['key']} changed the default argument {key} shared by all instances")
        twin = build(spec, q)
        # ---- (b) idempotence of the snapshot (before any repair)
        for i in (1, 2):
            d = diff(pics[0], pics[i], tol)
            if d:
                if all(".wrap_depth" in x[0] for x in d) and "Distribution" in spec["cls"]:
                    sigs.add("distribution-leakage-rewrapped")
                else:
                    problems.append(f"idempotence: snapshot after application {i + 1} differs from the one after the first: {fmt_diffs(d)}")
        # ---- (a) as constructed
        for label, rig in (("overridden once", a), ("overridden three times", b)):
            repair(spec, rig.target, twin.target, sigs)
            d = diff(tpicture(spec, rig.target), tpicture(spec, twin.target), tol)
            if d:
                problems.append(f"as-constructed: snapshot of the component {label} differs from a twin constructed with the values: {fmt_diffs(d)}")
        tt = twin.drive(script)
        out["nontrivial"] = bool(ovs[0]) and bool(script) and bool(diff(tt, trace0, 0.0, limit=1))
        for label, rig in (("overridden once", a), ("overridden three times", b)):
            tr = rig.drive(script)
            d = diff(tr, tt, tol)
            if d:
                problems.append(f"behaviour of the component {label} differs from the twin's: {fmt_diffs(d)} (trace index in path; script in payload)")
        # ---- (c) bystanders
        dz = diff(zoo0, zoo_picture(zoo), 0.0)
        ds = diff(sib0, sib.picture(), 0.0)
        if (dz or ds) and not mutated:
            problems.append(f"cross-talk: existing components changed: {fmt_diffs(dz + ds)}")
        heal(mutated, pristine)
        dz = diff(zoo0, zoo_picture(zoo), 0.0)
        ds = diff(sib0, sib.picture(), 0.0)
        if (dz or ds) and mutated:
            problems.append(f"cross-talk beyond the shared default arguments {[k for k, _ in mutated]}: {fmt_diffs(dz + ds)}")
        d = diff(sib.drive(script), trace0, 0.0)
        if d:
            problems.append(f"cross-talk: behaviour of a same-class component that existed before the override changed: {fmt_diffs(d)}")
        d = diff(controls[case["polset"]]["zoo"], zoo_picture(defaults_zoo()), 0.0)
        if d:
            problems.append(f"cross-talk: components constructed afterwards with default arguments differ from a fresh interpreter: {fmt_diffs(d)}")
        d = diff(build(spec, p).drive(script), trace0, 0.0)
        if d:
            problems.append(f"cross-talk: behaviour of a same-class component constructed afterwards changed: {fmt_diffs(d)}")
        d = diff(const0, constants_picture(), 0.0)
        if d:
            problems.append(f"constants changed: {fmt_diffs(d)}")
    except Exception as ex:
        problems.append("monitor error: " + err_text(ex) + " | " + traceback.format_exc()[-600:])
        try:
            heal(check_defaults(pristine), pristine)
        except Exception:
            pass
    finally:
        NG.set_pollutants("default")
        EXACT[0] = True
    return out


# ---------------------------------------------------------------------------
# driver
# ---------------------------------------------------------------------------
def run(rep, thorough):
    t0 = time.time()
    seen = set()
    r = C.rng("c15")
    mon = {"cases": 0, "forced_cases": 0, "classes": {}, "violations": 0, "known": {}, "nontrivial": 0, "override_keys": 0, "two_step_sequences": 0}
    try:
        controls = get_controls()
    except Exception as ex:
        rep.notes.append(f"C15: control interpreter unavailable ({ex}); controls taken in-process")
        install_exact()
        controls = {}
        for ps in list(NG.POLSETS) + ["default"]:
            NG.set_pollutants(ps)
            controls[ps] = {"zoo": zoo_picture(defaults_zoo()), "constants": constants_picture()}
        controls["defaults"] = defaults_picture()
    pristine = controls["defaults"]
    install_exact()
    start = check_defaults(pristine)
    if start:
        rep.notes.append(f"C15: default arguments already modified when the monitor started: {[k for k, _ in start]} (restored)")
        heal(start, pristine)
    specs = make_specs()
    nrand, cap = (10, 1000) if thorough else (2, 5)
    nviol = 0

    def account(case, idx, forced=False):
        nonlocal nviol, seen
        key, polset = case["key"], case["polset"]
        out = run_case(case, specs, controls, pristine)
        mon["cases"] += 1
        mon["forced_cases"] += forced
        mon["classes"][key] = mon["classes"].get(key, 0) + 1
        mon["override_keys"] += sum(len(o) for o in case["overrides"])
        mon["two_step_sequences"] += len(case["overrides"]) > 1
        mon["nontrivial"] += out["nontrivial"]
        for sg in out["sigs"]:
            mon["known"][sg] = mon["known"].get(sg, 0) + 1
        seen |= out["sigs"]
        rep.add_eval(("c15", key, idx, forced), nontrivial=out["nontrivial"] and not out["problems"])
        if out["problems"]:
            mon["violations"] += 1
            nviol += 1
            if nviol <= 3:
                rep.violation("counterexample", f"{PID} monitor: {key} ({polset} pollutants) built with {short_json(case['params'])}, overrides "
                              f"{short_json(case['overrides'])}: " + " || ".join(out["problems"][:3]), {"case": case_json(case)}, True)
        elif len(rep.samples) < 2 and out["nontrivial"] and not forced:
            rep.samples.append({"class": key, "polset": polset, "params": case_json(case)["params"], "overrides": case_json(case)["overrides"],
                                "script_ops": sum(len(d) for d in case["script"]), "known": sorted(out["sigs"])})

    try:
        for idx, case in enumerate(forced_cases(r, specs)):
            account(case, idx, True)
        for key in sorted(specs):
            spec = specs[key]
            polsets = spec.get("polsets", ["simple", "four", "reordered", "one", "default"])
            keys = override_keys(spec, polsets[-1])
            r.shuffle(keys)
            plan = ["all"] + [("single", k) for k in keys[:cap]] + ["random"] * nrand
            for i, select in enumerate(plan):
                account(gen_case(r, key, spec, r.choice(polsets), select), i)
    finally:
        uninstall_exact()
        NG.set_pollutants("default")
    mon["wall_s"] = round(time.time() - t0, 1)
    rep.monitor["C15_overrides"] = mon
    return seen


def short_json(x):
    s = json.dumps(NG.cfg_json(x), default=str)
    return s if len(s) < 300 else s[:297] + "..."


def replay(rep, payload):
    controls = get_controls()
    pristine = controls["defaults"]
    install_exact()
    heal(check_defaults(pristine), pristine)
    case = case_from_json(payload["case"])
    try:
        out = run_case(case, make_specs(), controls, pristine)
    finally:
        uninstall_exact()
        NG.set_pollutants("default")
    rep.add_eval(("replay", case["key"]), True)
    if out["problems"]:
        rep.violation("counterexample", f"{PID} monitor: replay of {case['key']}: " + " || ".join(out["problems"][:3]), {"case": payload["case"]}, True)
    return out["sigs"]


if __name__ == "__main__":
    if "--controls" in sys.argv:
        controls_main()
        sys.exit(0)
    rep = C.Report(PID)
    if len(sys.argv) > 1:
        sigs = replay(rep, json.load(open(sys.argv[1])))
    else:
        sigs = run(rep, C.tier() == "thorough")
    print(json.dumps(rep.monitor, indent=1, default=str))
    for v in rep.violations:
        print("VIOLATION", v[1][:900], "->", v[2])
    for n in rep.notes[:10]:
        print("note:", n[:300])
    print("known signatures seen:", sorted(sigs))
    print("violations:", len(rep.violations), "evaluations:", rep.evaluations, "nontrivial:", len(rep.nontrivial))
