"""Exact number class for running WSIMOD in exact rational arithmetic.

`Ex` wraps a Fraction, absorbs float/int operands exactly (a float is taken at
its binary value), and is closed under + - * /, comparisons, min/max/abs/round.
`**` with an integer exponent is exact; otherwise the rational surrogate pow_s
(the same function as Decay.pow_s in the Coq development) is used.  exp/log/sin
surrogates are provided for rebinding the names imported from `math`.
"""
import math
from fractions import Fraction


def _fr(x):
    if isinstance(x, Ex):
        return x.q
    if isinstance(x, bool):
        return Fraction(int(x))
    if isinstance(x, (int, Fraction)):
        return Fraction(x)
    if isinstance(x, float):
        return Fraction(x)
    return NotImplemented


def pow_s(b, e):
    """b^floor(e) * (1 + (e - floor(e)) (b - 1)); exact power at integer e."""
    b = Fraction(b)
    e = Fraction(e)
    n = math.floor(e)
    f = e - n
    if n >= 0:
        base = b ** n
    else:
        if b == 0:
            raise ZeroDivisionError("0 ** negative")
        base = Fraction(1) / (b ** (-n))
    return base * (1 + f * (b - 1))


class Ex:
    __slots__ = ("q",)

    def __init__(self, x=0):
        q = _fr(x)
        if q is NotImplemented:
            raise TypeError(f"cannot make Ex from {type(x)}")
        self.q = q

    def _bin(self, o, f):
        o = _fr(o)
        if o is NotImplemented:
            return NotImplemented
        return Ex(f(self.q, o))

    def __add__(s, o): return s._bin(o, lambda a, b: a + b)
    __radd__ = __add__
    def __sub__(s, o): return s._bin(o, lambda a, b: a - b)
    def __rsub__(s, o): return s._bin(o, lambda a, b: b - a)
    def __mul__(s, o): return s._bin(o, lambda a, b: a * b)
    __rmul__ = __mul__
    def __truediv__(s, o): return s._bin(o, lambda a, b: a / b)
    def __rtruediv__(s, o): return s._bin(o, lambda a, b: b / a)
    def __pow__(s, o): return s._bin(o, lambda a, b: pow_s(a, b))
    def __rpow__(s, o): return s._bin(o, lambda a, b: pow_s(b, a))
    def __neg__(s): return Ex(-s.q)
    def __pos__(s): return s
    def __abs__(s): return Ex(abs(s.q))
    def __bool__(s): return s.q != 0

    def __eq__(s, o):
        o = _fr(o)
        return False if o is NotImplemented else s.q == o

    def __ne__(s, o): return not s.__eq__(o)
    def __lt__(s, o): return s.q < _fr(o)
    def __le__(s, o): return s.q <= _fr(o)
    def __gt__(s, o): return s.q > _fr(o)
    def __ge__(s, o): return s.q >= _fr(o)
    def __hash__(s): return hash(s.q)
    def __float__(s): return float(s.q)
    def __int__(s): return int(s.q)
    def __index__(s):
        if s.q.denominator != 1:
            raise TypeError("non-integer Ex used as index")
        return int(s.q)
    def __round__(s, n=None): return Ex(round(s.q, n)) if n is not None else round(s.q)
    def __floor__(s): return math.floor(s.q)
    def __ceil__(s): return math.ceil(s.q)
    def __repr__(s): return f"Ex({s.q})"
    def __str__(s): return str(s.q)
    def __format__(s, spec): return format(float(s.q), spec) if spec else str(s.q)


def exp_s(x):
    x = _fr(x)
    return Ex(1 + x) if x >= 0 else Ex(1 / (1 - x))


def log_s(x):
    x = _fr(x)
    if x <= 0:
        raise ValueError("math domain error")
    return Ex(x - 1) if x >= 1 else Ex(1 - 1 / x)


def log10_s(x):
    return log_s(x) / 2


def sin_s(x):
    x = _fr(x)
    return Ex(x / (1 + x * x))


def frac(x):
    """Fraction value of an Ex / int / Fraction / float (float exactly)."""
    q = _fr(x)
    if q is NotImplemented:
        raise TypeError(f"not a number: {x!r}")
    return q


def is_exact(x):
    return isinstance(x, (Ex, int, Fraction)) and not isinstance(x, bool)


EPS = Fraction(1, 10 ** 11)
UNBOUNDED = Fraction(10 ** 15)


def install_exact():
    """Patch the wsimod modules for exact-mode runs (idempotent)."""
    from wsimod.core import constants
    constants.FLOAT_ACCURACY = Ex(EPS)
    constants.UNBOUNDED_CAPACITY = Ex(UNBOUNDED)
    import wsimod.nodes.land as land
    import wsimod.nodes.storage as storage
    for mod in (land, storage):
        for nm, f in (("exp", exp_s), ("log", log_s), ("log10", log10_s), ("sin", sin_s)):
            if hasattr(mod, nm):
                setattr(mod, nm, f)


def uninstall_exact():
    from wsimod.core import constants
    constants.FLOAT_ACCURACY = 1e-11
    constants.UNBOUNDED_CAPACITY = 1e15
    import wsimod.nodes.land as land
    import wsimod.nodes.storage as storage
    for mod in (land, storage):
        for nm in ("exp", "log", "log10", "sin"):
            if hasattr(mod, nm):
                setattr(mod, nm, getattr(math, nm))
