#!/usr/bin/env python3
"""T5: regenerate coq/gen/GenDivs.v from the tree under test - every division site of the library
(`/`, `//`, `%`, `/=`, `//=`, `%=` in wsimod/{nodes,arcs,core,orchestration}/*.py) with the function it
is in, the text of its divisor and the conditions that guard it:
   * the tests of the enclosing if / elif / while / conditional expressions (with the branch taken), and
   * the negated tests of earlier `if` statements of an enclosing block whose body always leaves the
     block (return / raise / continue / break): early-exit guards.
A row is (file, function, divisor, [guards]).  The theorem over this table (coq/DivSites.v) says that
every row is one of the rows of the reviewed baseline coq/DivBaseline.v, i.e. no division has appeared,
changed its divisor or lost a guard since the review; with --baseline the baseline file is (re)written
from the current tree (a development-time action, never done by a check).
Line numbers are deliberately not part of a row: moving code does not change the table.
Fail closed: a file that does not parse -> exit 1.

usage: gen_divs.py <repo> <coq/gen dir> <work dir> [--baseline <coq dir>]"""
import ast
import json
import os
import sys

repo, gendir, work = sys.argv[1], sys.argv[2], sys.argv[3]
DIVOPS = (ast.Div, ast.FloorDiv, ast.Mod)
LEAVES = (ast.Return, ast.Raise, ast.Continue, ast.Break)


def files():
    out = []
    for sub in ("nodes", "arcs", "core", "orchestration"):
        d = os.path.join(repo, "wsimod", sub)
        if os.path.isdir(d):
            out += [os.path.join(d, fn) for fn in sorted(os.listdir(d)) if fn.endswith(".py")]
    return out


def txt(node):
    return " ".join(ast.unparse(node).split()).replace('"', "'")


def always_leaves(body):
    return bool(body) and isinstance(body[-1], LEAVES)


def is_string_format(node):
    """'%' applied to a string literal is formatting, not arithmetic"""
    return isinstance(node.op, ast.Mod) and isinstance(node.left, (ast.Constant, ast.JoinedStr)) and \
        (isinstance(node.left, ast.JoinedStr) or isinstance(node.left.value, str))


def scan_function(fn, qual, fname, rows):
    def visit_block(stmts, guards):
        g = list(guards)
        for st in stmts:
            visit_stmt(st, g)
            if isinstance(st, ast.If) and always_leaves(st.body) and not st.orelse:
                g = g + ["not (" + txt(st.test) + ")"]

    def visit_expr(e, guards):
        if e is None:
            return
        if isinstance(e, ast.IfExp):
            visit_expr(e.test, guards)
            visit_expr(e.body, guards + [txt(e.test)])
            visit_expr(e.orelse, guards + ["not (" + txt(e.test) + ")"])
            return
        if isinstance(e, ast.BoolOp) and isinstance(e.op, ast.And):
            acc = list(guards)
            for v in e.values:
                visit_expr(v, acc)
                acc = acc + [txt(v)]
            return
        if isinstance(e, ast.BinOp) and isinstance(e.op, DIVOPS) and not is_string_format(e):
            rows.append((fname, qual, txt(e.right), tuple(guards)))
        if isinstance(e, (ast.Lambda,)):
            visit_expr(e.body, guards)
            return
        for ch in ast.iter_child_nodes(e):
            if isinstance(ch, ast.expr):
                visit_expr(ch, guards)
            elif isinstance(ch, ast.comprehension):
                visit_expr(ch.iter, guards)
                for c in ch.ifs:
                    visit_expr(c, guards)
            elif isinstance(ch, ast.keyword):
                visit_expr(ch.value, guards)

    def visit_stmt(st, guards):
        if isinstance(st, (ast.FunctionDef, ast.AsyncFunctionDef)):
            scan_function(st, qual + "." + st.name, fname, rows)
            return
        if isinstance(st, ast.ClassDef):
            return
        if isinstance(st, ast.If):
            visit_expr(st.test, guards)
            visit_block(st.body, guards + [txt(st.test)])
            visit_block(st.orelse, guards + ["not (" + txt(st.test) + ")"])
            return
        if isinstance(st, ast.While):
            visit_expr(st.test, guards)
            visit_block(st.body, guards + [txt(st.test)])
            visit_block(st.orelse, guards)
            return
        if isinstance(st, (ast.For, ast.AsyncFor)):
            visit_expr(st.iter, guards)
            visit_block(st.body, guards)
            visit_block(st.orelse, guards)
            return
        if isinstance(st, (ast.With, ast.AsyncWith)):
            for it in st.items:
                visit_expr(it.context_expr, guards)
            visit_block(st.body, guards)
            return
        if isinstance(st, ast.Try):
            visit_block(st.body, guards)
            for h in st.handlers:
                visit_block(h.body, guards)
            visit_block(st.orelse, guards)
            visit_block(st.finalbody, guards)
            return
        if isinstance(st, ast.AugAssign) and isinstance(st.op, DIVOPS):
            rows.append((fname, qual, txt(st.value), tuple(guards)))
        for ch in ast.iter_child_nodes(st):
            if isinstance(ch, ast.expr):
                visit_expr(ch, guards)
    visit_block(fn.body, [])


def scan():
    rows = []
    for path in files():
        try:
            tree = ast.parse(open(path).read())
        except SyntaxError as ex:
            print(f"gen_divs: cannot parse {path}: {ex}")
            return None
        fname = os.path.relpath(path, os.path.join(repo, "wsimod"))
        for node in tree.body:
            if isinstance(node, (ast.FunctionDef, ast.AsyncFunctionDef)):
                scan_function(node, node.name, fname, rows)
            elif isinstance(node, ast.ClassDef):
                for m in node.body:
                    if isinstance(m, (ast.FunctionDef, ast.AsyncFunctionDef)):
                        scan_function(m, node.name + "." + m.name, fname, rows)
    return sorted(set(rows))


def classify(row):
    _, _, div, guards = row
    try:
        v = ast.literal_eval(div)
        if isinstance(v, (int, float)) and v != 0:
            return "constant"
    except Exception:
        pass
    if div.startswith("constants."):
        return "constant"
    roots = {n.id for n in ast.walk(ast.parse(div, mode="eval")) if isinstance(n, ast.Name)} | \
            {n.attr for n in ast.walk(ast.parse(div, mode="eval")) if isinstance(n, ast.Attribute)}
    if any(any(r in g for r in roots) for g in guards):
        return "guarded"
    return "parameter-or-data"


def coq_rows(name, rows):
    def s(x):
        return '"' + x + '"'
    lines = [f"Definition {name} : list (string * string * string * list string) := ["]
    lines.append(";\n".join(f"  ({s(r[0])}, {s(r[1])}, {s(r[2])}, [{'; '.join(s(g) for g in r[3])}])" for r in rows))
    lines.append("].")
    return lines


def main():
    rows = scan()
    if rows is None:
        return 1
    head = ["From Coq Require Import String List.", "Import ListNotations.", "Open Scope string_scope.", ""]
    text = "\n".join(["(* GENERATED by harness/gen_divs.py from the tree under test - do not edit. *)"] + head +
                     ["(* (file, function, divisor, guarding conditions) of every division site *)"] + coq_rows("div_sites", rows)) + "\n"
    path = os.path.join(gendir, "GenDivs.v")
    if not os.path.exists(path) or open(path).read() != text:
        open(path, "w").write(text)
    classes = {}
    for r in rows:
        classes[classify(r)] = classes.get(classify(r), 0) + 1
    json.dump({"sites": [list(r[:3]) + [list(r[3])] + [classify(r)] for r in rows], "classes": classes},
              open(os.path.join(work, "gen_divs.json"), "w"), indent=1)
    if "--baseline" in sys.argv:
        cdir = sys.argv[sys.argv.index("--baseline") + 1]
        btext = "\n".join(["(* DivBaseline.v - the division sites of wsimod as reviewed (written by `gen_divs.py --baseline`, a",
                           "   development-time action; the checks only ever read it).  Review classes at the time: " +
                           ", ".join(f"{k}: {v}" for k, v in sorted(classes.items())) + ".",
                           "   constant = non-zero literal or constants.*; guarded = a guarding condition mentions the divisor;",
                           "   parameter-or-data = non-zero by well-formedness of parameters / forcing data (C12 assumptions). *)"] + head +
                          coq_rows("reviewed_sites", rows)) + "\n"
        open(os.path.join(cdir, "DivBaseline.v"), "w").write(btext)
    print(f"division sites: {len(rows)} {classes}")
    return 0


if __name__ == "__main__":
    sys.exit(main())
