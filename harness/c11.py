"""C11 — decay."""
import json
import os
import sys

import common as C
import corr_core as K

PID = "C11"


def main():
    rep = C.Report(PID)
    rep.trusted = list(C.BASE_TRUST) + [
        "section hypotheses on `pow` (positive on positive bases; monotone in the exponent for bases >= 1), "
        "proved for the executable surrogate pow_s; for non-integer exponents Python's float ** is trusted to satisfy them"]
    thorough = C.tier() == "thorough"
    ok = C.proof_stage(rep, "props/C11.v")
    translated = rep.extra["generators"]["gen_core"].get("functions", {})
    missing = [k for k, v in translated.items() if not v["translated"] and k.startswith("generic_")]
    if missing:
        rep.violation("broken-obligation", f"translator T1 refuses core.py methods {missing}: "
                      + "; ".join(f"{k}: {translated[k]['error']}" for k in missing), {"untranslated": missing}, False)
    K.correspondence(rep, K.OPSD, 4000 if thorough else 400, "c11", translated)
    K.monitor_c11(rep, 4000 if thorough else 600)
    # decaying stores and arcs over histories: exact correspondence of DecayTank, DecayQueueTank, DecayArc, DecayArcAlt
    # (cases of the component families restricted to the decaying classes, each with at least one close-out) and the
    # C11 clauses evaluated on the implementation after every operation
    import corr_comp as KC
    import mon_comp as M
    fams = ["dtank", "dqtank", "dqarc", "daltarc"]
    for fam in fams:
        # (results longer than 40 digits are not sent to Coq: decay factors with fractional exponents make the exact
        # rationals of long histories grow quickly; the count is in the evidence)
        KC.correspondence(rep, fam, 1000 if thorough else 120, 18 if thorough else 14, tag="c11", maxdigits=40)
    import corr_tarea  # noqa: F401
    KC.correspondence(rep, "tarea", 2000 if thorough else 200, 14 if thorough else 8, tag="c11", maxdigits=30)
    seen = M.monitor(rep, PID, fams, 2400 if thorough else 200, 24 if thorough else 14)
    # whole models (netgen): every queue tank declares what it holds plus the decay still to be booked, at both ends of
    # every timestep and after requests made directly over every arc of models that have run
    import mon_probe
    import net_check
    seen_net = net_check.monitor_models(rep, PID, 300 if thorough else 60, 7 if thorough else 4)
    seen_net.update(mon_probe.run(rep, thorough, pid=PID) or {})
    seen.update({k: (v, "net", {"ops": [], "cls": "model"}, -1) for k, v in seen_net.items()})
    C.apply_known(rep, PID, seen)
    rule = ("correspondence: generic_temperature_decay(_c) on random fluxes, decay tables (constants 0..3/2, exponents "
            "1/2..2, products above 1 included, pollutants without parameters) and temperatures (integer and "
            "fractional offsets from 20) vs the translated definition, exact; monitor: C11 clauses on the "
            "implementation. stores and arcs: exact correspondence of random operation sequences (pushes with travel times 0-3, pulls, checks, "
            "close-outs at varying temperature) on DecayTank, DecayQueueTank, DecayArc and DecayArcAlt; monitor after every operation: "
            "at close-out remaining + reported = held before, nothing increases, no more than present removed, volume and pollutants "
            "with constant 0 untouched; at a push entered = growth of what is held + delivered + growth of reported decay. "
            "whole models: random models run in exact arithmetic, queue tanks declare what they hold plus unbooked decay at both ends of every "
            "timestep and after direct requests over every arc. non-trivial = distinct case with at least one decaying pollutant / sequence of >= 3 operations")
    return rep.finish(rule, ["decay keys are additive pollutants (well-formedness)",
                             "pow oracle hypotheses (see trusted_base)"])


if __name__ == "__main__":
    sys.exit(main())
