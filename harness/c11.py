"""C11 — decay."""
import json
import os
import sys

import common as C
import corr_core as K

PID = "C11"


def main():
    rep = C.Report(PID)
    rep.trusted = list(C.BASE_TRUST) + [
        "section hypotheses on `pow` (positive on positive bases; monotone in the exponent for bases >= 1), "
        "proved for the executable surrogate pow_s; for non-integer exponents Python's float ** is trusted to satisfy them"]
    thorough = C.tier() == "thorough"
    ok = C.proof_stage(rep, "props/C11.v")
    translated = rep.extra["generators"]["gen_core"].get("functions", {})
    missing = [k for k, v in translated.items() if not v["translated"] and k.startswith("generic_")]
    if missing:
        rep.violation("broken-obligation", f"translator T1 refuses core.py methods {missing}: "
                      + "; ".join(f"{k}: {translated[k]['error']}" for k in missing), {"untranslated": missing}, False)
    K.correspondence(rep, K.OPSD, 4000 if thorough else 400, "c11", translated)
    K.monitor_c11(rep, 4000 if thorough else 600)
    try:
        import mon_decay_hist
        mon_decay_hist.run(rep, thorough)
    except ImportError:
        rep.notes.append("history monitor for decaying tanks/arcs not built yet")
    rule = ("correspondence: generic_temperature_decay(_c) on random fluxes, decay tables (constants 0..3/2, exponents "
            "1/2..2, products above 1 included, pollutants without parameters) and temperatures (integer and "
            "fractional offsets from 20) vs the translated definition, exact; monitor: C11 clauses on the "
            "implementation. non-trivial = distinct case with at least one decaying pollutant")
    return rep.finish(rule, ["decay keys are additive pollutants (well-formedness)",
                             "pow oracle hypotheses (see trusted_base)"])


if __name__ == "__main__":
    sys.exit(main())
