"""C16 monitor: the timestep protocol of Model.run, observed on the implementation (float mode).

Every orchestration function of every node, `distribute` of every node that has it and `end_timestep`
of every node and arc are wrapped on the instances; the observer hooks _verif_pre / _verif_post mark
the phases.  Per timestep: all nodes carry the current date; the orchestration calls are exactly
entry by entry, item by item, node by node (model.nodes_type order); then every River discharges once,
upstream first; then (after results were recorded) every node, then every arc, is closed out once; and
the recorded flow of an arc is its vqip_out at that moment, which is what it delivered in the timestep.
Cases: netgen models under the default and random custom orchestrations, random convergent river
networks built directly (any insertion order, both builders), and two fixed divergent networks
(known finding "divergent-river-order": rivers are ordered by shortest distance to an outlet)."""
import contextlib
import copy
import io
import json
import os
import random
import traceback
from collections import Counter
from fractions import Fraction as F

import common as C
import netgen as NG

PID = "C16"
SIG_DIV = "divergent-river-order"
MAXV = 3
RIVERNET = ("River", "Node", "Reservoir")


# ---------------------------------------------------------------------------
class Obs:
    """instruments one model; after the run `steps` holds one record per timestep"""

    def __init__(self, model):
        self.m = model
        self.depth = 0
        self.cur = None            # record of the timestep being run
        self.steps = []
        self.outside = []          # protocol calls seen outside any timestep
        self.stack = []            # arcs whose request is being served (innermost last)
        fnames = {f for item in model.orchestration for f in item.values()} | {"distribute"}
        fnames |= {f for item in type(model)().orchestration for f in item.values()}
        for n in model.nodes.values():
            for f in sorted(fnames):
                if callable(getattr(n, f, None)):
                    setattr(n, f, self.wrap(getattr(n, f), ("call", n.name, f)))
            n.end_timestep = self.wrap(n.end_timestep, ("end_node", n.name))
            n.push_set = self.wrap_set(n, n.push_set)
        for a in model.arcs.values():
            a.end_timestep = self.wrap(self.wrap_close(a, a.end_timestep), ("end_arc", a.name))
            a.send_push_request = self.wrap_req(a, a.send_push_request, False)
            a.send_pull_request = self.wrap_req(a, a.send_pull_request, True)
        model._verif_pre = self.on_pre
        model._verif_post = self.on_post

    def wrap(self, orig, ev):
        def w(*a, **k):
            if self.depth == 0:           # nested calls (made by the library itself) are not protocol steps
                (self.cur["events"] if self.cur is not None else self.outside).append(ev)
            self.depth += 1
            try:
                return orig(*a, **k)
            finally:
                self.depth -= 1
        return w

    def wrap_req(self, arc, orig, pull):
        def w(vqip, *a, **k):
            self.stack.append(arc)
            try:
                reply = orig(vqip, *a, **k)
            finally:
                self.stack.pop()
            if pull and self.cur is not None:   # a pull delivers what the arc hands back to the requester
                self.cur["delivered"][arc.name] = self.cur["delivered"].get(arc.name, 0.0) + reply["volume"]
            return reply
        return w

    def wrap_close(self, arc, orig):
        """water an arc hands to its out_port while it is being closed out (after the results were recorded) is
        delivered by that arc in that timestep all the same"""
        def w(*a, **k):
            self.stack.append(arc)
            try:
                return orig(*a, **k)
            finally:
                self.stack.pop()
        return w

    def wrap_set(self, node, orig):
        def w(vqip, *a, **k):
            arc = self.stack[-1] if self.stack else None
            offered = vqip["volume"]
            reply = orig(vqip, *a, **k)
            if arc is not None and arc.out_port is node and self.cur is not None:   # a push delivers what the receiver keeps
                self.cur["delivered"][arc.name] = self.cur["delivered"].get(arc.name, 0.0) + (offered - reply["volume"])
            return reply
        return w

    def on_pre(self, model, date):
        m = model
        self.cur = {"date": date, "events": [], "delivered": {}, "post_at": None, "vout": None,
                    "t_bad": [n.name for n in m.nodes.values() if getattr(n, "t", None) != date],
                    "expected": [(n, f) for item in m.orchestration for ty, f in item.items() for n in m.nodes_type.get(ty, {})],
                    "nodes": list(m.nodes), "arcs": list(m.arcs)}
        self.steps.append(self.cur)

    def on_post(self, model, date):
        self.cur["post_at"] = len(self.cur["events"])
        self.cur["vout"] = {a.name: a.vqip_out["volume"] for a in model.arcs.values()}


def upstream_pairs(model):
    """(u, v): River u has an arc-path to River v through River / Node / Reservoir nodes"""
    cls = {n.name: type(n).__name__ for n in model.nodes.values()}
    succ = {}
    for a in model.arcs.values():
        if cls[a.in_port.name] in RIVERNET and cls[a.out_port.name] in RIVERNET:
            succ.setdefault(a.in_port.name, set()).add(a.out_port.name)
    pairs = []
    for u in sorted(n for n, c in cls.items() if c == "River"):
        seen, todo = set(), [u]
        while todo:
            for y in succ.get(todo.pop(), ()):
                if y not in seen:
                    seen.add(y)
                    todo.append(y)
        pairs += [(u, v) for v in sorted(seen) if cls[v] == "River" and v != u]
    return pairs


def close(a, b):
    return abs(a - b) <= 1e-9 * max(1.0, abs(a), abs(b))


def check_steps(model, obs, flows):
    """returns (list of violation messages, list of upstream-first failures, timesteps checked)"""
    bad, order_bad = [], []
    rivers = sorted(n.name for n in model.nodes.values() if type(n).__name__ == "River")
    pairs = upstream_pairs(model)
    if obs.outside:
        bad.append(f"protocol calls outside any timestep: {obs.outside[:4]}")
    rows = {}
    for row in flows:
        rows.setdefault(row["time"], []).append(row)
    for st in obs.steps:
        d = str(st["date"])[:10]
        if st["t_bad"]:
            bad.append(f"{d}: nodes {st['t_bad'][:3]} do not carry the current date when the timestep starts")
        if st["post_at"] is None:
            bad.append(f"{d}: results were not recorded (no post hook) in this timestep")
            continue
        before, after = st["events"][:st["post_at"]], st["events"][st["post_at"]:]
        early = [e for e in before if e[0] != "call"]
        if early:
            bad.append(f"{d}: closed out before the results were recorded: {early[:3]}")
        calls = [(e[1], e[2]) for e in before if e[0] == "call"]
        exp = st["expected"]
        got = calls[:len(exp)]
        if got != exp:
            i = next((i for i, (x, y) in enumerate(zip(got, exp)) if x != y), min(len(got), len(exp)))
            cg, ce = Counter(calls), Counter(exp) + Counter((x, "distribute") for x in rivers)
            cnt = [f"{n}.{f}() applied {cg[(n, f)]} time(s), listed {ce[(n, f)]} time(s)" for n, f in sorted(set(cg) | set(ce)) if cg[(n, f)] != ce[(n, f)]]
            bad.append(f"{d}: orchestration calls differ from the listed order at position {i}: observed "
                       f"{got[i] if i < len(got) else 'nothing'}, listed {exp[i] if i < len(exp) else 'nothing'}"
                       + (f"; {cnt[0]}" if cnt else " (same calls, different order)") + f"; orchestration {model.orchestration}")
            continue
        rest = calls[len(exp):]
        odd = [c for c in rest if c[1] != "distribute" or c[0] not in rivers]
        if odd:
            bad.append(f"{d}: unexpected calls after the orchestration: {odd[:3]}")
        cnt = Counter(n for n, f in rest if f == "distribute")
        wrong = [(r, cnt[r]) for r in rivers if cnt[r] != 1]
        if wrong:
            bad.append(f"{d}: river {wrong[0][0]!r} discharged {wrong[0][1]} time(s), expected exactly once (discharge sequence "
                       f"{[n for n, f in rest]}, river_discharge_order {model.river_discharge_order})")
        else:
            pos = {n: i for i, (n, f) in enumerate(rest)}
            late = [(u, v) for u, v in pairs if pos[u] > pos[v]]
            if late:
                order_bad.append(f"{d}: river {late[0][1]!r} discharged before {late[0][0]!r}, which is upstream of it "
                                 f"(discharge sequence {[n for n, f in rest]})")
        stray = [e for e in after if e[0] == "call"]
        if stray:
            bad.append(f"{d}: calls after the results were recorded: {stray[:3]}")
        ends = [e for e in after if e[0] != "call"]
        cn = Counter(e[1] for e in ends if e[0] == "end_node")
        ca = Counter(e[1] for e in ends if e[0] == "end_arc")
        wn = [(n, cn[n]) for n in st["nodes"] if cn[n] != 1] + [(n, c) for n, c in cn.items() if n not in st["nodes"]]
        wa = [(a, ca[a]) for a in st["arcs"] if ca[a] != 1] + [(a, c) for a, c in ca.items() if a not in st["arcs"]]
        if wn or wa:
            bad.append(f"{d}: closed out {'node' if wn else 'arc'} {(wn or wa)[0][0]!r} {(wn or wa)[0][1]} time(s), expected exactly once")
        kinds = [e[0] for e in ends]
        if "end_arc" in kinds and "end_node" in kinds[kinds.index("end_arc"):]:
            bad.append(f"{d}: a node was closed out after an arc")
        # recorded flows
        rec = {}
        for row in rows.get(st["date"], []):
            rec.setdefault(row["arc"], []).append(row["flow"])
        for a in st["arcs"]:
            v = st["vout"][a]
            dl = st["delivered"].get(a, 0.0)
            if len(rec.get(a, [])) != 1:
                bad.append(f"{d}: arc {a!r} has {len(rec.get(a, []))} flow records for the timestep, expected one")
            elif not (rec[a][0] == v):
                bad.append(f"{d}: flow recorded for arc {a!r} is {rec[a][0]!r} but the arc's vqip_out holds {v!r} when results are recorded")
            elif not close(v, dl):
                bad.append(f"{d}: flow recorded for arc {a!r} ({type(model.arcs[a]).__name__}) is {v!r} but the arc delivered {dl!r} in the timestep")
    nd = len({str(r["time"]) for r in flows})
    if nd != len(obs.steps):
        bad.append(f"results cover {nd} dates, {len(obs.steps)} timesteps were run")
    return bad, order_bad, len(obs.steps)


# ---------------------------------------------------------------------------
def build_case(case):
    from wsimod.orchestration.model import Model
    orch = copy.deepcopy(case.get("orchestration"))
    m = NG.build(case["cfg"], "float", orchestration=orch)
    if case.get("builder") == "instantiated":
        m2 = Model()
        if orch is not None:
            m2.orchestration = orch
        m2.add_instantiated_nodes([m.nodes[n] for n in case["inst_nodes"]])
        m2.add_instantiated_arcs([m.arcs[a] for a in case["inst_arcs"]])
        m2.dates = m.dates
        m = m2
    if case.get("builder") == "scenario":
        # a scenario run from a saved model: ANOTHER river network is built and saved; its saved configuration is then loaded
        # with the nodes and arcs of the network under test given as overrides (Model.load(..., overrides={"nodes", "arcs"}))
        import os
        import shutil
        import tempfile
        import yaml
        base = NG.build(case["base_cfg"], "float")
        with tempfile.TemporaryDirectory(prefix="c16a_") as da, tempfile.TemporaryDirectory(prefix="c16b_") as db:
            base.save(da)
            m.save(db)
            with open(os.path.join(db, "config.yml")) as f:
                yb = yaml.safe_load(f)
            shutil.copy(os.path.join(da, "config.yml"), os.path.join(db, "saved_elsewhere.yml"))
            m3 = Model()
            m3.load(db, config_name="saved_elsewhere.yml", overrides={"nodes": yb["nodes"], "arcs": yb["arcs"], "dates": yb["dates"]})
        m = m3
    return m


def run_case(case):
    """returns (violations, order failures, timesteps, error text or None, model summary)"""
    info = {}
    try:
        with contextlib.redirect_stdout(io.StringIO()):
            m = build_case(case)
            obs = Obs(m)
            info = {"river_order": list(m.river_discharge_order), "nodes": len(m.nodes), "arcs": len(m.arcs)}
            flows, _, _, _ = m.run(dates=m.dates, verbose=False)
    except Exception as ex:        # a run that raises is a matter for C12; it is counted and skipped here
        tb = traceback.extract_tb(ex.__traceback__)
        where = [f"{fr.filename.split('/')[-1]}:{fr.lineno}" for fr in tb][-3:]
        return [], [], 0, f"{type(ex).__name__}: {ex} at {where}", info
    finally:
        NG.set_pollutants("default")
    bad, order_bad, n = check_steps(m, obs, flows)
    info["calls_per_step"] = len(obs.steps[0]["events"]) if obs.steps else 0
    info["flowing"] = any(v > 0 for st in obs.steps for v in (st["vout"] or {}).values())
    return bad, order_bad, n, None, info


# ---------------------------------------------------------------------------
def default_orchestration():
    from wsimod.orchestration.model import Model
    return Model().orchestration


def gen_orchestration(r):
    """permutations / sub-lists / repeated entries / multi-key entries of the default list"""
    base = default_orchestration()
    kind = r.choice(["permute", "sublist", "repeat", "repeat", "multikey", "mixed", "mixed"])
    o = copy.deepcopy(base)
    if kind in ("sublist", "mixed"):
        o = [e for e in o if r.random() < 0.7]
    if kind in ("permute",) or (kind == "mixed" and r.random() < 0.5):
        r.shuffle(o)
    if kind in ("repeat", "mixed") and o:
        for _ in range(r.choice([1, 2, 3])):
            e = copy.deepcopy(r.choice(o))
            o.insert(r.choice([o.index(e) + 1, r.randint(0, len(o))]), e)     # adjacent or anywhere
    if kind in ("multikey", "mixed") or r.random() < 0.3:
        merged = []
        for e in o:
            if merged and r.random() < 0.5 and not (set(e) & set(merged[-1])):
                merged[-1].update(e)
            else:
                merged.append(dict(e))
        o = merged
    return o


def gen_rivernet(r, ndates=3):
    """a random convergent river network: every river / junction has exactly one way down to a Waste outlet"""
    polset = r.choice(["simple", "one", "four"])
    NG.set_pollutants(polset)
    g = NG.Gen(r, ndates, polset, {})
    down = [g.waste() for _ in range(r.choice([1, 1, 2]))]
    net, edges, rivers = list(down), [], []
    nriv = r.choice([2, 3, 3, 4, 5, 6])
    njun = r.choice([0, 0, 1, 2])
    kinds = ["River"] * nriv + ["Node"] * njun
    r.shuffle(kinds)
    for k in kinds:
        parent = net[-1] if r.random() < 0.55 else r.choice(net)      # chains and confluences
        nm = g.river() if k == "River" else g.junction()
        if k == "River":
            rivers.append(nm)
            if r.random() < 0.7:
                g.arc(g.catchment(r.choice(["steady", "mixed", "burst"])), nm)
        edges.append((nm, parent))
        net.append(nm)
    heads = {a for a, b in edges} - {b for a, b in edges}
    for j in [n for n in net if n.startswith("node") and n in heads]:     # a junction always has a river above it
        nm = g.river()
        rivers.append(nm)
        edges.append((nm, j))
        g.arc(g.catchment("steady"), nm)
    for a, b in edges:
        kw = {}
        if a in rivers and r.random() < 0.15:
            kw = {"type_": "QueueArc", "number_of_timesteps": r.choice([1, 2])}
        elif a not in rivers and r.random() < 0.5:
            # below a junction: a junction passes every push on at once, so this arc is pushed once per tributary and
            # timestep - its record for the timestep is the sum of what those pushes delivered
            kw = {"type_": r.choice(["AltQueueArc", "AltQueueArc", "QueueArc"]), "number_of_timesteps": r.choice([0, 1, 1, 2])}
        g.arc(a, b, cap=r.choice([None, None, None, F(4)]), **kw)
    order = r.choice(["downstream-first", "upstream-first", "shuffled", "shuffled"])
    rank = {n: i for i, n in enumerate(net)}
    if order == "shuffled":
        r.shuffle(g.nodes)
    else:
        g.nodes.sort(key=lambda n: rank.get(n["name"], len(rank)), reverse=(order == "upstream-first"))
    r.shuffle(g.arcs)
    NG.set_pollutants("default")
    cfg = {"polset": polset, "dates": g.dates, "nodes": g.nodes, "arcs": g.arcs, "size": "rivernet"}
    case = {"cfg": cfg, "kind": "rivernet", "orchestration": None, "builder": r.choice(["dicts", "dicts", "instantiated"]),
            "shape": f"{len(rivers)} rivers, {njun} junctions, {len(down)} outlets, nodes {order}"}
    if case["builder"] == "instantiated":
        case["inst_nodes"] = [n["name"] for n in g.nodes]
        case["inst_arcs"] = [a["name"] for a in g.arcs]
        r.shuffle(case["inst_nodes"])
        r.shuffle(case["inst_arcs"])
    return case


def gen_returnflow(r, ndates=3):
    """a chain of river reaches with a supply chain that abstracts from one reach and returns its effluent to another
    (upstream of the abstraction: the model graph has a loop through the rivers; the river / junction / outlet network
    itself is an acyclic chain)"""
    polset = r.choice(["simple", "one", "four"])
    NG.set_pollutants(polset)
    g = NG.Gen(r, ndates, polset, {})
    out = g.waste()
    rivers = [g.river() for _ in range(r.choice([2, 2, 3, 4]))]
    g.arc(g.catchment("steady"), rivers[0])
    for a, b in zip(rivers, rivers[1:]):
        if r.random() < 0.25:
            j = g.junction()
            g.arc(a, j)
            g.arc(j, b)
        else:
            g.arc(a, b)
    g.arc(rivers[-1], out)
    k = r.randrange(len(rivers))
    j = r.randrange(len(rivers))
    fw = g.fwtw()
    if r.random() < 0.5:
        resv = g.reservoir()
        g.arc(rivers[k], resv)
        g.arc(resv, fw)
    else:
        g.arc(rivers[k], fw)
    dist = g.distribution()
    g.arc(fw, dist)
    dem = g.demand(residential=r.random() < 0.5)
    g.arc(dist, dem)
    ww = g.wwtw()
    if r.random() < 0.5:
        sw = g.sewer()
        g.arc(dem, sw)
        g.arc(fw, sw)
        g.arc(sw, ww)
    else:
        g.arc(dem, ww)
        g.arc(fw, ww)
    g.arc(ww, rivers[j])
    r.shuffle(g.arcs)
    if r.random() < 0.5:
        r.shuffle(g.nodes)
    NG.set_pollutants("default")
    cfg = {"polset": polset, "dates": g.dates, "nodes": g.nodes, "arcs": g.arcs, "size": "returnflow"}
    case = {"cfg": cfg, "kind": "returnflow", "orchestration": None, "builder": r.choice(["dicts", "dicts", "instantiated"]),
            "shape": f"{len(rivers)} reaches, abstraction from reach {k}, effluent into reach {j}"}
    if case["builder"] == "instantiated":
        case["inst_nodes"] = [n["name"] for n in g.nodes]
        case["inst_arcs"] = [a["name"] for a in g.arcs]
    return case


def divergent_cases():
    """(1) alpha -> beta -> outlet, alpha -> outlet (fails for some hash seeds);
    (2) alpha -> beta -> gamma -> outlet, alpha -> outlet (beta is further from the outlet than alpha: fails always)"""
    out = []
    for names, edges in ((("alpha", "beta"), [("alpha", "beta"), ("beta", "O"), ("alpha", "O")]),
                         (("alpha", "beta", "gamma"), [("alpha", "beta"), ("beta", "gamma"), ("gamma", "O"), ("alpha", "O")])):
        r = random.Random(11)
        NG.set_pollutants("simple")
        g = NG.Gen(r, 3, "simple", {})
        o = g.waste()
        for nm in names:
            g.river()
            g.nodes[-1]["name"] = nm
        g.arc(g.catchment("steady"), "alpha")
        for a, b in edges:
            g.arc(a, o if b == "O" else b)
        NG.set_pollutants("default")
        out.append({"cfg": {"polset": "simple", "dates": g.dates, "nodes": g.nodes, "arcs": g.arcs, "size": "divergent"},
                    "kind": "divergent", "orchestration": None, "builder": "dicts", "shape": f"divergent {len(names)} rivers"})
    return out


# ---------------------------------------------------------------------------
def payload(case):
    p = {"config": NG.cfg_json(case["cfg"]), "case_kind": case["kind"], "orchestration": case.get("orchestration"),
         "builder": case.get("builder", "dicts")}
    if case.get("builder") == "scenario":
        p["base_config"] = NG.cfg_json(case["base_cfg"])
    if case.get("builder") == "instantiated":
        p.update({"inst_nodes": case["inst_nodes"], "inst_arcs": case["inst_arcs"]})
    return p


def evaluate(rep, case, stats, seen):
    bad, order_bad, n, err, info = run_case(case)
    stats["timesteps"] += n
    if err:
        stats["run_errors"] += 1
        stats.setdefault("error_examples", [])
        if len(stats["error_examples"]) < 3:
            stats["error_examples"].append(f"{case['kind']} orchestration={case.get('orchestration')}: {err}"[:300])
        return info
    if order_bad:
        if case["kind"] == "divergent":
            seen.add(SIG_DIV)
            stats["divergent_order_failures"] += 1
        else:
            bad = bad + order_bad
    if bad:
        stats["violations"] += 1
        if stats["violations"] <= MAXV:
            rep.violation("counterexample", f"{PID} monitor: {bad[0]}" + (f" (+{len(bad) - 1} more)" if len(bad) > 1 else "")
                          + f" [{case['kind']}, {case.get('shape', case['cfg'].get('size'))}, builder {case.get('builder', 'dicts')}]", payload(case), True)
    return info


def run(rep, thorough):
    r = C.rng("C16-monitor")
    seen = set()
    stats = {"models": 0, "orchestrations": 0, "custom_orchestrations": 0, "with_repeated_entry": 0, "with_multikey_entry": 0,
             "river_networks": 0, "confluences": 0, "instantiated_builder": 0, "timesteps": 0, "run_errors": 0,
             "divergent_cases": 0, "divergent_order_failures": 0, "violations": 0}
    nmod, norch, nnet = (120, 5, 500) if thorough else (24, 4, 80)
    sizes = ["river", "supply", "land", "full"]
    for i in range(nmod):
        cfg = NG.gen_model(r, ndates=r.choice([3, 4]), size=sizes[i % 4])
        types = {n["name"]: n["type_"] for n in cfg["nodes"]}
        for a in cfg["arcs"]:          # sometimes a river reach with travel time
            if types[a["in_port"]] == "River" and types[a["out_port"]] == "River" and r.random() < 0.25:
                a.update({"type_": "QueueArc", "number_of_timesteps": r.choice([1, 2])})
            # ... or a travel-time arc below a catchment (whose inflow series has zero days: water falls due on a day
            # on which nothing is pushed)
            elif types[a["in_port"]] == "Catchment" and r.random() < 0.5:
                a.update({"type_": "QueueArc", "number_of_timesteps": r.choice([1, 1, 2])})
                # make sure water falls due on a silent day: a wet first day, then a dry one
                d = next(n for n in cfg["nodes"] if n["name"] == a["in_port"])["data_input_dict"]
                d0, d1 = cfg["dates"][0], cfg["dates"][a["number_of_timesteps"]]
                if d[("flow", d0)] == 0:
                    d[("flow", d0)] = type(d[("flow", d0)])(3)
                d[("flow", d1)] = type(d[("flow", d1)])(0)
        rivs = [n["name"] for n in cfg["nodes"] if n["type_"] == "River"]
        eff = [a for a in cfg["arcs"] if types[a["in_port"]] == "WWTW" and types[a["out_port"]] == "River"]
        if eff and len(rivs) >= 2 and random.Random(f"returnflow{i}").random() < 0.7:
            # a return flow: the works discharge into another reach than the generator chose - when that reach lies upstream
            # of the abstraction the model graph has a loop through the rivers (the river / junction / outlet network itself
            # stays acyclic)
            eff[0]["out_port"] = random.Random(f"returnflow-to{i}").choice([x for x in rivs if x != eff[0]["out_port"]])
            stats["return_flows"] = stats.get("return_flows", 0) + 1
        stats["models"] += 1
        for j in range(norch):
            orch = None if j == 0 else gen_orchestration(r)
            cfg_j = cfg
            if j > 0:
                # ... and the arcs listed in another order (the river order must not depend on it; a stream of its own)
                cfg_j = dict(cfg)
                cfg_j["arcs"] = list(cfg["arcs"])
                random.Random(f"arcorder{i}:{j}").shuffle(cfg_j["arcs"])
            case = {"cfg": cfg_j, "kind": "netgen", "orchestration": orch, "builder": "dicts"}
            info = evaluate(rep, case, stats, seen)
            stats["orchestrations"] += 1
            if orch is not None:
                items = [(t, f) for e in orch for t, f in e.items()]
                stats["custom_orchestrations"] += 1
                stats["with_repeated_entry"] += len(set(items)) < len(items)
                stats["with_multikey_entry"] += any(len(e) > 1 for e in orch)
            rep.add_eval(("C16", "netgen", cfg["size"], json.dumps(orch), tuple(info.get("river_order", []))),
                         nontrivial=bool(info.get("flowing")) and bool(info.get("calls_per_step")))
            if i == 0 and j == 1:
                rep.samples.append(f"C16 netgen model size={cfg['size']} ({info.get('nodes')} nodes, {info.get('arcs')} arcs) under custom orchestration "
                                   f"{orch}: {info.get('calls_per_step')} protocol calls per timestep as listed, river order {info.get('river_order')}")
    for i in range(nnet):
        case = gen_rivernet(r, ndates=r.choice([2, 3]))
        if i % 4 == 3:
            # the network is not built in code but loaded as a scenario on top of a saved model of another network (a
            # stream of its own for the other network)
            rb = random.Random(f"c16-scenario-base-{C.seed()}-{i}")
            for _ in range(12):
                base = gen_rivernet(rb, ndates=len(case["cfg"]["dates"]))
                if base["cfg"]["polset"] == case["cfg"]["polset"]:
                    case["builder"], case["base_cfg"] = "scenario", base["cfg"]
                    stats["loaded_as_scenario_over_a_saved_model"] = stats.get("loaded_as_scenario_over_a_saved_model", 0) + 1
                    break
        info = evaluate(rep, case, stats, seen)
        stats["river_networks"] += 1
        outs = Counter(a["out_port"] for a in case["cfg"]["arcs"] if not a["in_port"].startswith("catch"))
        stats["confluences"] += any(v > 1 for v in outs.values())
        stats["instantiated_builder"] += case["builder"] == "instantiated"
        rep.add_eval(("C16", "rivernet", case["shape"], case["builder"], tuple(info.get("river_order", []))), nontrivial=bool(info.get("flowing")))
        if i == 0:
            rep.samples.append(f"C16 river network ({case['shape']}, builder {case['builder']}): arcs "
                               f"{[(a['in_port'], a['out_port']) for a in case['cfg']['arcs']]} discharge order {info.get('river_order')}")
    for i in range(nnet // 2):
        case = gen_returnflow(r, ndates=r.choice([2, 3]))
        info = evaluate(rep, case, stats, seen)
        stats["return_flow_networks"] = stats.get("return_flow_networks", 0) + 1
        rep.add_eval(("C16", "returnflow", case["shape"], case["builder"], tuple(info.get("river_order", []))), nontrivial=bool(info.get("flowing")))
    for case in divergent_cases():
        evaluate(rep, case, stats, seen)
        stats["divergent_cases"] += 1
        rep.add_eval(("C16", "divergent", case["shape"]), nontrivial=True)
    rep.monitor["C16_protocol"] = stats
    if stats["run_errors"]:
        rep.notes.append(f"C16: {stats['run_errors']} run(s) raised and were skipped (totality is C12): {stats.get('error_examples')}")
    return seen


def replay(rep, p):
    """re-run the check on a recorded payload; reports again if it still fails; returns True when it failed"""
    case = {"cfg": NG.cfg_from_json(p["config"]), "kind": p.get("case_kind", "netgen"), "orchestration": p.get("orchestration"),
            "builder": p.get("builder", "dicts"), "inst_nodes": p.get("inst_nodes"), "inst_arcs": p.get("inst_arcs")}
    if p.get("base_config"):
        case["base_cfg"] = NG.cfg_from_json(p["base_config"])
    stats = {"timesteps": 0, "run_errors": 0, "divergent_order_failures": 0, "violations": 0}
    evaluate(rep, case, stats, set())
    return stats["violations"] > 0


if __name__ == "__main__":
    import time
    t0 = time.time()
    if os.environ.get("VERIF_REPLAYS"):       # scratch runs: keep /verif/replays clean
        C.REPLAYS = os.environ["VERIF_REPLAYS"]
    rep = C.Report(PID)
    sigs = run(rep, C.tier() == "thorough")
    print(json.dumps(rep.monitor, indent=1))
    print("known signatures seen:", sorted(sigs))
    for s in rep.samples:
        print("sample:", s[:500])
    for n in rep.notes:
        print("note:", n)
    for v in rep.violations:
        print("VIOLATION", v[1][:700], "->", v[2])
    print(f"evaluations={rep.evaluations} nontrivial={len(rep.nontrivial)} wall={time.time() - t0:.1f}s")
