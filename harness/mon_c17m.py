"""C17 monitor: deposition read from monthly surface forcing (atmospheric and precipitation deposition, land.py
Surface.atmospheric_deposition / precipitation_deposition) under Model.run, for date lists that are NOT contiguous
days: month ends, year ends, the same calendar month in consecutive years, gaps of several months or years.  At every
timestep what each surface declares as deposited (its boundary in-term) must be the value its forcing data give for the
MONTH OF THE TIMESTEP times its area; the oracle reads the configuration, not the node objects.  Float arithmetic,
library default pollutant set (the deposition functions write ammonia / nitrate / phosphate)."""
import contextlib
import io
import random
from fractions import Fraction as F

import pandas as pd

import common as C
import netgen as NG

VARS = [f"{n}-{s}" for n in ("nhx", "noy", "srp") for s in ("dry", "wet")]
POL = {"nhx": "ammonia", "noy": "nitrate", "srp": "phosphate"}


def gen_dates(r):
    kind = r.choice(["yearly", "yearly", "same_month_gap", "month_ends", "daily", "mixed"])
    y0 = r.choice([1999, 2000, 2003])
    m0 = r.randint(1, 12)
    if kind == "yearly":
        # one snapshot per year, same calendar month
        return kind, [f"{y0 + i:04d}-{m0:02d}-{r.randint(1, 28):02d}" for i in range(r.randint(3, 5))]
    if kind == "same_month_gap":
        # a few days in one month, then the same month some years later
        a = [f"{y0:04d}-{m0:02d}-{d:02d}" for d in sorted(r.sample(range(1, 28), 2))]
        g = r.choice([1, 2, 4])
        return kind, a + [f"{y0 + g:04d}-{m0:02d}-{d:02d}" for d in sorted(r.sample(range(1, 28), 2))]
    if kind == "month_ends":
        ds = pd.date_range(f"{y0}-{m0:02d}-27", periods=r.randint(4, 8), freq="D")
        return kind, [str(d.date()) for d in ds]
    if kind == "daily":
        ds = pd.date_range(f"{y0}-12-29", periods=r.randint(3, 6), freq="D")
        return kind, [str(d.date()) for d in ds]
    out = []
    y, m = y0, m0
    for _ in range(r.randint(4, 6)):
        out.append(f"{y:04d}-{m:02d}-{r.randint(1, 28):02d}")
        step = r.choice(["year", "month", "year", "11months", "13months"])
        add = {"year": 12, "month": 1, "11months": 11, "13months": 13}[step]
        k = (y * 12 + (m - 1)) + add
        y, m = k // 12, k % 12 + 1
    return kind, out


def gen_case(r):
    kind, dates = gen_dates(r)
    months = sorted({d[:7] for d in dates})
    g = NG.Gen(r, len(dates), "default", {})
    g.dates = dates
    surfaces = []
    for i in range(r.choice([1, 2, 2])):
        st = r.choice(["ImperviousSurface", "PerviousSurface"])
        have = VARS          # (the library switches both deposition functions on when 'nhx-dry' is in the data: all six series)
        sdata = {(v, mth): F(r.randint(0, 50), 10 ** 6) for v in have for mth in months}
        s = {"type_": st, "surface": f"s{i}", "area": F(r.choice([1, 10, 250])), "data_input_dict": sdata}
        if st == "ImperviousSurface":
            s["pore_depth"] = F(1, 100)
        else:
            s["depth"] = F(1, 2)
        surfaces.append(s)
    var = {}
    for d in dates:
        var[("precipitation", d)] = F(r.randint(0, 30), 1000)
        var[("et0", d)] = F(r.randint(0, 5), 1000)
        var[("temperature", d)] = F(r.randint(2, 20))
    nodes = [{"name": "land", "type_": "Land", "surfaces": surfaces, "data_input_dict": var},
             {"name": "river", "type_": "River", "length": F(200), "width": F(5), "velocity": F(8640), "damp": F(1, 10),
              "data_input_dict": {("temperature", d): F(10) for d in dates}},
             {"name": "gw", "type_": "Groundwater", "capacity": F(1000), "area": F(10)},
             {"name": "out", "type_": "Waste"}]
    arcs = [{"name": "a1", "type_": "Arc", "in_port": "land", "out_port": "river", "capacity": NG.UNBOUNDED},
            {"name": "a2", "type_": "Arc", "in_port": "land", "out_port": "gw", "capacity": NG.UNBOUNDED},
            {"name": "a3", "type_": "Arc", "in_port": "gw", "out_port": "river", "capacity": NG.UNBOUNDED},
            {"name": "a4", "type_": "Arc", "in_port": "river", "out_port": "out", "capacity": NG.UNBOUNDED}]
    return {"polset": "default", "dates": dates, "nodes": nodes, "arcs": arcs, "size": "monthly", "dates_kind": kind}


def check_case(cfg):
    """returns (messages, timesteps, surfaces x timesteps compared)"""
    bad = []
    seen = {}
    compared = 0
    m = NG.build(cfg, "float")
    land = m.nodes["land"]
    for i, sf in enumerate(land.surfaces):
        def mk(orig, key, nm):
            def w():
                out = orig()
                seen[(key, nm)] = dict(out[0])
                return out
            w.__name__ = nm
            return w
        sf.inflows = [mk(f, i, f.__name__) if getattr(f, "__name__", "") in ("atmospheric_deposition", "precipitation_deposition") else f
                      for f in sf.inflows]

    def pre(model, date):
        seen.clear()

    def post(model, date):
        nonlocal compared
        mth = str(date.date())[:7]
        for i, sc in enumerate(cfg["nodes"][0]["surfaces"]):
            for fn, suffix in (("atmospheric_deposition", "dry"), ("precipitation_deposition", "wet")):
                if not any(k[0].endswith(suffix) for k in sc["data_input_dict"]):
                    continue
                got = seen.get((i, fn))
                if got is None:
                    bad.append(f"{date.date()}: surface {sc['surface']} has {suffix} deposition data but {fn} did not run")
                    continue
                compared += 1
                for nut, pol in POL.items():
                    want = float(sc["data_input_dict"][(f"{nut}-{suffix}", mth)] * sc["area"])
                    if abs(float(got[pol]) - want) > 1e-12 * max(1.0, abs(want)):
                        bad.append(f"{date.date()}: surface {sc['surface']} ({sc['type_']}) declares {suffix} deposition of {pol} "
                                   f"{float(got[pol])!r} but the forcing data for {mth} x area give {want!r}")
    m._verif_pre, m._verif_post = pre, post
    with contextlib.redirect_stdout(io.StringIO()):
        try:
            m.run(dates=m.dates, verbose=False)
        finally:
            NG.set_pollutants("default")
    return bad, len(cfg["dates"]), compared


def run(rep, thorough, pid="C17"):
    r = C.rng("c17_monthly")
    n = 300 if thorough else 40
    stats = {"models": 0, "timesteps": 0, "compared": 0, "date_lists": {}, "violations": 0, "raised": 0}
    for i in range(n):
        cfg = gen_case(random.Random(r.getrandbits(48)))
        try:
            bad, steps, compared = check_case(cfg)
        except Exception as ex:
            stats["raised"] += 1
            bad, steps, compared = [f"run over the dates {cfg['dates']} raised {type(ex).__name__}: {ex}"], 0, 0
        stats["models"] += 1
        stats["timesteps"] += steps
        stats["compared"] += compared
        stats["date_lists"][cfg["dates_kind"]] = stats["date_lists"].get(cfg["dates_kind"], 0) + 1
        rep.add_eval(("monthly", i), nontrivial=compared >= 3)
        if bad:
            stats["violations"] += 1
            if stats["violations"] <= 3:
                rep.violation("counterexample", f"{pid} monitor (monthly deposition, dates {cfg['dates_kind']}): {bad[0]}"
                              + (f" (+{len(bad) - 1} more)" if len(bad) > 1 else ""),
                              {"part": "monthly", "config": NG.cfg_json(cfg)}, True)
    rep.monitor[f"{pid}_monthly_deposition"] = stats
    return {}
