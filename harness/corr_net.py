"""Exact correspondence for coq/Net.v: random networks of the real classes Node (junction), Waste, Storage,
Reservoir, Groundwater, River and Catchment joined by plain arcs (chains of junctions, confluences, stores
in both directions, limited capacities, preferences), driven by orchestration calls (distribute, route,
make_abstractions) and direct requests / checks over arcs; every store and every arc record compared
exactly after every operation."""
import contextlib
import io
from fractions import Fraction as F

import common as C
import corr_comp as K
import gens as G
from exnum import EPS, UNBOUNDED, Ex, frac, install_exact

TY = {"Node": 0, "River": 1, "Waste": 2, "Reservoir": 3, "Sewer": 4, "Groundwater": 5, "Storage": 6, "Catchment": 7}
KIND = {"Node": "NJunction", "Waste": "NWaste", "Storage": "NStore", "Reservoir": "NStore", "Groundwater": "NStore",
        "River": "NRiver", "Catchment": "NCatchment"}
FUEL = 40
FORWARD = ("Node", "River")


def gen_net_case(r, maxops, maxnodes=8):
    adds, nons = G.rand_partition(r, 0, 2, 1)
    part = K.Part(adds, nons)
    n = r.randint(3, maxnodes)
    classes = ["Waste"] + [r.choice(["Node", "Node", "River", "River", "Storage", "Reservoir", "Groundwater", "Catchment", "Waste"])
                           for _ in range(n - 1)]
    nodes = []
    for i, cl in enumerate(classes):
        cap = r.choice([F(5), F(10), F(37, 3), F(100)])
        init = G.rand_vqip(r, part.na, part.nn, wet=True)
        if r.random() < 0.5 and init[0] > 0:
            sc = cap * r.choice([F(1, 4), F(1, 2), F(1)])
            init = (sc, [x * sc / init[0] for x in init[1]], init[2])
        nodes.append({"cls": cl, "cap": cap, "init": init, "res": r.choice([F(1), F(2), F(5)]),
                      "len": F(r.choice([100, 200])), "vel": F(r.choice([400, 17280])), "damp": r.choice([F(0), F(1, 10)]),
                      "mrf": r.choice([F(0), F(0), F(2), F(5)]),
                      "flow": r.choice([F(0), F(3), F(10), F(25, 2)]),
                      "conc": [r.choice([F(0), F(1, 100), F(1, 8)]) for _ in adds], "qual": [F(r.randint(2, 20)) for _ in nons]})
    arcs = []
    order = list(range(n))
    for _ in range(r.randint(n - 1, 2 * n)):
        u, v = r.sample(order, 2)
        cu, cv = classes[u], classes[v]
        if cu == "Waste" or cv == "Catchment":
            continue
        # arcs between forwarding nodes (junctions forward checks both ways, rivers look upstream) only "downhill"
        # (towards the lower index): a cycle among them is an unbounded - and exponentially branching - recursion
        # in the implementation (RecursionError after minutes), outside what the model's fuel is meant to cover
        if cu in FORWARD and cv in FORWARD:
            if u < v:
                u, v = v, u
            if any(a["src"] == u and a["dst"] == v for a in arcs):
                continue
            if classes[u] == "Waste" or classes[v] == "Catchment":
                continue
        arcs.append({"src": u, "dst": v, "cap": r.choice([F(2), F(5), F(25, 2), UNBOUNDED, UNBOUNDED]),
                     "pref": r.choice([F(1), F(1), F(2), F(1, 2), F(3)])})
    if not arcs:
        arcs = [{"src": 1, "dst": 0, "cap": UNBOUNDED, "pref": F(1)}] if classes[1] != "Waste" else []
    ops = []
    for _ in range(r.randint(1, maxops)):
        x = r.random()
        i = r.randrange(n)
        cl = classes[i]
        if x < 0.4:
            if cl in ("Storage", "River", "Reservoir"):
                ops.append(("distribute", i))
            elif cl == "Groundwater":
                ops.append(("gwdistribute", i))
            elif cl == "Catchment":
                ops.append(("route", i))
            if cl == "Reservoir" and r.random() < 0.6:
                ops.append(("abstract", i))
        elif x < 0.6 and arcs:
            ops.append(("push", r.randrange(len(arcs)), K.push_amount(r, part, F(10))))
        elif x < 0.75 and arcs:
            ops.append(("pull", r.randrange(len(arcs)), r.choice([G.rand_q(r), F(3), F(8)])))
        elif x < 0.83 and arcs:
            ops.append(("pushcheck", r.randrange(len(arcs)), None if r.random() < 0.5 else G.rand_vqip(r, part.na, part.nn)))
        elif x < 0.9 and arcs:
            ops.append(("pullcheck", r.randrange(len(arcs)), None if r.random() < 0.5 else G.rand_q(r)))
        else:
            ops.append(("end",))
    if not ops:
        ops = [("end",)]
    return {"kind": "net", "cls": "Model", "adds": adds, "nons": nons, "nodes": nodes, "arcs": arcs, "ops": ops}


class NetRun:
    def __init__(self, c):
        from wsimod.arcs import arcs as A
        from wsimod.nodes import storage
        from wsimod.nodes.catchment import Catchment
        from wsimod.nodes.nodes import Node
        from wsimod.nodes.waste import Waste
        self.c = c
        self.part = part = K.Part(c["adds"], c["nons"])
        self.nodes = []
        with contextlib.redirect_stdout(io.StringIO()):
            for i, nd in enumerate(c["nodes"]):
                cl = nd["cls"]
                kw = dict(name=f"n{i}", capacity=Ex(nd["cap"]), area=Ex(10), initial_storage=part.d(nd["init"]))
                if cl == "Node":
                    o = Node(name=f"n{i}")
                elif cl == "Waste":
                    o = Waste(name=f"n{i}")
                elif cl == "Storage":
                    o = storage.Storage(**kw)
                elif cl == "Reservoir":
                    o = storage.Reservoir(**kw)
                elif cl == "Groundwater":
                    o = storage.Groundwater(residence_time=Ex(nd["res"]), **kw)
                elif cl == "River":
                    o = storage.River(name=f"n{i}", length=Ex(nd["len"]), width=Ex(10), velocity=Ex(nd["vel"]), damp=Ex(nd["damp"]),
                                      mrf=Ex(nd["mrf"]), initial_storage=part.d(nd["init"]))
                else:
                    data = {("flow", 0): Ex(nd["flow"])}
                    for k, nm in enumerate(c["adds"]):
                        data[(nm, 0)] = Ex(nd["conc"][k])
                    for k, nm in enumerate(c["nons"]):
                        data[(nm, 0)] = Ex(nd["qual"][k])
                    o = Catchment(name=f"n{i}", data_input_dict=data)
                o.t = 0
                self.nodes.append(o)
            self.arcs = [A.Arc(name=f"a{k}", in_port=self.nodes[a["src"]], out_port=self.nodes[a["dst"]],
                               capacity=Ex(a["cap"]), preference=Ex(a["pref"])) for k, a in enumerate(c["arcs"])]

    def do(self, op):
        p, k = self.part, op[0]
        with contextlib.redirect_stdout(io.StringIO()):
            if k == "distribute":
                self.nodes[op[1]].distribute()
            elif k == "gwdistribute":
                self.nodes[op[1]].distribute()
            elif k == "route":
                self.nodes[op[1]].route()
            elif k == "abstract":
                self.nodes[op[1]].make_abstractions()
            elif k == "push":
                return self.arcs[op[1]].send_push_request(p.d(op[2]))
            elif k == "pull":
                return self.arcs[op[1]].send_pull_request({"volume": Ex(op[2])})
            elif k == "pushcheck":
                return self.arcs[op[1]].send_push_check(None if op[2] is None else p.d(op[2]))
            elif k == "pullcheck":
                return self.arcs[op[1]].send_pull_check(None if op[2] is None else {"volume": Ex(op[2])})
            else:
                for n in self.nodes:
                    n.end_timestep()
                for a in self.arcs:
                    a.end_timestep()
        return None

    def enc(self):
        p = self.part
        zero = p.d((F(0), [F(0)] * p.na, [F(0)] * p.nn))
        out = []
        for n in self.nodes:
            out += p.ev(n.tank.storage if hasattr(n, "tank") else zero)
            out += p.ev(n.unrouted_water if hasattr(n, "unrouted_water") else zero)
        for a in self.arcs:
            out += K.enc_arc_py(p, a)
        return out


def wired(R):
    """what Arc.__init__ establishes and NetLaws.wf states: every arc a node lists as outgoing starts at it, every arc it
    lists as incoming ends at it (and every arc is listed by both of its ends)"""
    ok = True
    for n in R.nodes:
        ok &= all(a.in_port is n for a in n.out_arcs.values()) and all(a.out_port is n for a in n.in_arcs.values())
    for a in R.arcs:
        ok &= a in a.in_port.out_arcs.values() and a in a.out_port.in_arcs.values()
    return ok


def run_net_impl(c):
    R = NetRun(c)
    out = [1 if wired(R) else 0]
    for op in c["ops"]:
        try:
            r = R.do(op)
        except (ZeroDivisionError, RecursionError):
            return out + [-999]
        if r is not None:
            out += R.part.ev(r)
        out += R.enc()
    return out


def net_expr(c):
    from wsimod.core import constants
    na, nn = len(c["adds"]), len(c["nons"])
    outs = {i: [] for i in range(len(c["nodes"]))}
    ins = {i: [] for i in range(len(c["nodes"]))}
    for k, a in enumerate(c["arcs"]):
        outs[a["src"]].append(k)
        ins[a["dst"]].append(k)

    def nl(xs):
        return "[" + "; ".join(f"{x}%nat" for x in xs) + "]"
    nodes = []
    for i, nd in enumerate(c["nodes"]):
        cl = nd["cls"]
        cap = UNBOUNDED if cl == "River" else nd["cap"]
        init = nd["init"] if cl not in ("Node", "Waste", "Catchment") else (F(0), [F(0)] * na, [F(0)] * nn)
        flow = f"(ca_get_flow {C.qlit(nd['flow'])} {C.veclit(nd['conc'])} {C.veclit(nd['qual'])})" if cl == "Catchment" else "vzero"
        nodes.append(f"mkNN {KIND[cl]} {TY[cl]}%nat (t_init {C.qlit(cap)} {C.vlit(init)} [] (2#1)) {nl(outs[i])} {nl(ins[i])} "
                     f"{C.qlit(nd['res'])} {C.qlit(nd['len'])} {C.qlit(nd['vel'])} {C.qlit(nd['damp'])} {C.qlit(nd['mrf'])} vzero {flow}")
    arcs = [f"mkNA (a_init {C.qlit(a['cap'])}) {C.qlit(a['pref'])} {a['src']}%nat {a['dst']}%nat" for a in c["arcs"]]
    ops = []
    for op in c["ops"]:
        k = op[0]
        if k == "distribute":
            ops.append(f"NOrch (ODistribute {op[1]}%nat)")
        elif k == "gwdistribute":
            ops.append(f"NOrch (OGwDistribute {op[1]}%nat)")
        elif k == "route":
            ops.append(f"NOrch (ORoute {op[1]}%nat)")
        elif k == "abstract":
            ops.append(f"NOrch (OAbstract {op[1]}%nat)")
        elif k == "push":
            ops.append(f"NPush {op[1]}%nat {C.vlit(op[2])}")
        elif k == "pull":
            ops.append(f"NPull {op[1]}%nat {C.qlit(op[2])}")
        elif k == "pushcheck":
            ops.append(f"NPushCheck {op[1]}%nat {K.lit_opt_v(op[2])}")
        elif k == "pullcheck":
            ops.append(f"NPullCheck {op[1]}%nat {K.lit_opt_q(op[2])}")
        else:
            ops.append("NEnd")
    return (f"run_net_checked {na} {nn} {int(constants.MAXITER)} {FUEL} (mkNet [{'; '.join(nodes)}] [{'; '.join(arcs)}]) [{'; '.join(ops)}]")


K.FAMILIES["net"] = (gen_net_case, run_net_impl, net_expr)
K.add_imports("Distrib", "Kinds", "Net")
