"""C13 monitor: determinism of Model.run, evaluated directly on the implementation (float mode).

For random well-formed models (netgen, every size; some with travel-time state: QueueArc
river arcs, Sewer pipe_time 1; some with a sender whose neighbours are of two classes):
 (a) rerun       the same config built twice in one process gives bit-identical results;
 (b) chunking    every 2-chunk split (and some 3-chunk splits) of the date list, run as consecutive
                 model.run(dates=chunk) calls on ONE model, gives the single-run result;
 (c) hash seeds  fresh interpreters with different PYTHONHASHSEED give the same digest;
 (d) contamination  a fresh interpreter that first builds and runs ANOTHER model (same pollutant
                 configuration) gives the same digest for the target model.
Known finding (returned as a signature, not reported): Model.assign_upstream iterates over a set of node
names, so river_discharge_order depends on the hash seed - for the dedicated divergent network
("divergent-river-order-hashseed") and, same root cause, for tributaries at equal distance from the outlet
in convergent networks ("confluence-river-order-hashseed"; results then differ in the last bits).  Such a
model is run again under every seed with the river order of the first seed forced: anything that still
differs is a violation."""
import contextlib
import hashlib
import io
import itertools
import json
import os
import random
import subprocess
import sys
import tempfile
import traceback
from concurrent.futures import ThreadPoolExecutor
from fractions import Fraction as F

import common as C
import netgen as NG

PID = "C13"
SIG_DIV = "divergent-river-order-hashseed"
SIG_CONF = "confluence-river-order-hashseed"     # same root cause, rivers at equal distance from the outlet
SIZES = ["river", "supply", "land", "full"]
MAXV = 3


# ---------------------------------------------------------------------------
def canon(res):
    """flows, tanks, surfaces of Model.run as nested lists; every number bit-exactly (float.hex)"""
    def val(x):
        if isinstance(x, bool) or x is None or isinstance(x, str):
            return x
        if isinstance(x, (int, float)):
            return float(x).hex()
        return str(x)
    flows, tanks, _, surfaces = res
    return [[sec] + [[k, val(v)] for k, v in row.items()]
            for sec, rows in (("flow", flows), ("tank", tanks), ("surface", surfaces)) for row in rows]


def digest(rows):
    return hashlib.sha256(json.dumps(rows).encode()).hexdigest()[:20]


def run_once(cfg, chunks=None, order=None):
    """build a fresh float model, run it (whole date list, or the chunks consecutively on the one model);
    returns {"rows", "order", "err"}"""
    out = {"rows": [], "order": None, "err": None}
    try:
        with contextlib.redirect_stdout(io.StringIO()):
            m = NG.build(cfg, "float")
            out["order"] = list(m.river_discharge_order)
            if order is not None:
                m.river_discharge_order = list(order)
            parts = [m.dates] if chunks is None else [m.dates[a:b] for a, b in chunks]
            acc = ([], [], None, [])
            for p in parts:
                res = m.run(dates=p, verbose=False)
                for i in (0, 1, 3):
                    acc[i].extend(res[i])
            out["rows"] = canon(acc)
    except Exception as ex:
        tb = traceback.extract_tb(ex.__traceback__)
        where = [f"{fr.filename.split('/')[-1]}:{fr.lineno}" for fr in tb if "wsimod" in fr.filename][-2:]
        out["err"] = f"{type(ex).__name__}: {ex} at {where}"
    finally:
        NG.set_pollutants("default")
    return out


def stir(cfg):
    """what else may have happened in the process before the model under test is built: another model is built and run,
    parameter overrides of every kind are applied to its components, and it is run again.  Nothing of this may reach a
    model built afterwards.  Errors are ignored (they are other properties' business)."""
    try:
        with contextlib.redirect_stdout(io.StringIO()):
            from wsimod.core import constants
            m = NG.build(cfg, "float")
            m.run(dates=m.dates, verbose=False)
            adds = list(constants.ADDITIVE_POLLUTANTS)
            # ... and default-constructed components of every registered class are overridden as well
            from wsimod.nodes.nodes import NODES_REGISTRY
            zoo = []
            for name, cls in sorted(NODES_REGISTRY.items()):
                try:
                    zoo.append(cls(name="zoo_" + name))
                except Exception:
                    pass
            for node in list(m.nodes.values()) + zoo:
                cls = type(node).__name__
                ovs = []
                if hasattr(node, "process_parameters"):
                    ovs.append({"process_parameters": {x: {"constant": 0.5, "exponent": 1.01} for x in adds},
                                "liquor_multiplier": {"volume": 0.05}, "percent_solids": 0.1})
                if hasattr(node, "pollutant_load"):
                    ovs.append({"pollutant_load": {x: 0.123 for x in adds}})
                if getattr(node, "decays", None):
                    ovs.append({"decays": {x: {"constant": 0.2, "exponent": 1.02} for x in adds[:1]}})
                if hasattr(node, "leakage"):
                    ovs.append({"leakage": 0.05})
                if hasattr(node, "pipe_timearea"):
                    ovs.append({"pipe_timearea": {0: 0.5, 1: 0.5}})
                for o in ovs:
                    try:
                        node.apply_overrides(o)
                    except Exception:
                        pass
                for sf in getattr(node, "surfaces", []) or []:
                    try:
                        sf.apply_overrides({"pollutant_load": {x: 0.01 for x in adds}, "area": 3.0})
                    except Exception:
                        pass
            for arc in m.arcs.values():
                try:
                    arc.apply_overrides({"capacity": 7.0, "preference": 2.0})
                except Exception:
                    pass
            # ... and its orchestration is edited IN PLACE (a step named twice, one moved to the front, one dropped): legal
            # for that model, and none of a later model's business
            try:
                if len(m.orchestration) >= 3:
                    m.orchestration.insert(0, m.orchestration[-2])
                    m.orchestration.append(dict(m.orchestration[2]))
                    del m.orchestration[3]
                    for step in m.orchestration[:2]:
                        step.update({"Waste": "end_timestep"}) if False else None
            except Exception:
                pass
            m.run(dates=m.dates, verbose=False)
    except Exception:
        pass
    finally:
        NG.set_pollutants("default")


def first_diff(a, b):
    if a["err"] != b["err"]:
        return f"error {a['err']!r} vs {b['err']!r}"
    ra, rb = a["rows"], b["rows"]
    if len(ra) != len(rb):
        return f"{len(ra)} result rows vs {len(rb)}"
    for x, y in zip(ra, rb):
        if x != y:
            what = dict(x[1:])
            ident = f"{x[0]} {what.get('arc') or what.get('node')} {what.get('prop') or what.get('surface') or ''} {what.get('time')}"
            for p, q in zip(x[1:], y[1:]):
                if p != q:
                    try:
                        return f"{ident}: {p[0]} = {float.fromhex(p[1])!r} vs {q[0]} = {float.fromhex(q[1])!r}"
                    except (TypeError, ValueError):
                        return f"{ident}: {p} vs {q}"
            return f"{ident}: row layout differs"
    return None


def splits(n, r, thorough):
    """all 2-chunk splits and some (thorough: all) 3-chunk splits of range(n) as lists of (a, b)"""
    two = [[(0, k), (k, n)] for k in range(1, n)]
    three = [[(0, i), (i, j), (j, n)] for i, j in itertools.combinations(range(1, n), 2)]
    if not thorough and len(three) > 3:
        three = r.sample(three, 3)
    return two + three


# ---------------------------------------------------------------------------
def mutate(r, cfg):
    """add travel-time state and senders with neighbours of two classes (never touches the shape of the
    river network proper: no river gets a second downstream route)"""
    types = {n["name"]: n["type_"] for n in cfg["nodes"]}
    k = [0]

    def arc(a, b, cap=None):
        k[0] += 1
        cfg["arcs"].append({"name": f"{a}-{b}-x{k[0]}", "type_": "Arc", "in_port": a, "out_port": b,
                            "capacity": NG.UNBOUNDED if cap is None else cap})
    if r.random() < 0.5:
        # components that rely on the library's default parameters (the place where state shared between
        # instances would live)
        for n in cfg["nodes"]:
            if n["type_"] in ("WWTW", "FWTW", "WTW"):
                for key in ("process_parameters", "liquor_multiplier", "percent_solids"):
                    n.pop(key, None)
    if r.random() < 0.7:
        rr = [a for a in cfg["arcs"] if a["type_"] == "Arc" and types[a["in_port"]] == "River" and types[a["out_port"]] == "River"]
        other = [a for a in cfg["arcs"] if a["type_"] == "Arc" and types[a["in_port"]] in ("River", "Catchment")
                 and types[a["out_port"]] in ("River", "Node", "Waste")]
        pool = rr if rr and r.random() < 0.8 else other
        if pool:
            a = r.choice(pool)
            a["type_"] = "QueueArc"
            a["number_of_timesteps"] = r.choice([1, 2])
    if r.random() < 0.6:
        # a Catchment / Land that sends to a River directly and through a new junction Node (and perhaps
        # to the outlet through a small pipe): receivers of two or three classes
        src = [a for a in cfg["arcs"] if types[a["in_port"]] in ("Catchment", "Land") and types[a["out_port"]] == "River"]
        if src:
            a = r.choice(src)
            j = f"byp{len(cfg['nodes'])}"
            cfg["nodes"].append({"name": j, "type_": "Node"})
            types[j] = "Node"
            arc(a["in_port"], j, r.choice([None, F(6), F(2)]))
            arc(j, a["out_port"])
            if r.random() < 0.5:
                a["capacity"] = r.choice([F(8), F(3)])
            wastes = [n for n, t in types.items() if t == "Waste"]
            if wastes and types[a["in_port"]] == "Catchment" and r.random() < 0.5:
                arc(a["in_port"], wastes[0], F(r.choice([1, 5])))
    return cfg


def divergent_cfg():
    """alpha -> beta -> outlet and alpha -> outlet: a river with two downstream routes of different length"""
    r = random.Random(7)
    NG.set_pollutants("simple")
    g = NG.Gen(r, 5, "simple", {})
    out = g.waste()
    for nm in ("alpha", "beta"):
        g.river()
        g.nodes[-1]["name"] = nm
        g.nodes[-1]["damp"] = F(1, 4)
        g.nodes[-1]["velocity"] = F(400)
    for nm in ("alpha", "beta"):
        c = g.catchment("steady")
        g.arc(c, nm)
    g.arc("alpha", "beta")
    g.arc("beta", out)
    g.arc("alpha", out)
    NG.set_pollutants("default")
    return {"polset": "simple", "dates": g.dates, "nodes": g.nodes, "arcs": g.arcs, "size": "divergent"}


def roundtrip(cfg):
    return NG.cfg_from_json(json.loads(json.dumps(NG.cfg_json(cfg))))


# ---------------------------------------------------------------------------
def worker(argv):
    """--worker target.json other.json|- order-json|- : run other (if given) first, then target (river discharge order
    forced if given); print digest and the river order the model was built with"""
    pre = run_once(NG.cfg_from_json(json.load(open(argv[1])))) if argv[1] != "-" else None
    if pre is not None:
        stir(NG.cfg_from_json(json.load(open(argv[1]))))
    res = run_once(NG.cfg_from_json(json.load(open(argv[0]))), order=json.loads(argv[2]) if argv[2] != "-" else None)
    print("C13RESULT " + json.dumps({"digest": digest([res["rows"], res["err"]]), "order": res["order"], "err": res["err"],
                                     "pre_err": pre["err"] if pre else None, "rows": len(res["rows"])}))


def spawn(job):
    """job = {seed, tgt, other, order} -> result dict of a fresh interpreter"""
    env = dict(os.environ)
    env.update({"PYTHONHASHSEED": str(job["seed"]), "WSIMOD_VERIF": "1", "PYTHONDONTWRITEBYTECODE": "1",
                "PYTHONPATH": C.REPO + os.pathsep + os.path.dirname(os.path.abspath(__file__))})
    cmd = [C.PY, os.path.abspath(__file__), "--worker", job["tgt"], job.get("other") or "-",
           json.dumps(job["order"]) if job.get("order") is not None else "-"]
    try:
        p = subprocess.run(cmd, env=env, stdout=subprocess.PIPE, stderr=subprocess.PIPE, text=True, timeout=600)
    except subprocess.TimeoutExpired:
        return {"digest": "failed: timeout", "order": None, "err": "timeout"}
    for line in p.stdout.splitlines():
        if line.startswith("C13RESULT "):
            return json.loads(line[10:])
    return {"digest": f"failed: rc {p.returncode}", "order": None, "err": p.stderr[-400:]}


def spawn_all(jobs):
    with ThreadPoolExecutor(max_workers=min(16, os.cpu_count() or 4)) as ex:
        return list(ex.map(spawn, jobs))


def process_checks(ctx, cases, tmp):
    """(c) and (d) for cases {cfg, other (cfg or None), seeds, kind, base (in-process result or None)}: all
    sub-processes of a round run in parallel.  Round 1: one fresh interpreter per hash seed, plus one that runs
    `other` first.  Round 2, only for models whose river_discharge_order differs between seeds (the known
    finding): all seeds again with the order of the first seed forced, which must remove every difference."""
    jobs = []
    for i, c in enumerate(cases):
        c["path"] = os.path.join(tmp, f"m{id(cases)}_{i}.json")
        json.dump(NG.cfg_json(c["cfg"]), open(c["path"], "w"))
        jobs += [{"case": i, "seed": s, "tgt": c["path"]} for s in c["seeds"]]
        if c.get("other") is not None:
            json.dump(NG.cfg_json(c["other"]), open(c["path"] + ".other", "w"))
            jobs.append({"case": i, "seed": c["seeds"][0], "tgt": c["path"], "other": c["path"] + ".other"})
    for job, res in zip(jobs, spawn_all(jobs)):
        if job.get("other"):
            cases[job["case"]]["contaminated"] = res
        else:
            cases[job["case"]].setdefault("fresh", {})[job["seed"]] = res
    jobs2 = []
    for i, c in enumerate(cases):
        fr = c["fresh"]
        c["orders"] = {json.dumps(fr[s]["order"]) for s in c["seeds"]}
        c["digests"] = {fr[s]["digest"] for s in c["seeds"]}
        if len(c["orders"]) > 1 and len(c["digests"]) > 1 and not any(d.startswith("failed") for d in c["digests"]):
            jobs2 += [{"case": i, "seed": s, "tgt": c["path"], "order": fr[c["seeds"][0]]["order"]} for s in c["seeds"]]
    for job, res in zip(jobs2, spawn_all(jobs2)):
        cases[job["case"]].setdefault("forced", {})[job["seed"]] = res
    ctx.stats["processes"] += len(jobs) + len(jobs2)
    seen = set()
    for c in cases:
        seen |= judge(ctx, c)
    return seen


def judge(ctx, c):
    cfg, seeds, fr = c["cfg"], c["seeds"], c["fresh"]
    ref = fr[seeds[0]]
    extra = {"check": "process", "seeds": seeds, "case_kind": c["kind"], "other": NG.cfg_json(c["other"]) if c.get("other") else None}
    seen = set()
    for s in seeds:
        if fr[s]["digest"].startswith("failed"):
            ctx.bad(f"fresh interpreter with PYTHONHASHSEED={s} {fr[s]['digest']}: {fr[s]['err']}", cfg, extra)
            return seen
    differ = [s for s in seeds if fr[s]["digest"] != ref["digest"]]
    if len(c["orders"]) > 1:
        # known finding: Model.assign_upstream iterates over a set of node names
        seen.add(SIG_DIV if c["kind"] == "divergent" else SIG_CONF)
        ctx.stats["river_order_depends_on_seed"] += 1
        forced = c.get("forced", {})
        bad = [s for s in seeds if s in forced and forced[s]["digest"] != ref["digest"]]
        if bad:
            ctx.bad(f"results depend on the interpreter process even with the river discharge order fixed to {ref['order']}: "
                    f"PYTHONHASHSEED={bad[0]} gives digest {forced[bad[0]]['digest']}, PYTHONHASHSEED={seeds[0]} gives {ref['digest']} "
                    f"({len(bad)} of {len(seeds)} seeds differ)", cfg, extra)
            return seen
    elif differ:
        s = differ[0]
        ctx.bad(f"results depend on the interpreter process: PYTHONHASHSEED={s} gives digest {fr[s]['digest']}, PYTHONHASHSEED={seeds[0]} "
                f"gives {ref['digest']} (same river order {ref['order']}); {len(differ)} of {len(seeds)} seeds differ from the first", cfg, extra)
        return seen
    base = c.get("base")
    same = [s for s in seeds if base is not None and fr[s]["order"] == base["order"]]
    if same and digest([base["rows"], base["err"]]) != fr[same[0]]["digest"]:
        ctx.bad(f"the result in this process (where {ctx.stats['models']} other models were built and run) has digest "
                f"{digest([base['rows'], base['err']])}, a fresh interpreter gives {fr[same[0]]['digest']} (same river order)", cfg, extra)
    con = c.get("contaminated")
    if con is not None:
        ctx.stats["contamination_pairs"] += 1
        if con["digest"] != ref["digest"]:
            ctx.bad(f"building and running another model first changes the result: digest {con['digest']} instead of {ref['digest']} "
                    f"(both PYTHONHASHSEED={seeds[0]}; the other model {'raised ' + str(con.get('pre_err')) if con.get('pre_err') else 'ran normally'}; "
                    f"{con.get('err') or 'target ran normally'})", cfg, extra)
    return seen


# ---------------------------------------------------------------------------
class Ctx:
    def __init__(self, rep):
        self.rep = rep
        self.nviol = 0
        self.stats = {"models": 0, "sizes": {}, "reruns": 0, "chunkings": 0, "with_queue_arc": 0, "with_pipe_time": 0,
                      "with_two_class_sender": 0, "run_errors": 0, "processes": 0, "hash_seeds": 0,
                      "contamination_pairs": 0, "river_order_depends_on_seed": 0, "violations": 0}

    def bad(self, msg, cfg, extra):
        self.nviol += 1
        self.stats["violations"] = self.nviol
        if self.nviol <= MAXV:
            self.rep.violation("counterexample", f"{PID} monitor: {msg}", {"config": NG.cfg_json(cfg), **extra}, True)


def check_inprocess(ctx, cfg, r, thorough, only=None):
    """(a) and (b); returns the base result"""
    base = run_once(cfg)
    if only in (None, "rerun"):
        again = run_once(cfg)
        ctx.stats["reruns"] += 1
        d = first_diff(base, again)
        if d:
            ctx.bad(f"the same model built and run twice in one process gives different results: {d}", cfg, {"check": "rerun"})
    if base["err"]:
        ctx.stats["run_errors"] += 1
        return base
    for ch in (splits(len(cfg["dates"]), r, thorough) if only is None else [only] if isinstance(only, list) else []):
        res = run_once(cfg, [tuple(x) for x in ch])
        ctx.stats["chunkings"] += 1
        d = first_diff(base, res)
        if d:
            ctx.bad(f"running the dates as consecutive chunks {[cfg['dates'][a] + '..' + cfg['dates'][b - 1] for a, b in ch]} on one model "
                    f"differs from the single run: {d}", cfg, {"check": "chunk", "chunks": [list(x) for x in ch]})
            break
    return base


def crop_calendars(rep, ctx, thorough):
    """(b) over state that is carried for months: land with growing surfaces (crop calendar, nutrient pools; spring- and
    autumn-sown crops whose season wraps over new year) run over 5-10 months that cross year ends - leap years among them -
    as a single call and as 2-4 consecutive calls cut at random days; bit-identical results required"""
    r = C.rng("C13-crop-calendars")
    n = 30 if thorough else 10
    st = {"models": 0, "chunkings": 0, "autumn_sown": 0, "sown_in_a_leap_year": 0, "cut_after_new_year": 0, "timesteps": 0, "run_errors": 0}
    for i in range(n):
        year = [2000, 2003, 2004, 1999, 2000, 2001][i % 6]
        start = f"{year}-{r.choice(['07-20', '08-15', '09-01', '09-20', '09-20', '02-10'])}"
        nd = r.choice([200, 240, 280]) if not thorough else r.choice([200, 280, 330, 400])
        cfg = NG.gen_model(r, ndates=nd, polset="default", size="land", opts={"growing": True, "start": start})
        autumn = r.random() < 0.6
        for nd_ in cfg["nodes"]:
            for sf in nd_.get("surfaces", []):
                if sf["type_"] == "GrowingSurface":
                    if autumn:
                        sf["sowing_day"], sf["harvest_day"] = r.choice([(274, 210), (258, 196), (288, 222)])
                    else:
                        sf["sowing_day"], sf["harvest_day"] = r.choice([(91, 285), (60, 240)])
                    sf["type_"] = r.choice(["GrowingSurface", "GrowingSurface", "IrrigationSurface"])
                    if sf["type_"] == "IrrigationSurface":
                        sf["irrigation_coefficient"] = 0.0      # (nothing to pull irrigation from in these networks)
        cfg = roundtrip(cfg)
        base = run_once(cfg)
        st["models"] += 1
        st["autumn_sown"] += autumn
        st["timesteps"] += nd
        sow = next((sf["sowing_day"] for nd_ in cfg["nodes"] for sf in nd_.get("surfaces", []) if "sowing_day" in sf), None)
        import datetime
        d0 = datetime.date.fromisoformat(cfg["dates"][0])
        sow_dates = [d for d in (d0 + datetime.timedelta(days=k) for k in range(nd)) if sow is not None and d.timetuple().tm_yday == sow]
        leap = any(d.year % 4 == 0 for d in sow_dates)
        st["sown_in_a_leap_year"] += leap
        rep.add_eval(("C13", "crop", start, nd, autumn, i), nontrivial=base["err"] is None)
        if base["err"]:
            st["run_errors"] += 1
            continue
        for k in range(4 if not thorough else 6):
            # cuts anywhere, and one chunking each with a cut in the first and in the last third of the range
            cuts = sorted(r.sample(range(1, nd), r.choice([1, 1, 2, 3])))
            if k == 0:
                cuts = sorted(set(cuts + [r.randint(2 * nd // 3, nd - 1)]))
            elif k == 1:
                cuts = sorted(set(cuts + [r.randint(1, nd // 3)]))
            ch = list(zip([0] + cuts, cuts + [nd]))
            st["cut_after_new_year"] += any(cfg["dates"][c][:4] != cfg["dates"][0][:4] for c in cuts)
            res = run_once(cfg, ch)
            st["chunkings"] += 1
            d = first_diff(base, res)
            if d:
                ctx.bad(f"land with a crop calendar (sowing day {sow}, {'autumn' if autumn else 'spring'}-sown): running "
                        f"{cfg['dates'][0]}..{cfg['dates'][-1]} as consecutive calls cut at {[cfg['dates'][c] for c in cuts]} differs from the single run: {d}",
                        cfg, {"check": "chunk", "chunks": [list(x) for x in ch]})
                break
    rep.monitor["C13_crop_calendars"] = st


def run(rep, thorough):
    r = C.rng("C13-monitor")
    ctx = Ctx(rep)
    nmodels = 60 if thorough else 20
    seeds = list(range(8)) if thorough else [0, 1, 3]
    cases = []
    for i in range(nmodels):
        size = SIZES[i % len(SIZES)]
        cfg = roundtrip(mutate(r, NG.gen_model(r, ndates=r.choice([5, 6, 7]), size=size)))
        other = roundtrip(mutate(r, NG.gen_model(r, ndates=r.choice([3, 5]), polset=cfg["polset"], size=r.choice(SIZES))))
        types = {n["type_"] for n in cfg["nodes"]}
        qa = any(a["type_"] == "QueueArc" for a in cfg["arcs"])
        pt = any(n.get("pipe_time") for n in cfg["nodes"])
        two = any("-x" in a["name"] for a in cfg["arcs"])
        st = ctx.stats
        st["models"] += 1
        st["sizes"][size] = st["sizes"].get(size, 0) + 1
        st["with_queue_arc"] += qa
        st["with_pipe_time"] += pt
        st["with_two_class_sender"] += two
        nch = st["chunkings"]
        base = check_inprocess(ctx, cfg, r, thorough)
        cases.append({"cfg": cfg, "other": other, "seeds": seeds, "kind": "netgen", "base": base})
        rep.add_eval(("C13", size, cfg["polset"], len(cfg["dates"]), qa, pt, two, tuple(sorted(types))),
                     nontrivial=(base["err"] is None and any(float.fromhex(x[2][1]) > 0 for x in base["rows"] if x[0] == "flow")))
        if i < 2:
            rep.samples.append(f"C13 model {i}: size={size} polset={cfg['polset']} {len(cfg['nodes'])} nodes {len(cfg['arcs'])} arcs "
                               f"{len(cfg['dates'])} dates queue_arc={qa} river order {base['order']}: rerun, {st['chunkings'] - nch} chunkings, "
                               f"{len(seeds)} hash seeds, 1 contamination pair")
    div = {"cfg": roundtrip(divergent_cfg()), "other": None, "seeds": list(range(8)), "kind": "divergent", "base": None}
    with tempfile.TemporaryDirectory(prefix="c13_") as tmp:
        seen = process_checks(ctx, cases + [div], tmp)
    crop_calendars(rep, ctx, thorough)
    ctx.stats["hash_seeds"] = len(seeds)
    ctx.stats["divergent"] = {"seeds": len(div["seeds"]), "distinct_river_orders": len(div["orders"]), "distinct_digests": len(div["digests"])}
    rep.add_eval(("C13", "divergent"), nontrivial=True)
    rep.monitor["C13_runs"] = ctx.stats
    if ctx.stats["run_errors"]:
        rep.notes.append(f"C13: {ctx.stats['run_errors']} model(s) raised during the run (compared as results; totality is C12)")
    return seen


def replay(rep, payload):
    """re-run the recorded check; reports a violation again if it still fails; returns True when it failed"""
    ctx = Ctx(rep)
    cfg = NG.cfg_from_json(payload["config"])
    check = payload.get("check", "rerun")
    r = C.rng("C13-replay")
    if check == "rerun":
        check_inprocess(ctx, cfg, r, False, only="rerun")
    elif check == "chunk":
        check_inprocess(ctx, cfg, r, False, only=[list(x) for x in payload["chunks"]])
    else:
        case = {"cfg": cfg, "other": NG.cfg_from_json(payload["other"]) if payload.get("other") else None,
                "seeds": payload.get("seeds") or [0, 1, 3], "kind": payload.get("case_kind", "netgen"), "base": None}
        with tempfile.TemporaryDirectory(prefix="c13_") as tmp:
            process_checks(ctx, [case], tmp)
    return ctx.nviol > 0


if __name__ == "__main__":
    if len(sys.argv) > 1 and sys.argv[1] == "--worker":
        worker(sys.argv[2:])
    else:
        import time
        t0 = time.time()
        if os.environ.get("VERIF_REPLAYS"):       # scratch runs: keep /verif/replays clean
            C.REPLAYS = os.environ["VERIF_REPLAYS"]
        rep = C.Report(PID)
        sigs = run(rep, C.tier() == "thorough")
        print(json.dumps(rep.monitor, indent=1))
        print("known signatures seen:", sorted(sigs))
        for s in rep.samples:
            print("sample:", s)
        for n in rep.notes:
            print("note:", n)
        for v in rep.violations:
            print("VIOLATION", v[1][:600], "->", v[2])
        print(f"evaluations={rep.evaluations} nontrivial={len(rep.nontrivial)} wall={time.time() - t0:.1f}s")
