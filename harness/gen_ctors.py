#!/usr/bin/env python3
"""T3: regenerate coq/gen/GenCtors.v from the tree under test (the tie of the ownership model of
coq/Params.v - construct_copy vs construct_alias - to the source).

For every class of wsimod/{nodes,arcs,core}/*.py and every constructor parameter whose default is a
mutable object (dict / list / set literal or dict() / list() / set() call) an `ast` data-flow of
__init__ decides where the DEFAULT OBJECT ITSELF can end up:
   * `self.X = p`                        -> stored under attribute X (alias); if the statement sits under
                                            `if len(p) > 0` / `if p` and the default literal is empty, the
                                            default cannot flow there and the store is ignored;
   * `self.X = dict(p) | p.copy() | copy.copy(p) | deepcopy(p) | {**p} | list(p) | {.. for .. in p..}`
                                         -> a copy is stored: owned;
   * `super().__init__(k=p)`, `Base.__init__(self, p)`, `Other(k=p)`
                                         -> forwarded: wherever parameter k of that constructor ends up
                                            (resolved recursively through the class table; an unresolvable
                                            callee counts as an alias under the keyword name);
   * anything else that passes the bare name on (return, container literal, other call) -> alias under '?'.
Read-only uses (len, in, iteration, subscript reads, .items()/.keys()/.values()/.get()) do not move it.

Independently, the set of attribute names that are MUTATED IN PLACE anywhere in wsimod outside
__init__ is collected:  <expr>.X.update/append/extend/pop/clear/setdefault/insert/remove(...),
<expr>.X[...] = ..., <expr>.X[...] op= ..., <expr>.X[...]. ... .update(...), del <expr>.X[...].

A mutation site is qualified by whose attribute it changes:
   * `self.X. ...` in a method of class C changes X of instances of C and of its subclasses: it concerns the
     constructor rows of every class related to C by inheritance (either direction);
   * `self.other.X. ...` in class C changes X of whatever `self.other = K(...)` constructs (assignments in C and
     its bases): if that call does not pass X, it concerns the rows of K and its base classes; if it passes the
     bare name of a parameter q of the enclosing constructor, it concerns row (C, q); if it passes anything
     else (a copy, a fresh object), nobody's default is reached;
   * any other receiver concerns every row.
Row: (class, parameter, owned) with owned = no attribute the default object can be stored under is
mutated in place by a site that concerns the row.  Fail closed: any file that does not parse, any class table clash -> exit 1.

usage: gen_ctors.py <repo> <coq/gen dir> <work dir>"""
import ast
import json
import os
import sys

repo, gendir, work = sys.argv[1], sys.argv[2], sys.argv[3]
MUTATORS = {"update", "append", "extend", "pop", "clear", "setdefault", "insert", "remove", "popitem", "add", "discard"}
COPIERS = {"dict", "list", "set", "copy", "deepcopy", "OrderedDict", "tuple", "frozenset"}
READERS = {"len", "sorted", "sum", "min", "max", "any", "all", "enumerate", "iter", "isinstance", "print", "str", "repr", "bool"}


def files():
    out = []
    for sub in ("nodes", "arcs", "core", "orchestration"):
        d = os.path.join(repo, "wsimod", sub)
        if not os.path.isdir(d):
            continue
        for fn in sorted(os.listdir(d)):
            if fn.endswith(".py"):
                out.append(os.path.join(d, fn))
    return out


def base_attr(node):
    """the attribute name X of `<expr>.X`, looking through subscripts: a.X[k][j] -> X"""
    while isinstance(node, ast.Subscript):
        node = node.value
    if isinstance(node, ast.Attribute):
        return node.attr
    return None


def receiver_path(node):
    """for `<recv>.X` (through subscripts): (path from self, X) - path None when the receiver is not rooted at self"""
    while isinstance(node, ast.Subscript):
        node = node.value
    if not isinstance(node, ast.Attribute):
        return None, None
    attr, recv, path = node.attr, node.value, []
    while isinstance(recv, (ast.Attribute, ast.Subscript)):
        if isinstance(recv, ast.Attribute):
            path.insert(0, recv.attr)
        recv = recv.value
    if isinstance(recv, ast.Name) and recv.id == "self":
        return path, attr
    return None, attr


def mutation_sites(trees):
    """[(class or None, path or None, attr, where)] for every in-place mutation outside __init__"""
    sites = []
    for path, tree in trees:
        ctx = {}
        for cls in [n for n in ast.walk(tree) if isinstance(n, ast.ClassDef)]:
            for fn in [n for n in cls.body if isinstance(n, (ast.FunctionDef, ast.AsyncFunctionDef))]:
                for sub in ast.walk(fn):
                    ctx[id(sub)] = cls.name
        for fn in [n for n in ast.walk(tree) if isinstance(n, (ast.FunctionDef, ast.AsyncFunctionDef))]:
            if fn.name == "__init__":
                continue
            for n in ast.walk(fn):
                hits = []
                if isinstance(n, ast.Call) and isinstance(n.func, ast.Attribute) and n.func.attr in MUTATORS:
                    hits.append(n.func.value)
                elif isinstance(n, (ast.Assign, ast.AugAssign, ast.Delete)):
                    targets = n.targets if isinstance(n, (ast.Assign, ast.Delete)) else [n.target]
                    hits += [t for t in targets if isinstance(t, ast.Subscript)]
                for h in hits:
                    rp, attr = receiver_path(h)
                    if attr:
                        sites.append((ctx.get(id(n)), rp, attr, f"{os.path.basename(path)}:{n.lineno}"))
    return sites


def is_mutable_default(d):
    if isinstance(d, (ast.Dict, ast.List, ast.Set, ast.DictComp, ast.ListComp, ast.SetComp)):
        return True
    return isinstance(d, ast.Call) and isinstance(d.func, ast.Name) and d.func.id in ("dict", "list", "set")


def default_is_empty(d):
    if isinstance(d, ast.Dict):
        return not d.keys
    if isinstance(d, (ast.List, ast.Set)):
        return not d.elts
    if isinstance(d, ast.Call):
        return not d.args and not d.keywords
    return False


def params_of(fn):
    a = fn.args
    names = [x.arg for x in a.posonlyargs + a.args]
    defaults = dict(zip(names[len(names) - len(a.defaults):], a.defaults))
    for x, d in zip(a.kwonlyargs, a.kw_defaults):
        names.append(x.arg)
        if d is not None:
            defaults[x.arg] = d
    return names, defaults


def guard_excludes_empty(test, p):
    """`if len(p) > 0`, `if len(p)`, `if p`, `if p != {}`"""
    if isinstance(test, ast.Name) and test.id == p:
        return True
    if isinstance(test, ast.Call) and isinstance(test.func, ast.Name) and test.func.id == "len" and test.args \
            and isinstance(test.args[0], ast.Name) and test.args[0].id == p:
        return True
    if isinstance(test, ast.Compare) and len(test.ops) == 1:
        l, r = test.left, test.comparators[0]
        if isinstance(l, ast.Call) and isinstance(l.func, ast.Name) and l.func.id == "len" and l.args \
                and isinstance(l.args[0], ast.Name) and l.args[0].id == p and isinstance(test.ops[0], (ast.Gt, ast.NotEq)) \
                and isinstance(r, ast.Constant) and r.value == 0:
            return True
    return False


class Flow(ast.NodeVisitor):
    """where the bare name p goes inside one __init__"""

    def __init__(self, p, empty_default):
        self.p, self.empty = p, empty_default
        self.alias, self.forward, self.copied = [], [], []
        self.guarded = 0
        self.dead = False         # the parameter name was rebound at the top level of __init__

    def is_p(self, n):
        return not self.dead and isinstance(n, ast.Name) and n.id == self.p

    def visit_If(self, n):
        if self.empty and guard_excludes_empty(n.test, self.p):
            self.guarded += 1
            for s in n.body:
                self.visit(s)
            self.guarded -= 1
            for s in n.orelse:
                self.visit(s)
        else:
            self.generic_visit(n)

    def visit_Assign(self, n):
        if self.is_p(n.value):
            for t in n.targets:
                if isinstance(t, ast.Attribute):
                    if not self.guarded:
                        self.alias.append(t.attr)
                elif isinstance(t, ast.Name):
                    self.alias.append("?local:" + t.id)
                else:
                    self.alias.append("?")
            return
        self.generic_visit(n)

    def visit_Call(self, n):
        f = n.func
        fname = f.id if isinstance(f, ast.Name) else (f.attr if isinstance(f, ast.Attribute) else None)
        passes = [(i, None) for i, a in enumerate(n.args) if self.is_p(a)] + [(None, k.arg) for k in n.keywords if self.is_p(k.value)]
        if passes:
            if fname in COPIERS:
                self.copied.append(fname)
            elif fname in READERS:
                pass
            elif not self.guarded:
                for pos, kw in passes:
                    self.forward.append((ast.unparse(f), pos, kw))
        # p.copy() / p.items() ...: receiver uses
        if isinstance(f, ast.Attribute) and self.is_p(f.value):
            if f.attr == "copy":
                self.copied.append("copy")
            elif f.attr in MUTATORS and not self.guarded:
                self.alias.append("?mutated-in-init")
        for a in n.args:
            if not self.is_p(a):
                self.visit(a)
        for k in n.keywords:
            if not self.is_p(k.value):
                self.visit(k.value)
        if not (isinstance(f, ast.Attribute) and self.is_p(f.value)):
            self.visit(f)

    def visit_Return(self, n):
        if n.value is not None and self.is_p(n.value):
            self.alias.append("?returned")
        self.generic_visit(n)

    def visit_Dict(self, n):
        # {**p} copies; {k: p} stores the object
        for k, v in zip(n.keys, n.values):
            if k is None and self.is_p(v):
                self.copied.append("{**}")
            elif self.is_p(v) and not self.guarded:
                self.alias.append("?container")
            else:
                self.visit(v)

    def visit_List(self, n):
        for e in n.elts:
            if self.is_p(e) and not self.guarded:
                self.alias.append("?container")
            else:
                self.visit(e)


def main():
    trees = []
    for path in files():
        try:
            trees.append((path, ast.parse(open(path).read())))
        except SyntaxError as ex:
            print(f"gen_ctors: cannot parse {path}: {ex}")
            return 1
    sites = mutation_sites(trees)
    classes = {}
    for path, tree in trees:
        for cls in [n for n in tree.body if isinstance(n, ast.ClassDef)]:
            if cls.name in classes:
                print(f"gen_ctors: class {cls.name} defined twice")
                return 1
            init = next((n for n in cls.body if isinstance(n, ast.FunctionDef) and n.name == "__init__"), None)
            classes[cls.name] = {"file": os.path.basename(path), "bases": [ast.unparse(b).split(".")[-1] for b in cls.bases], "init": init,
                                  "node": cls}

    def init_of(name, seen=()):
        """the __init__ that constructing `name` runs (first along the bases)"""
        c = classes.get(name)
        if c is None or name in seen:
            return None, None
        if c["init"] is not None:
            return name, c["init"]
        for b in c["bases"]:
            r = init_of(b, seen + (name,))
            if r[1] is not None:
                return r
        return None, None

    memo = {}

    def stored_under(cname, p, depth=0):
        """attribute names the object passed as parameter p of cname's constructor can be stored under"""
        key = (cname, p)
        if key in memo:
            return memo[key]
        memo[key] = set()
        owner, init = init_of(cname)
        if init is None or depth > 8:
            memo[key] = {"?unresolved:" + cname}
            return memo[key]
        names, defaults = params_of(init)
        if p not in names:
            # swallowed by **kwargs: follow super().__init__(**kwargs) to the bases
            out = set()
            if init.args.kwarg is not None:
                for b in classes[owner]["bases"]:
                    out |= stored_under(b, p, depth + 1) if b in classes else set()
            memo[key] = out
            return out
        fl = Flow(p, p in defaults and default_is_empty(defaults[p]))
        for st in init.body:
            fl.visit(st)
            if isinstance(st, ast.Assign) and any(isinstance(t, ast.Name) and t.id == p for t in st.targets) \
                    and not (isinstance(st.value, ast.Name) and st.value.id == p):
                fl.dead = True
        out = set(fl.alias)
        for fexpr, pos, kw in fl.forward:
            target = None
            parts = fexpr.replace("()", "").split(".")
            if fexpr.startswith("super().__init__"):
                cands = classes[owner]["bases"]
            elif parts[-1] == "__init__" and len(parts) >= 2:
                cands = [parts[-2]]
            else:
                cands = [parts[-1]]
            for cand in cands:
                o2, i2 = init_of(cand)
                if i2 is None:
                    continue
                n2, _ = params_of(i2)
                k2 = kw
                if k2 is None:
                    off = 1 if parts[-1] == "__init__" and not fexpr.startswith("super()") else 0   # Base.__init__(self, p)
                    idx = pos - off + 1      # n2[0] is self
                    k2 = n2[idx] if 0 <= idx < len(n2) else None
                if k2 is not None and (k2 in n2 or i2.args.kwarg is not None):
                    target = (cand, k2)
                    break
            if target is None:
                out.add("?forwarded:" + fexpr)
            else:
                out |= stored_under(target[0], target[1], depth + 1)
        memo[key] = out
        return out

    def ancestors(name, acc=None):
        acc = set() if acc is None else acc
        for b in classes.get(name, {"bases": []})["bases"]:
            if b not in acc:
                acc.add(b)
                ancestors(b, acc)
        return acc

    def related(a, b):
        return a == b or a in ancestors(b) or b in ancestors(a)

    def assigned_ctor_calls(cname, attr):
        """calls K(...) assigned to self.<attr> anywhere in class cname or its bases: [(class of the assignment, K, call)]"""
        out = []
        for cn in [cname] + sorted(ancestors(cname)):
            c = classes.get(cn)
            if c is None:
                continue
            for n in ast.walk(c["node"]):
                if isinstance(n, ast.Assign) and isinstance(n.value, ast.Call) and any(
                        isinstance(t, ast.Attribute) and t.attr == attr and isinstance(t.value, ast.Name) and t.value.id == "self"
                        for t in n.targets):
                    f = n.value.func
                    k = f.id if isinstance(f, ast.Name) else (f.attr if isinstance(f, ast.Attribute) else None)
                    out.append((cn, k, n.value))
        return out

    # marks: ("family", C, X) | ("instance-of", K, X) | ("param", C, q) | ("any", None, X)
    marks = []
    for cls_ctx, rp, attr, where in sites:
        if cls_ctx is None or rp is None or len(rp) > 1:
            marks.append(("any", None, attr, where))
        elif not rp:
            marks.append(("family", cls_ctx, attr, where))
        else:
            calls = assigned_ctor_calls(cls_ctx, rp[0])
            if not calls:
                marks.append(("any", None, attr, where))
            for owner, k, call in calls:
                if k not in classes:
                    marks.append(("any", None, attr, where))
                    continue
                kw = next((x for x in call.keywords if x.arg == attr), None)
                if kw is None:
                    if any(x.arg is None for x in call.keywords) or call.args:
                        marks.append(("any", None, attr, where))      # *args / **kwargs / positional: cannot tell
                    marks.append(("instance-of", k, attr, where))
                elif isinstance(kw.value, ast.Name):
                    marks.append(("param", owner, kw.value.id, where))
                # anything else: a fresh object or a copy is passed - nobody's default is reached

    def concerned(mark, row_class, row_param, under):
        kind, c, x, _ = mark
        if kind == "param":
            return c == row_class and x == row_param
        if x not in under:
            return False
        if kind == "any":
            return True
        if kind == "family":
            return related(c, row_class)
        return row_class == c or row_class in ancestors(c)

    rows = []
    for cname, c in sorted(classes.items()):
        if c["init"] is None:
            continue
        names, defaults = params_of(c["init"])
        for p, d in defaults.items():
            if not is_mutable_default(d):
                continue
            under = sorted(stored_under(cname, p))
            hit = sorted({m[3] + " " + m[0] for m in marks if concerned(m, cname, p, under)})
            bad = [u for u in under if u.startswith("?")] + hit
            rows.append({"class": cname, "file": c["file"], "param": p, "stored_under": under, "mutation_sites": hit, "owned": not bad})
    lines = ["(* GENERATED by harness/gen_ctors.py from the tree under test - do not edit. *)",
             "From Coq Require Import String List Bool.", "Import ListNotations.", "Open Scope string_scope.", "",
             "(* (class, constructor parameter with a mutable default, the default object can never be reached by an in-place update) *)",
             "Definition ctor_dicts : list (string * string * bool) := ["]
    lines.append(";\n".join(f'  ("{r["class"]}", "{r["param"]}", {"true" if r["owned"] else "false"})' for r in rows))
    lines += ["].", ""]
    text = "\n".join(lines) + "\n"
    path = os.path.join(gendir, "GenCtors.v")
    old = open(path).read() if os.path.exists(path) else None
    if old != text:
        open(path, "w").write(text)
    json.dump({"rows": rows, "mutation_marks": [list(m) for m in marks]}, open(os.path.join(work, "gen_ctors.json"), "w"), indent=1)
    print(f"constructor parameters with mutable defaults: {len(rows)}, not owned: {[r['class'] + '.' + r['param'] for r in rows if not r['owned']]}")
    return 0


if __name__ == "__main__":
    sys.exit(main())
