"""Exact correspondence for coq/Wtw.v: the real WWTW (treatment step, throughput limit, stormwater tank, sewer push
check / push set, calculate_discharge, make_discharge over a star of receivers, reuse pulls, close-out, apply_overrides
on a works that has been used).  After every operation: current input, treated water, liquor (and its lagged copy),
solids, the stormwater tank and every arc record and neighbour state."""
import contextlib
import io
import random
from fractions import Fraction as F

import common as C
import corr_comp as K
import corr_kinds as KD
import gens as G
from exnum import Ex, frac


def gen_params(r, adds):
    pp = [(r.choice([F(1, 100), F(1, 2), F(9, 10)]), r.choice([F(1), F(1001, 1000), F(11, 10)])) for _ in adds]
    lm = [r.choice([F(7, 10), F(1, 10), F(0)]) for _ in adds]
    for i in range(len(adds)):
        if pp[i][0] * F(3) + lm[i] > 1 and r.random() < 0.7:
            lm[i] = F(0)
    return {"cap": F(r.choice([3, 10, 50])), "ps": r.choice([F(1, 5000), F(1, 100), F(0)]), "lmvol": r.choice([F(3, 100), F(1, 10), F(0)]),
            "lm": lm, "const": [x[0] for x in pp], "expo": [x[1] for x in pp], "tcap": F(r.choice([0, 5, 20]))}


def gen_case(r, maxops):
    adds = r.sample(["phosphate", "ammonia", "solids", "salt"], r.randint(0, 2))
    nons = ["temperature"] + r.sample(["ph", "do"], r.randint(0, 1))
    part = K.Part(adds, nons)
    c = {"kind": "wtw", "cls": "WWTW", "adds": adds, "nons": nons, "p": gen_params(r, adds),
         "outs": KD.gen_star(r, part, r.choice([0, 1, 1, 2]), [1, 1, 2, 0])}
    if r.random() < 0.45:
        return gen_fwtw(r, c, part, maxops)
    ops = []
    for _ in range(r.randint(1, maxops)):
        x = r.random()
        if x < 0.3:
            v = G.rand_vqip(r, part.na, part.nn, wet=True)
            v = (v[0], v[1], [F(r.randint(2, 25))] + list(v[2][1:]))
            ops.append(("push", v))
        elif x < 0.42:
            ops.append(("pushcheck", None if r.random() < 0.5 else G.rand_vqip(r, part.na, part.nn)))
        elif x < 0.6:
            ops.append(("calc",))
        elif x < 0.72:
            ops.append(("make",))
        elif x < 0.78:
            ops.append(("pull", r.choice([G.rand_q(r), F(1), F(4)])))
        elif x < 0.82:
            ops.append(("pullcheck",))
        elif x < 0.94:
            ops.append(("end",))
        elif ops:
            ops.append(("override", gen_params(r, adds)))
    # what the works answers to a check in the states only a history reaches: a stormwater tank above its (lowered)
    # capacity, effluent parked in it because the outfall was blocked
    rq = random.Random(r.random())
    out = []
    for op in ops:
        out.append(op)
        if (op[0] == "override" and rq.random() < 0.8) or (op[0] in ("make", "push") and rq.random() < 0.3):
            out.append(("pushcheck", None if rq.random() < 0.5 else G.rand_vqip(rq, part.na, part.nn)))
    c["ops"] = out or [("calc",)]
    return c


def gen_fwtw(r, c, part, maxops):
    """a FWTW: service reservoir, suppliers on the in-arcs, sewers (and other receivers) on the out-arcs"""
    c["cls"] = "FWTW"
    c["ins"] = KD.gen_star(r, part, r.choice([0, 1, 1, 2]), [3, 3, 1, 5])
    c["outs"] = KD.gen_star(r, part, r.choice([0, 1, 1, 2]), [4, 4, 0])
    c["p"]["tcap"] = F(r.choice([5, 20, 40]))
    init = G.rand_vqip(r, part.na, part.nn, wet=True)
    sc = c["p"]["tcap"] * r.choice([F(0), F(1, 2), F(1)])
    c["init"] = (sc, [x * sc / init[0] for x in init[1]] if init[0] > 0 else [F(0)] * part.na, [F(r.randint(2, 25))] + list(init[2][1:]))
    ops = []
    for _ in range(r.randint(1, maxops)):
        x = r.random()
        if x < 0.4:
            ops.append(("treat",))
        elif x < 0.62:
            ops.append(("pull", r.choice([G.rand_q(r), F(1), F(4), F(15)])))
        elif x < 0.72:
            ops.append(("pullcheck", None if r.random() < 0.5 else G.rand_q(r)))
        elif x < 0.92:
            ops.append(("end",))
        elif ops:
            q = gen_params(r, c["adds"])
            q["tcap"] = F(r.choice([5, 20, 40]))
            ops.append(("override", q))
    c["ops"] = ops or [("treat",)]
    return c


def pdicts(c, p):
    pp = {n: {"constant": Ex(a), "exponent": Ex(b)} for n, a, b in zip(c["adds"], p["const"], p["expo"])}
    lm = {n: Ex(x) for n, x in zip(c["adds"], p["lm"])}
    lm["volume"] = Ex(p["lmvol"])
    return pp, lm


class Run:
    def __init__(self, c):
        from wsimod.arcs import arcs
        from wsimod.nodes.wtw import WWTW
        self.c = c
        self.part = part = K.Part(c["adds"], c["nons"])
        p = c["p"]
        pp, lm = pdicts(c, p)
        self.fw = c["cls"] == "FWTW"
        with contextlib.redirect_stdout(io.StringIO()):
            if self.fw:
                from wsimod.nodes.wtw import FWTW
                self.hub = FWTW(name="hub", treatment_throughput_capacity=Ex(p["cap"]), service_reservoir_storage_capacity=Ex(p["tcap"]),
                                service_reservoir_initial_storage=part.d(c["init"]),
                                process_parameters=pp, liquor_multiplier=lm, percent_solids=Ex(p["ps"]))
            else:
                self.hub = WWTW(name="hub", treatment_throughput_capacity=Ex(p["cap"]), stormwater_storage_capacity=Ex(p["tcap"]),
                                process_parameters=pp, liquor_multiplier=lm, percent_solids=Ex(p["ps"]))
        self.hub.t = 0
        self.ins = []
        for i, a in enumerate(c.get("ins", [])):
            nb = KD.FAKE[a["ty"]](f"i{i}", part, a["nb"])
            self.ins.append((arcs.Arc(name=f"ai{i}", in_port=nb, out_port=self.hub, capacity=Ex(a["cap"]), preference=Ex(a["pref"])), nb))
        self.outs = []
        for i, a in enumerate(c["outs"]):
            nb = KD.FAKE[a["ty"]](f"o{i}", part, a["nb"])
            self.outs.append((arcs.Arc(name=f"ao{i}", in_port=self.hub, out_port=nb, capacity=Ex(a["cap"]), preference=Ex(a["pref"])), nb))

    def do(self, op):
        p, h, k = self.part, self.hub, op[0]
        with contextlib.redirect_stdout(io.StringIO()):
            if k == "push":
                return h.push_set(p.d(op[1]))
            if k == "pushcheck":
                return h.push_check(None if op[1] is None else p.d(op[1]))
            if k == "pull":
                return h.pull_set({"volume": Ex(op[1])})
            if k == "pullcheck":
                if self.fw:
                    return h.pull_check(None if op[1] is None else {"volume": Ex(op[1])})
                return h.pull_check()
            if k == "treat":
                h.treat_water()
                return None
            if k == "calc":
                h.calculate_discharge()
            elif k == "make":
                h.make_discharge()
            elif k == "end":
                h.end_timestep()
                for arc, nb in self.outs + self.ins:
                    arc.end_timestep()
            elif k == "override":
                q = op[1]
                pp, lm = pdicts(self.c, q)
                h.apply_overrides({"treatment_throughput_capacity": Ex(q["cap"]), "percent_solids": Ex(q["ps"]), "liquor_multiplier": lm,
                                   "process_parameters": pp,
                                   ("service_reservoir_storage_capacity" if self.fw else "stormwater_storage_capacity"): Ex(q["tcap"])})
        return None

    def enc(self):
        p, h = self.part, self.hub
        zero = p.d((F(0), [F(0)] * p.na, [F(0)] * p.nn))
        if self.fw:
            out = (p.ev(h.current_input) + p.ev(h.treated) + p.ev(h.liquor) + p.ev(h.solids) + p.ev(h.total_deficit) + p.ev(h.total_pulled)
                   + p.ev(h.previous_pulled) + p.ev(h.unpushed_sludge))
            t = h.service_reservoir_tank
            out += p.ev(t.storage) + p.ev(t.storage_) + p.ev(zero)
            for arc, nb in self.ins:
                out += K.enc_arc_py(p, arc) + nb.fk.enc() + [0]
            for arc, nb in self.outs:
                out += K.enc_arc_py(p, arc) + [0] + nb.fk.enc()
            return out
        out = p.ev(h.current_input) + p.ev(h.treated) + p.ev(h.liquor) + p.ev(h.liquor_) + p.ev(h.solids)
        out += p.ev(h.stormwater_tank.storage) + p.ev(h.stormwater_tank.storage_) + p.ev(zero)
        for arc, nb in self.outs:
            out += K.enc_arc_py(p, arc) + [0] + nb.fk.enc()
        return out


def run_impl(c):
    R = Run(c)
    out = []
    for op in c["ops"]:
        try:
            r = R.do(op)
        except ZeroDivisionError:
            return out + [-999]
        if r is not None:
            out += R.part.ev(r)
        out += R.enc()
    return out


def lit_params(p):
    return (f"(mkWP {C.qlit(p['cap'])} {C.qlit(p['ps'])} {C.qlit(p['lmvol'])} {C.veclit(p['lm'])} {C.veclit(p['const'])} {C.veclit(p['expo'])})")


def expr_fwtw(c):
    from wsimod.core import constants
    ops = []
    for op in c["ops"]:
        k = op[0]
        if k == "treat":
            ops.append("FTreat")
        elif k == "pull":
            ops.append(f"FPullSet {C.qlit(op[1])}")
        elif k == "pullcheck":
            ops.append(f"FPullCheck {K.lit_opt_q(op[1])}")
        elif k == "end":
            ops.append("FEnd (20#1)")
        else:
            ops.append(f"FOverride {lit_params(op[1])} {C.qlit(op[1]['tcap'])}")
    na, nn = len(c["adds"]), len(c["nons"])
    zero = "(mkV 0 [] [])"
    tank = f"(t_init {C.qlit(c['p']['tcap'])} {C.vlit(c['init'])} [] (2#1))"
    f = (f"(mkFW _ {lit_params(c['p'])} {zero} {zero} {zero} {zero} {zero} {zero} {zero} {zero} {tank} "
         f"{KD.star_lit(c['ins'], False)} {KD.star_lit(c['outs'], True)})")
    return f"run_fwtw {na} {nn} {int(constants.MAXITER)} {f} [{'; '.join(ops)}]"


def expr(c):
    from wsimod.core import constants
    if c["cls"] == "FWTW":
        return expr_fwtw(c)
    ops = []
    for op in c["ops"]:
        k = op[0]
        if k == "push":
            ops.append(f"WwPushSet {C.vlit(op[1])}")
        elif k == "pushcheck":
            ops.append(f"WwPushCheck {K.lit_opt_v(op[1])}")
        elif k == "pull":
            ops.append(f"WwPullSet {C.qlit(op[1])}")
        elif k == "pullcheck":
            ops.append("WwPullCheck")
        elif k == "calc":
            ops.append("WwCalc")
        elif k == "make":
            ops.append("WwMake")
        elif k == "end":
            ops.append("WwEnd (20#1)")
        else:
            ops.append(f"WwOverride {lit_params(op[1])} {C.qlit(op[1]['tcap'])}")
    na, nn = len(c["adds"]), len(c["nons"])
    zero = "(mkV 0 [] [])"
    tank = f"(t_init {C.qlit(c['p']['tcap'])} {zero} [] (2#1))"
    w = f"(mkWW _ {lit_params(c['p'])} {zero} {zero} {zero} {zero} {zero} {zero} {tank} {KD.star_lit(c['outs'], True)})"
    return f"run_wwtw {na} {nn} {int(constants.MAXITER)} {w} [{'; '.join(ops)}]"


K.FAMILIES["wtw"] = (gen_case, run_impl, expr)
K.add_imports("Distrib", "Kinds", "Wtw")


def monitor_nonneg(rep, pid, n):
    """C06 on the works themselves: after every operation of fresh histories no reply, no store and no account of a
    WWTW / FWTW is negative (exact runs)"""
    from exnum import install_exact
    r = C.rng("mon_wtw")
    stats = {"cases": 0, "ops": 0, "violations": 0}
    def wellformed(q):
        # solids = influent - effluent - liquor must stay non-negative: constant x exponent^(20 - T) + liquor multiplier <= 1
        # (temperatures here are >= 2: with exponents up to 1.001 the factor stays below 1.02)
        q["expo"] = [min(e, F(1001, 1000)) for e in q["expo"]]
        q["lm"] = [(x if a * F(102, 100) + x <= 1 else F(0)) for a, x in zip(q["const"], q["lm"])]
        if q["lmvol"] == 0:
            q["lm"] = [F(0) for _ in q["lm"]]          # (liquor that carries mass carries water)
    for ci in range(n):
        c = gen_case(r, 10)
        wellformed(c["p"])
        for op in c["ops"]:
            if op[0] == "override":
                wellformed(op[1])
        install_exact()
        G.set_partition(c["adds"], c["nons"])
        try:
            C.arm(20)
            R = Run(c)
            for i, op in enumerate(c["ops"]):
                try:
                    rv = R.do(op)
                except ZeroDivisionError:
                    break
                stats["ops"] += 1
                h = R.hub
                seen = {"reply to " + op[0]: rv} if rv is not None else {}
                for nm in ("current_input", "treated", "liquor", "solids", "total_deficit", "total_pulled", "unpushed_sludge"):
                    if hasattr(h, nm):
                        seen[nm] = getattr(h, nm)
                t = getattr(h, "stormwater_tank", None) or getattr(h, "service_reservoir_tank", None)
                seen["tank"] = t.storage
                neg = [(nm, k, v[k]) for nm, v in seen.items() for k in ["volume"] + list(c["adds"]) if frac(v[k]) < 0]
                if neg:
                    stats["violations"] += 1
                    if stats["violations"] <= 3:
                        c2 = dict(c)
                        c2["ops"] = c["ops"][:i + 1]
                        rep.violation("counterexample", f"{pid} monitor [{c['cls']}]: negative after {op[0]}: " + ", ".join(f"{nm}[{k}] = {v}" for nm, k, v in neg[:3]),
                                      {"family": "wtw", "case": K.case_json(c2)}, True)
                    break
            stats["cases"] += 1
            rep.add_eval(("mon_wtw", ci), nontrivial=len(c["ops"]) >= 3)
        except C.TooSlow:
            pass
        finally:
            C.disarm()
            G.reset_partition()
    rep.monitor[f"{pid}_works"] = stats
