"""Value and flux generators shared by the correspondence checks and monitors.
Every random choice derives from the random.Random instance passed in."""
from fractions import Fraction as F

from exnum import EPS, Ex

NAMES_ADD = ["phosphate", "ammonia", "solids", "nitrate", "salt", "do", "tracer-x", "org-nitrogen", "cod"]
NAMES_NON = ["temperature", "ph", "conductivity", "do", "colour", "phosphate"]


def rand_partition(r, min_add=0, max_add=3, max_non=2):
    """a random pollutant partition with custom names (default names may appear in
    either role): (adds, nons) lists of names"""
    na = r.randint(min_add, max_add)
    nn = r.randint(0, max_non)
    adds = r.sample(NAMES_ADD, na)
    nons = [n for n in r.sample(NAMES_NON, len(NAMES_NON)) if n not in adds][:nn]
    return adds, nons


def set_partition(adds, nons):
    from wsimod.core import constants
    constants.ADDITIVE_POLLUTANTS = list(adds)
    constants.NON_ADDITIVE_POLLUTANTS = list(nons)
    # interleave like the default list does (order of POLLUTANTS is not the concatenation)
    pol = []
    a, n = list(adds), list(nons)
    while a or n:
        if n:
            pol.append(n.pop(0))
        if a:
            pol.append(a.pop(0))
    constants.POLLUTANTS = pol


def set_partition_by_load(adds, nons, keys):
    """the partition is declared the way a user of saved models declares it: a configuration file with (some of) the keys
    pollutants / additive_pollutants / non_additive_pollutants is loaded with Model.load.  Keys the file does not carry keep
    the value they had (set consistently beforehand); the rest of the process state is left as the load leaves it."""
    import contextlib
    import io
    import os
    import tempfile
    import yaml
    from wsimod.core import constants
    from wsimod.orchestration.model import Model
    set_partition(adds, nons)
    want = {"pollutants": list(constants.POLLUTANTS), "additive_pollutants": list(adds), "non_additive_pollutants": list(nons)}
    for k in keys:
        # what the file declares must come from the file: the constant is set to something stale first
        setattr(constants, k.upper(), ["stale"])
    cfg = {"nodes": {"w": {"type_": "Waste", "name": "w"}}, "arcs": {}}
    cfg.update({k: want[k] for k in keys})
    acc = constants.FLOAT_ACCURACY
    with tempfile.TemporaryDirectory(prefix="c10_") as d:
        with open(os.path.join(d, "config.yml"), "w") as f:
            yaml.safe_dump(cfg, f)
        with contextlib.redirect_stdout(io.StringIO()):
            Model().load(d)
    constants.FLOAT_ACCURACY = acc
    return want


def reset_partition():
    from wsimod.core import constants
    constants.set_default_pollutants()


def rand_q(r, kind="any"):
    """a non-negative rational"""
    c = r.random()
    if kind == "pos":
        c = 0.2 + 0.8 * c
    if c < 0.12:
        return F(0)
    if c < 0.45:
        return F(r.randint(1, 12))
    if c < 0.75:
        return F(r.randint(1, 40), r.choice([2, 3, 4, 5, 7, 8, 10]))
    if c < 0.82:
        return r.choice([EPS / 2, EPS, EPS * 2, EPS / 1000, EPS * F(3, 2)])
    if c < 0.9:
        return F(r.randint(1, 9), 10 ** r.randint(3, 9))
    return F(r.randint(1, 9) * 10 ** r.randint(2, 7))


def rand_vqip(r, na, nn, volkind="any", wet=True):
    """(vol, adds, nons) of Fractions"""
    vol = rand_q(r, volkind)
    adds = [rand_q(r) if r.random() < 0.8 else F(0) for _ in range(na)]
    if wet and vol == 0:
        adds = [F(0)] * na
    nons = [F(r.randint(0, 30), r.choice([1, 2, 4])) for _ in range(nn)]
    return (vol, adds, nons)


def to_dict(v, adds, nons, ex=True):
    w = Ex if ex else float
    d = {"volume": w(v[0])}
    for k, n in enumerate(adds):
        d[n] = w(v[1][k])
    for k, n in enumerate(nons):
        d[n] = w(v[2][k])
    return d


def from_dict(d, adds, nons):
    from exnum import frac
    return (frac(d["volume"]), [frac(d[n]) for n in adds], [frac(d[n]) for n in nons])


def vq_str(v):
    return {"volume": str(v[0]), "additive": [str(x) for x in v[1]], "non_additive": [str(x) for x in v[2]]}
