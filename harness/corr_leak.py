"""Exact correspondence for coq/Leak.v: the real Distribution (leakage 0 .. 1/2, also changed through apply_overrides
on a node that has been used) between suppliers and consumers / groundwater neighbours that are tank-backed or
scripted nodes: pull requests and pull checks addressed to the node, close-outs; every reply, every arc record and
neighbour state compared after every operation."""
import contextlib
import io
from fractions import Fraction as F

import common as C
import corr_comp as K
import corr_kinds as KD
import gens as G
from exnum import UNBOUNDED, Ex

LEAKS = [F(0), F(1, 10), F(1, 4), F(1, 2)]


def gen_case(r, maxops):
    adds, nons = G.rand_partition(r, 0, 2, 1)
    part = K.Part(adds, nons)
    c = {"kind": "leak", "cls": "Distribution", "adds": adds, "nons": nons, "leak": r.choice(LEAKS),
         "ins": KD.gen_star(r, part, r.choice([1, 1, 2, 3]), [0, 1, 3, 3]),
         "outs": KD.gen_star(r, part, r.choice([0, 1, 2, 2]), [5, 5, 5, 0])}
    ops = []
    for _ in range(r.randint(1, maxops)):
        x = r.random()
        if x < 0.5:
            ops.append(("pull", r.choice([G.rand_q(r), F(3), F(8), F(20)])))
        elif x < 0.75:
            ops.append(("pullcheck", None if r.random() < 0.4 else G.rand_q(r)))
        elif x < 0.88:
            ops.append(("end",))
        elif ops:
            ops.append(("override", r.choice(LEAKS)))
    c["ops"] = ops or [("pull", F(3))]
    return c


class Run:
    def __init__(self, c):
        from wsimod.arcs import arcs
        from wsimod.nodes.distribution import Distribution
        self.c = c
        self.part = part = K.Part(c["adds"], c["nons"])
        with contextlib.redirect_stdout(io.StringIO()):
            self.hub = Distribution(name="hub", leakage=Ex(c["leak"]))
        self.outs, self.ins = [], []
        for i, a in enumerate(c["ins"]):
            nb = KD.FAKE[a["ty"]](f"i{i}", part, a["nb"])
            self.ins.append((arcs.Arc(name=f"ai{i}", in_port=nb, out_port=self.hub, capacity=Ex(a["cap"]), preference=Ex(a["pref"])), nb))
        for i, a in enumerate(c["outs"]):
            nb = KD.FAKE[a["ty"]](f"o{i}", part, a["nb"])
            self.outs.append((arcs.Arc(name=f"ao{i}", in_port=self.hub, out_port=nb, capacity=Ex(a["cap"]), preference=Ex(a["pref"])), nb))

    def do(self, op):
        h, k = self.hub, op[0]
        with contextlib.redirect_stdout(io.StringIO()):
            if k == "pull":
                return h.pull_set({"volume": Ex(op[1])})
            if k == "pullcheck":
                return h.pull_check(None if op[1] is None else {"volume": Ex(op[1])})
            if k == "end":
                for arc, nb in self.ins + self.outs:
                    arc.end_timestep()
            elif k == "override":
                h.apply_overrides({"leakage": Ex(op[1])})
        return None

    def enc(self):
        p = self.part
        out = []
        for arc, nb in self.ins:
            out += K.enc_arc_py(p, arc) + nb.fk.enc() + [0]
        for arc, nb in self.outs:
            out += K.enc_arc_py(p, arc) + [0] + nb.fk.enc()
        return out


def run_impl(c):
    R = Run(c)
    out = []
    for op in c["ops"]:
        try:
            r = R.do(op)
        except ZeroDivisionError:
            return out + [-999]
        if r is not None:
            out += R.part.ev(r)
        out += R.enc()
    return out


def expr(c):
    from wsimod.core import constants
    ops = []
    for op in c["ops"]:
        k = op[0]
        if k == "pull":
            ops.append(f"DPullSet {C.qlit(op[1])}")
        elif k == "pullcheck":
            ops.append(f"DPullCheck {K.lit_opt_q(op[1])}")
        elif k == "end":
            ops.append("DEnd")
        else:
            ops.append(f"DOverride {C.qlit(op[1])}")
    na, nn = len(c["adds"]), len(c["nons"])
    node = f"(mkDN _ {KD.star_lit(c['ins'], False)} {KD.star_lit(c['outs'], True)} {C.qlit(c['leak'])})"
    return f"run_dnode {na} {nn} {int(constants.MAXITER)} {node} [{'; '.join(ops)}]"


K.FAMILIES["leak"] = (gen_case, run_impl, expr)
K.add_imports("Distrib", "Kinds", "Leak")
