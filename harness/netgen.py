"""Random well-formed WSIMOD models for the network-level checks.

A model is a plain config (lists of node / arc dicts in the form Model.add_nodes /
Model.add_arcs take, numbers as Fractions, dates as strings) composed of river,
supply and land sub-systems with legal connections, plus forcing with zeros, dry
spells and bursts.  `build` instantiates it on the implementation in exact (Ex) or
float mode.  Every random choice derives from the random.Random passed in."""
import copy
import random
from fractions import Fraction as F

import pandas as pd

from exnum import Ex, UNBOUNDED, install_exact, uninstall_exact

POLSETS = {
    # name: (additive, non_additive)  -- 'temperature' must be non-additive when treatment works are present
    "simple": (["phosphate"], ["temperature"]),
    "four": (["phosphate", "ammonia", "solids"], ["temperature"]),
    "reordered": (["solids", "cod", "phosphate"], ["temperature", "ph"]),
    "one": (["salt"], ["temperature"]),
}


def set_pollutants(name):
    from wsimod.core import constants
    if name == "default":
        constants.set_default_pollutants()
        return
    adds, nons = POLSETS[name]
    constants.ADDITIVE_POLLUTANTS = list(adds)
    constants.NON_ADDITIVE_POLLUTANTS = list(nons)
    constants.POLLUTANTS = list(adds) + list(nons)


STARTS = ["2000-01-01", "2000-02-27", "2000-12-29", "2001-12-29", "2004-12-28", "2003-06-30"]


def dates(n, start="2000-01-01"):
    return [str(d.date()) for d in pd.date_range(start, periods=n, freq="D")]


STRESS = {"on": False}


def series(r, n, lo, hi, kind=None):
    """a non-negative forcing series with zeros, dry spells and bursts"""
    if STRESS["on"]:
        kind = kind or r.choice(["dry_start", "zeros", "zeros", "mixed", "spell", "burst"])
    kind = kind or r.choice(["steady", "dry_start", "spell", "burst", "zeros", "mixed"])
    out = []
    for i in range(n):
        x = F(r.randint(int(lo * 8), int(hi * 8)), 8)
        if kind == "dry_start" and i < max(1, n // 3):
            x = F(0)
        elif kind == "spell" and n // 3 <= i < 2 * n // 3:
            x = F(0)
        elif kind == "burst" and i == n // 2:
            x = x * 20
        elif kind == "zeros":
            x = F(0)
        elif kind == "mixed" and r.random() < 0.35:
            x = F(0)
        out.append(x)
    return out


def conc(r):
    return r.choice([F(0), F(1, 100), F(1, 20), F(1, 8), F(1, 2)])


def temp(r):
    return F(r.randint(2, 25))


class Gen:
    def __init__(self, r, ndates, polset, opts=None):
        import random
        self.r = r
        # pollutant-related choices come from a separate stream, so that the same seed gives the same
        # hydraulic set-up under any pollutant configuration (C20)
        self.rp = random.Random(f"{r.random()}:{polset}:{(opts or {}).get('polseed', 0)}")
        self.n = ndates
        self.dates = dates(ndates, (opts or {}).get("start", "2000-01-01"))
        self.polset = polset
        self.adds, self.nons = (POLSETS[polset] if polset != "default" else (None, None))
        self.nodes, self.arcs = [], []
        self.k = 0
        self.opts = opts or {}

    def name(self, p):
        self.k += 1
        return f"{p}{self.k}"

    def pols(self):
        from wsimod.core import constants
        return list(constants.ADDITIVE_POLLUTANTS), list(constants.NON_ADDITIVE_POLLUTANTS)

    def vq(self, vol, dry=False):
        adds, nons = self.pols()
        d = {"volume": vol}
        for p in adds:
            d[p] = (conc(self.rp) * vol) if not dry else F(0)
        for p in nons:
            d[p] = temp(self.rp) if p == "temperature" else F(7)
        return d

    def data(self, variables):
        """variables: {name: series or constant}"""
        d = {}
        for var, ser in variables.items():
            for i, t in enumerate(self.dates):
                d[(var, t)] = ser[i] if isinstance(ser, list) else ser
        return d

    def arc(self, a, b, cap=None, pref=None, type_="Arc", **kw):
        d = {"name": f"{a}-{b}-{len(self.arcs)}", "type_": type_, "in_port": a, "out_port": b}
        d["capacity"] = UNBOUNDED if cap is None else cap
        if pref is not None:
            d["preference"] = pref
        d.update(kw)
        self.arcs.append(d)
        return d["name"]

    # ---- sub-systems -------------------------------------------------------
    def catchment(self, kind=None):
        r = self.r
        adds, nons = self.pols()
        var = {"flow": series(r, self.n, 0, 12, kind)}
        for p in adds:
            var[p] = conc(self.rp)
        for p in nons:
            var[p] = temp(self.rp) if p == "temperature" else F(7)
        nm = self.name("catch")
        self.nodes.append({"name": nm, "type_": "Catchment", "data_input_dict": self.data(var)})
        return nm

    def river(self, mrf=None):
        r = self.r
        nm = self.name("river")
        d = {"name": nm, "type_": "River", "length": F(r.choice([100, 200, 400])), "width": F(r.choice([5, 10, 20])),
             "velocity": F(r.choice([400, 800, 17280])), "damp": r.choice([F(0), F(1, 10), F(1, 4)]),
             "mrf": r.choice([F(0), F(0), F(2), F(5)]) if mrf is None else mrf,
             "initial_storage": self.vq(r.choice([F(0), F(3), F(20)])),
             "data_input_dict": self.data({"temperature": [temp(r) for _ in range(self.n)]})}
        self.nodes.append(d)
        return nm

    def junction(self):
        nm = self.name("node")
        self.nodes.append({"name": nm, "type_": "Node"})
        return nm

    def waste(self):
        nm = self.name("outlet")
        self.nodes.append({"name": nm, "type_": "Waste"})
        return nm

    def decays(self, d):
        """temperature-dependent decay on a store (products constant x exponent^dT above 1 included)"""
        adds, nons = self.pols()
        if adds and self.r.random() < 0.35:
            d["decays"] = {p: {"constant": self.rp.choice([F(1, 100), F(1, 2), F(3, 2)]),
                               "exponent": self.rp.choice([F(1), F(1001, 1000), F(2)])} for p in adds[:2]}
            d["data_input_dict"] = self.data({"temperature": [temp(self.r) for _ in range(self.n)]})

    def reservoir(self, river_like=False):
        r = self.r
        nm = self.name("resv")
        cap = F(r.choice([20, 50, 200]))
        d = {"name": nm, "type_": "Reservoir", "capacity": cap,
             "area": F(10), "initial_storage": self.vq(cap * r.choice([F(0), F(1, 2), F(1)]))}
        self.decays(d)
        if river_like:
            # the orchestration is keyed by type_: a label of its own lets the release step be orchestrated
            d["type_"] = "RiverReservoir"
            d["node_type_override"] = "RiverReservoir"
            d["environmental_flow"] = r.choice([F(0), F(2), F(6)])
        self.nodes.append(d)
        return nm

    def groundwater(self, queue=False):
        r = self.r
        nm = self.name("gw")
        cap = F(r.choice([30, 100, 1000]))
        d = {"name": nm, "capacity": cap, "area": F(10), "initial_storage": self.vq(cap * r.choice([F(0), F(1, 4), F(9, 10)]))}
        if queue:
            d["type_"] = "Groundwater"           # label used by the default orchestration
            d["node_type_override"] = "QueueGroundwater"
            d["timearea"] = r.choice([{0: F(1)}, {0: F(1, 2), 1: F(1, 2)}, {0: F(1, 2), 1: F(1, 4), 3: F(1, 4)}])
        else:
            d["type_"] = "Groundwater"
            d["residence_time"] = F(r.choice([1, 2, 5, 20]))
            d["infiltration_threshold"] = r.choice([F(1), F(1, 2)])
            d["infiltration_pct"] = r.choice([F(0), F(1, 4)])
        self.decays(d)
        self.nodes.append(d)
        return nm

    def sewer(self):
        r = self.r
        nm = self.name("sewer")
        self.nodes.append({"name": nm, "type_": "Sewer", "capacity": F(r.choice([2, 10, 40])), "pipe_time": r.choice([0, 0, 1]),
                           "pipe_timearea": r.choice([{0: F(1)}, {0: F(1, 2), 1: F(1, 2)}, {0: F(3, 4), 2: F(1, 4)}])})
        if random.Random(f"sewerdata{len(self.nodes)}:{self.dates[0]}:{self.n}").random() < 0.4:
            # a sewer with temperature data (read by a decaying arc that leaves it); a stream of its own
            rq = random.Random(f"sewertemp{len(self.nodes)}")
            self.nodes[-1]["data_input_dict"] = self.data({"temperature": [temp(rq) for _ in range(self.n)]})
        return nm

    def wtw_params(self):
        """explicit treatment parameters (the defaults are binary floats whose sums round)"""
        adds, nons = self.pols()
        pp = {p: {"constant": self.rp.choice([F(1, 100), F(1, 2), F(9, 10)]), "exponent": self.rp.choice([F(1), F(1001, 1000)])} for p in adds}
        lm = {p: self.rp.choice([F(7, 10), F(1, 10), F(0)]) for p in adds}
        # well-formed treatment parameters: solids[p] = influent - discharge - liquor must stay non-negative,
        # i.e. constant * exponent^(20 - T) + liquor multiplier <= 1 (temperatures here are >= 2, so the factor is < 1.02)
        for p in adds:
            if pp[p]["constant"] * F(102, 100) + lm[p] > 1:
                lm[p] = F(0)
        # liquor that carries pollutant mass must carry water too (mass without water is outside "wet" fluxes)
        lm["volume"] = self.r.choice([F(3, 100), F(1, 10), F(1, 10)])
        return {"process_parameters": pp, "liquor_multiplier": lm, "percent_solids": self.r.choice([F(1, 5000), F(1, 100), F(0)])}

    def wwtw(self):
        r = self.r
        nm = self.name("wwtw")
        d = {"name": nm, "type_": "WWTW", "treatment_throughput_capacity": F(r.choice([3, 10, 50])),
             "stormwater_storage_capacity": F(r.choice([0, 5, 20]))}
        d.update(self.wtw_params())
        self.nodes.append(d)
        return nm

    def fwtw(self):
        r = self.r
        nm = self.name("fwtw")
        cap = F(r.choice([5, 20]))
        d = {"name": nm, "type_": "FWTW", "treatment_throughput_capacity": F(r.choice([4, 12, 40])),
             "service_reservoir_storage_capacity": cap,
             "service_reservoir_initial_storage": cap * r.choice([F(0), F(1, 2), F(1)])}
        d.update(self.wtw_params())
        self.nodes.append(d)
        return nm

    def distribution(self, unlimited=False):
        r = self.r
        nm = self.name("dist")
        d = {"name": nm, "type_": "UnlimitedDistribution" if unlimited else "Distribution"}
        if not unlimited:
            d["leakage"] = r.choice([F(0), F(0), F(1, 10)])
        self.nodes.append(d)
        return nm

    def demand(self, residential=True):
        r = self.r
        adds, nons = self.pols()
        nm = self.name("demand")
        load = {p: conc(self.rp) for p in adds}
        load.update({p: F(15) for p in nons})
        if residential:
            d = {"name": nm, "type_": "Demand", "node_type_override": "ResidentialDemand", "population": F(r.choice([0, 10, 40, 100])),
                 "per_capita": r.choice([F(1, 8), F(3, 20), F(0)]), "pollutant_load": load,
                 "data_input_dict": self.data({"temperature": [temp(r) for _ in range(self.n)]})}
        else:
            d = {"name": nm, "type_": "Demand", "constant_demand": F(r.choice([0, 3, 8])),
                 "pollutant_load": {p: v for p, v in load.items() if p in adds}}
        self.nodes.append(d)
        return nm

    def land(self, growing=False):
        r = self.r
        adds, nons = self.pols()
        nm = self.name("land")
        var = {"precipitation": [x / 100 for x in series(r, self.n, 0, 4)], "et0": [x / 400 for x in series(r, self.n, 0, 3)],
               "temperature": [temp(r) for _ in range(self.n)]}
        surfaces = []
        if r.random() < 0.8:
            surfaces.append({"type_": "ImperviousSurface", "surface": "urban", "area": F(r.choice([1, 50, 200])),
                             "pore_depth": r.choice([F(0), F(1, 100), F(1, 20)]), "et0_to_e": r.choice([F(1), F(1, 2)]),
                             "pollutant_load": {p: conc(self.rp) / 10 for p in adds[:1]},
                             "initial_storage": F(0)})
        if r.random() < 0.8 or not surfaces:
            area = F(r.choice([10, 100, 400]))
            depth = r.choice([F(1, 2), F(3, 4)])
            surfaces.append({"type_": "PerviousSurface", "surface": "rural", "area": area, "depth": depth,
                             "total_porosity": F(2, 5), "field_capacity": F(3, 10), "wilting_point": F(3, 25),
                             "infiltration_capacity": r.choice([F(1, 2), F(1, 100)]),
                             "surface_coefficient": F(1, 20), "percolation_coefficient": F(3, 4),
                             "et0_coefficient": F(1, 2), "ihacres_p": F(r.choice([1, 2])),
                             "pollutant_load": {p: conc(self.rp) / 10 for p in adds[:1]},
                             "initial_storage": self.vq(area * depth * F(2, 5) * r.choice([F(0), F(1, 2), F(9, 10)]))})
        if growing:
            months = sorted({t[:7] for t in self.dates})
            nutrient_free = self.rp.random() < 0.3
            sdata = {}
            for nut in ("nhx", "noy", "srp"):
                for src in ("fertiliser", "manure", "residue", "dry", "wet"):
                    for mth in months:
                        sdata[(f"{nut}-{src}", mth)] = F(0) if nutrient_free else self.rp.choice([F(0), F(1, 10 ** 6), F(1, 10 ** 5)])
            surfaces.append({"type_": "GrowingSurface", "surface": "crop", "area": F(100), "rooting_depth": F(1, 2),
                             "data_input_dict": sdata,
                             "crop_factor_stages": [0.0, 0.0, 0.3, 0.3, 1.2, 1.2, 0.325, 0.0, 0.0],
                             "crop_factor_stage_dates": [0, 50, 91, 121, 171, 221, 254, 285, 365],
                             "sowing_day": 91, "harvest_day": 285,
                             "initial_storage": self.vq(F(15))})
        d = {"name": nm, "type_": "Land", "surfaces": surfaces, "data_input_dict": self.data(var),
             "surface_residence_time": F(r.choice([1, 2])), "subsurface_residence_time": F(r.choice([2, 5])),
             "percolation_residence_time": F(r.choice([5, 20]))}
        self.nodes.append(d)
        return nm


PULLED = {("Reservoir", "FWTW"), ("FWTW", "Distribution"), ("Distribution", "Demand"), ("River", "Reservoir"), ("River", "RiverReservoir"),
          ("UnlimitedDistribution", "Demand"), ("Distribution", "ResidentialDemand"), ("UnlimitedDistribution", "ResidentialDemand"),
          ("Groundwater", "FWTW"), ("Groundwater", "Reservoir"), ("QueueGroundwater", "FWTW"), ("QueueGroundwater", "Reservoir")}


PULLERS = ("Reservoir", "RiverReservoir", "FWTW", "Distribution", "UnlimitedDistribution", "Demand", "ResidentialDemand",
           "NonResidentialDemand")


def mix_arcs(g, r, p):
    """give some arcs another class: links that only carry pushes become travel-time arcs (QueueArc / AltQueueArc, 0-2
    timesteps), decaying arcs, sewer / weir arcs or push-only arcs; links that only carry pulls become pull-only arcs"""
    kind = {n["name"]: cls_of(n) for n in g.nodes}
    adds, _ = g.pols()
    for a in g.arcs:
        if r.random() >= p:
            continue
        pair = (kind[a["in_port"]], kind[a["out_port"]])
        if pair in PULLED:
            if pair[0] == "River" and r.random() < 0.5:
                # an abstraction over a travel-time arc: what was pulled earlier arrives later (possibly when the reservoir is full)
                a["type_"] = "QueueArc"
                a["number_of_timesteps"] = r.choice([1, 1, 2])
                # ... into a small, nearly full reservoir, so that the late parcel does arrive when it is full
                dst = next(n for n in g.nodes if n["name"] == a["out_port"])
                if r.random() < 0.7:
                    dst["capacity"] = F(12)
                    dst["initial_storage"] = g.vq(F(r.choice([8, 10, 12])))
            else:
                a["type_"] = "PullArc"
            continue
        if kind[a["in_port"]] in ("Reservoir", "FWTW", "Distribution", "UnlimitedDistribution", "Catchment"):
            continue        # pulled from / abstracted from: plain arcs
        t = r.choice(["QueueArc", "QueueArc", "AltQueueArc", "DecayArc", "SewerArc", "WeirArc", "PushArc"])
        if kind[a["out_port"]] in PULLERS and t in ("AltQueueArc", "PushArc"):
            # the node at the far end also pulls through its in-arcs (abstractions, supply): AltQueueArc does not support
            # pulls (it queues the pulled water as if it had been pushed), a push-only arc would deny them
            t = "QueueArc"
        if t == "DecayArc":
            # a decaying arc reads the temperature from the data of its in_port
            src = next(n for n in g.nodes if n["name"] == a["in_port"])
            d = src.get("data_input_dict") or {}
            if not all(("temperature", dt) in d for dt in g.dates):
                t = "QueueArc"
        a["type_"] = t
        if t in ("QueueArc", "DecayArc"):
            a["number_of_timesteps"] = r.choice([0, 1, 1, 2])
            if pair == ("Sewer", "WWTW") and a["number_of_timesteps"] and r.random() < 0.7:
                # ... into a works that is often full when the water sent earlier arrives: it comes back to the sewer inside
                # the reply to a later push, with the quality it had when it was sent
                dst = next(n for n in g.nodes if n["name"] == a["out_port"])
                dst["treatment_throughput_capacity"] = F(r.choice([1, 2]))
                dst["stormwater_storage_capacity"] = F(r.choice([0, 1]))
        if t == "AltQueueArc":
            a["number_of_timesteps"] = r.choice([1, 2])
        if t == "DecayArc" and adds:
            a["decays"] = {adds[0]: {"constant": F(1, 20), "exponent": F(101, 100)}}


def gen_overrides(g, r):
    """parameter changes applied to the built model through apply_overrides before it is run (what a user does between
    building and running, and what Model.load does with its `overrides` argument): areas, loads, river geometry,
    treatment volume shares, demand figures, capacities.  Returns [{"node" | "arc": name, "surface": index, "values": {..}}]"""
    out = []
    adds, _ = g.pols()
    # hydraulic choices from a generator of their own (seeded from the hydraulic stream once), pollutant choices from the
    # pollutant stream: the same seed gives the same hydraulic overrides under every pollutant configuration
    r, rp = random.Random(r.random()), g.rp
    for n in g.nodes:
        cls = cls_of(n)
        if r.random() >= 0.6:
            continue
        if cls == "Land":
            for i, sf in enumerate(n["surfaces"]):
                if sf["type_"] in ("ImperviousSurface", "PerviousSurface") and r.random() < 0.7:
                    v = {"area": sf["area"] * r.choice([F(1, 2), F(2), F(5, 2)])}
                    if sf.get("pollutant_load") and rp.random() < 0.5:
                        v["pollutant_load"] = {k: x * 3 for k, x in sf["pollutant_load"].items()}
                    out.append({"node": n["name"], "surface": i, "values": v})
        elif cls == "River":
            k = r.choice(["length", "velocity", "damp"])
            out.append({"node": n["name"], "values": {k: {"length": F(300), "velocity": F(8640), "damp": F(1, 5)}[k]}})
        elif cls in ("WWTW", "FWTW"):
            out.append({"node": n["name"], "values": r.choice([{"percent_solids": F(1, 20)}, {"liquor_multiplier": {"volume": F(1, 20)}},
                                                               {"treatment_throughput_capacity": F(6)}])})
        elif cls == "ResidentialDemand":
            out.append({"node": n["name"], "values": r.choice([{"population": F(25)}, {"per_capita": F(1, 5)}, {"population": F(60), "per_capita": F(1, 10)}])})
        elif cls == "Demand":
            out.append({"node": n["name"], "values": {"constant_demand": F(5)}})
        elif cls == "Reservoir":
            out.append({"node": n["name"], "values": {"capacity": n["capacity"] * 2}})
        elif cls == "Groundwater":
            if n.get("node_type_override") == "QueueGroundwater":
                out.append({"node": n["name"], "values": r.choice([{"timearea": {0: F(1, 2), 2: F(1, 2)}}, {"capacity": n["capacity"] * 2},
                                                                   {"timearea": {0: F(1, 4), 1: F(3, 4)}, "capacity": n["capacity"] / 2}])})
            else:
                out.append({"node": n["name"], "values": r.choice([{"capacity": n["capacity"] / 2}, {"capacity": n["capacity"] * 2, "infiltration_pct": F(1, 2)},
                                                                   {"infiltration_threshold": F(1, 10), "infiltration_pct": F(1, 2)},
                                                                   {"residence_time": F(3)}, {"capacity": n["capacity"] / 4, "residence_time": F(2)}])})
        elif cls == "Sewer":
            out.append({"node": n["name"], "values": r.choice([{"capacity": n["capacity"] * 3}, {"pipe_time": 1}, {"pipe_time": 2, "capacity": n["capacity"] * 2},
                                                               {"pipe_timearea": {0: F(1, 4), 1: F(1, 2), 3: F(1, 4)}}, {"pipe_time": 0, "pipe_timearea": {1: F(1)}}])})
        elif cls == "RiverReservoir":
            out.append({"node": n["name"], "values": r.choice([{"capacity": n["capacity"] * 2}, {"environmental_flow": F(3)}])})
    for a in g.arcs:
        if a["type_"] == "Arc" and r.random() < 0.1:
            out.append({"arc": a["name"], "values": {"capacity": F(r.choice([3, 9]))}})
    # an overrides entry names a type; the library ignores it, so an entry that names another arc class than the arc's own
    # must change nothing about what the arc lets through (a stream of its own)
    rt = random.Random(r.random())
    for o in out:
        if "arc" in o and rt.random() < 0.5:
            o["type_"] = rt.choice(["PullArc", "PushArc", "Arc"])
    for a in g.arcs:
        if a["type_"] in ("Arc", "PullArc") and rt.random() < 0.06:
            out.append({"arc": a["name"], "type_": rt.choice(["PullArc", "PushArc"]), "values": {"preference": F(1)}})
    return out


def effective_cfg(cfg):
    """the configuration the overridden model stands for: constructor values with the overrides merged in (what the
    independent oracles read)"""
    if not cfg.get("overrides"):
        return cfg
    eff = copy.deepcopy(cfg)
    nodes = {n["name"]: n for n in eff["nodes"]}
    arcs = {a["name"]: a for a in eff["arcs"]}
    for o in eff["overrides"]:
        tgt = arcs[o["arc"]] if "arc" in o else nodes[o["node"]]
        if o.get("surface") is not None:
            tgt = tgt["surfaces"][o["surface"]]
        for k, v in o["values"].items():
            if isinstance(v, dict) and isinstance(tgt.get(k), dict):
                tgt[k] = {**tgt[k], **v}
            else:
                tgt[k] = v
    return eff


def gen_model(r, ndates=4, polset=None, size=None, opts=None):
    """returns a config dict {polset, dates, nodes, arcs, orchestration?}"""
    opts = opts or {}
    STRESS["on"] = bool(opts.get("stress"))
    polset = polset or r.choice(["simple", "four", "reordered", "one"])
    set_pollutants(polset)
    g = Gen(r, ndates, polset, opts)
    size = size or r.choice(["river", "river", "supply", "land", "full"])
    out = g.waste()
    # ---- river backbone
    nriv = r.choice([1, 2, 3]) if size != "supply" else r.choice([1, 2])
    shape = r.choice(["chain", "confluence"]) if nriv >= 2 else "chain"
    rivers = [g.river() for _ in range(nriv)]
    heads = []
    if shape == "chain":
        for a, b in zip(rivers, rivers[1:]):
            if r.random() < 0.3:
                j = g.junction()
                g.arc(a, j)
                g.arc(j, b)
            else:
                g.arc(a, b)
        last = rivers[-1]
        heads = [rivers[0]]
    else:
        j = g.junction() if r.random() < 0.6 else rivers[-1]
        ups = rivers[:-1] if j == rivers[-1] else rivers
        for a in ups:
            g.arc(a, j)
        last = j if j == rivers[-1] else j
        heads = list(ups)
    if r.random() < 0.3 and not opts.get("no_riverreservoir"):
        rr = g.reservoir(river_like=True)
        g.arc(last, rr)
        g.arc(rr, out, cap=r.choice([None, None, F(4)]))
    else:
        g.arc(last, out)
    for h in heads:
        if r.random() < 0.85:
            g.arc(g.catchment(), h)
    if r.random() < 0.3:
        # a second route for a catchment: directly to the outlet with limited capacity
        g.arc(g.catchment(), last if last in rivers else rivers[-1], cap=F(5))
    tap = r.choice(rivers)
    # ---- supply chain
    if size in ("supply", "full"):
        resv = g.reservoir()
        g.arc(tap, resv, cap=r.choice([None, F(6), F(15)]))
        fw = g.fwtw()
        g.arc(resv, fw)
        dist = g.distribution()
        g.arc(fw, dist)
        sw = g.sewer()
        g.arc(fw, sw)
        dems = [g.demand(residential=r.random() < 0.7) for _ in range(r.choice([1, 2]))]
        for d in dems:
            g.arc(dist, d)
            g.arc(d, sw)
        if r.random() < 0.4:
            sw2 = g.sewer()
            g.arc(sw, sw2, cap=r.choice([None, F(5)]))
            swl = sw2
        else:
            swl = sw
        ww = g.wwtw()
        g.arc(swl, ww, cap=r.choice([None, F(8)]))
        if r.random() < 0.6:
            g.arc(swl, rivers[-1], pref=F(1, 1000))          # overflow
        g.arc(ww, rivers[-1], cap=r.choice([None, F(6), F(2)]))
        leak_gw = None
        if r.random() < 0.5:
            leak_gw = g.groundwater()
            g.arc(dist, leak_gw)
            g.arc(leak_gw, rivers[-1])
    elif size in ("river",) and r.random() < 0.5:
        resv = g.reservoir()
        g.arc(tap, resv, cap=r.choice([None, F(6)]))
    # ---- land
    if size in ("land", "full"):
        ld = g.land(growing=opts.get("growing", False))
        gw = g.groundwater(queue=r.random() < 0.45)
        g.arc(ld, gw)
        g.arc(gw, r.choice(rivers))
        g.arc(ld, r.choice(rivers))
        if any(s["type_"] == "ImperviousSurface" for s in g.nodes[[n["name"] for n in g.nodes].index(ld)]["surfaces"]):
            sws = [n["name"] for n in g.nodes if n["type_"] == "Sewer"]
            if not sws:
                sw = g.sewer()
                ww = g.wwtw()
                g.arc(sw, ww)
                g.arc(ww, rivers[-1])
                g.arc(sw, rivers[-1], pref=F(1, 1000))
                sws = [sw]
            g.arc(ld, sws[0], cap=r.choice([None, F(3)]))
            if gw and r.random() < 0.5 and not any(n["name"] == gw and n.get("node_type_override") == "QueueGroundwater" for n in g.nodes):
                g.arc(gw, sws[0])
        # an abstraction from the aquifer (a stream of its own: the models of earlier generator versions stay as they were)
        rx = random.Random(str(r.getstate()[1][:4]) + str(len(g.nodes)) + str(len(g.arcs)))
        if rx.random() < 0.4 and not opts.get("no_gw_abstraction"):
            fws = [n["name"] for n in g.nodes if n["type_"] == "FWTW"]
            gwd = next(n for n in g.nodes if n["name"] == gw)
            if gwd.get("node_type_override") == "QueueGroundwater":
                # water that arrives from the time-area queue at close-out is there to be abstracted in the next timestep,
                # mostly from a store whose queue decays meanwhile
                gwd["timearea"] = rx.choice([{0: F(1, 2), 1: F(1, 2)}, {0: F(1, 4), 1: F(1, 2), 2: F(1, 4)}, {1: F(1)}])
                adds, _ = g.pols()
                if adds and "decays" not in gwd and rx.random() < 0.6:
                    rq = random.Random(rx.random())          # (pollutant choices must not advance the hydraulic stream)
                    gwd["decays"] = {p_: {"constant": rq.choice([F(1, 100), F(1, 2), F(3, 2)]), "exponent": rq.choice([F(1), F(1001, 1000), F(2)])}
                                     for p_ in adds[:2]}
                    gwd["data_input_dict"] = g.data({"temperature": [temp(rq) for _ in range(g.n)]})
            if fws and rx.random() < 0.7:
                g.arc(gw, fws[0], type_="PullArc")
            else:
                keep = (g.r, g.rp)
                g.r, g.rp = rx, random.Random(rx.random())
                try:
                    g.arc(gw, g.reservoir(), type_="PullArc", cap=rx.choice([None, F(4), F(9)]))
                finally:
                    g.r, g.rp = keep
    if opts.get("parallel"):
        # two (or three) arcs between the same pair of nodes: a main and a relief pipe, two intakes of one abstraction ...
        # (a stream of its own: the rest of the model is the one the seed gives without this option)
        rpar = random.Random(f"parallel:{r.random()}")
        for a in list(g.arcs):
            if a["type_"] in ("Arc", "PullArc") and rpar.random() < opts["parallel"]:
                for k in range(rpar.choice([1, 1, 2])):
                    twin = dict(a)
                    twin["name"] = f"{a['name']}-par{k}"
                    twin["capacity"] = rpar.choice([F(4), F(10), F(3, 2), UNBOUNDED])
                    if a["capacity"] == UNBOUNDED and rpar.random() < 0.7:
                        a["capacity"] = rpar.choice([F(10), F(6), F(25)])
                    g.arcs.append(twin)
    if opts.get("arc_mix"):
        mix_arcs(g, r, opts["arc_mix"])
    if opts.get("shuffle", True) and r.random() < 0.5:
        r.shuffle(g.nodes)
    cfg = {"polset": polset, "dates": g.dates, "nodes": g.nodes, "arcs": g.arcs, "size": size}
    if opts.get("overrides"):
        cfg["overrides"] = gen_overrides(g, r)
    if any(n["type_"] == "RiverReservoir" for n in g.nodes):
        from wsimod.orchestration.model import Model
        orch = [dict(x) for x in Model().orchestration]
        i = [list(x.keys())[0] + ":" + list(x.values())[0] for x in orch].index("Reservoir:make_abstractions")
        orch.insert(i, {"RiverReservoir": "make_abstractions"})
        orch.insert(i + 1, {"RiverReservoir": "satisfy_environmental"})
        cfg["orchestration"] = orch
    return cfg


# ---------------------------------------------------------------------------
def conv(x, mode):
    """convert numbers of a config to Ex / float; dict keys (var, date-string) to (var, Timestamp)"""
    if isinstance(x, bool) or x is None or isinstance(x, str):
        return x
    if isinstance(x, F):
        return Ex(x) if mode == "exact" else float(x)
    if isinstance(x, int):
        return x
    if isinstance(x, float):
        return Ex(x) if mode == "exact" else x
    if isinstance(x, list):
        return [conv(y, mode) for y in x]
    if isinstance(x, dict):
        out = {}
        for k, v in x.items():
            if isinstance(k, tuple) and len(k) == 2 and isinstance(k[1], str):
                k = (k[0], pd.Period(k[1], "M") if len(k[1]) == 7 else pd.Timestamp(k[1]))
            out[k] = conv(v, mode)
        return out
    return x


def build(cfg, mode="exact", orchestration=None):
    """instantiate the config on the implementation; returns the Model"""
    from wsimod.orchestration.model import Model
    set_pollutants(cfg["polset"])
    if mode == "exact":
        install_exact()
    else:
        uninstall_exact()
    m = Model()
    nodes = conv(copy.deepcopy(cfg["nodes"]), mode)
    for n in nodes:
        if n["type_"] in ("PerviousSurface",):
            pass
        for s in n.get("surfaces", []):
            # crop factor tables are plain numbers
            pass
    arcs = conv(copy.deepcopy(cfg["arcs"]), mode)
    if orchestration is not None:
        m.orchestration = orchestration
    elif cfg.get("orchestration"):
        m.orchestration = copy.deepcopy(cfg["orchestration"])
    m.add_nodes(nodes)
    m.add_arcs(arcs)
    m.dates = [pd.Timestamp(d) for d in cfg["dates"]]
    filed = {n["name"]: n["type_"] for n in cfg["nodes"]}
    for o in conv(copy.deepcopy(cfg.get("overrides") or []), mode):
        tgt = m.arcs[o["arc"]] if "arc" in o else m.nodes[o["node"]]
        if o.get("surface") is not None:
            tgt = tgt.surfaces[o["surface"]]
        try:
            if o.get("surface") is not None:
                tgt.apply_overrides(dict(o["values"]))
            elif "arc" in o:
                # through the model, as an `overrides:` block does; the entry names a type (the library reads and ignores it)
                m.add_overrides({"arcs": {o["arc"]: dict(name=o["arc"], type_=o.get("type_", type(tgt).__name__), **o["values"])}})
            else:
                m.add_overrides({"nodes": {o["node"]: dict(name=o["node"], type_=filed[o["node"]], **o["values"])}})
        except RuntimeError as ex:
            # recorded known finding (C15 node-data-input-dict-runtimeerror): a node holding input data raises at the very
            # end of apply_overrides, after every value has been set
            if "data_input_dict" not in str(ex):
                raise
    return m


def cfg_json(cfg):
    def js(x):
        if isinstance(x, F):
            return str(x)
        if isinstance(x, dict):
            return {(f"{k[0]}|{k[1]}" if isinstance(k, tuple) else str(k)): js(v) for k, v in x.items()}
        if isinstance(x, (list, tuple)):
            return [js(y) for y in x]
        return x
    return js(cfg)


def cls_of(nd):
    return nd.get("node_type_override", nd["type_"])


def cfg_from_json(j):
    def fr(x, key=None):
        if isinstance(x, str) and key not in ("name", "type_", "node_type_override", "in_port", "out_port", "surface", "polset", "size"):
            try:
                return F(x)
            except (ValueError, ZeroDivisionError):
                return x
        if isinstance(x, list):
            return [fr(y, key) for y in x]
        if isinstance(x, dict):
            out = {}
            for k, v in x.items():
                kk = k
                if "|" in k:
                    a, b = k.split("|", 1)
                    kk = (a, b)
                elif key in ("timearea", "pipe_timearea"):
                    kk = int(k)
                out[kk] = fr(v, k if not isinstance(kk, tuple) else None)
            return out
        return x
    cfg = fr(j)
    cfg["dates"] = [str(d) for d in j["dates"]]
    return cfg
