"""Exact correspondence for coq/TimeArea.v: the real Sewer and QueueGroundwater (plain and decaying) between
neighbours that are tank-backed or scripted nodes filed under the class names the library filters by.  Operation
sequences: pushes with the time-area tags and the pipe tag, checks, abstractions (pull_set_active), make_discharge /
distribute, close-outs at varying temperature, apply_overrides (capacity, pipe_time, time-area diagram) on a node that
has been used.  After every operation the whole observable state (declared contents, arrived part, every bucket of the
internal queue, the internal arc's records, reported decay, every arc record and neighbour state) is compared."""
import contextlib
import io
from fractions import Fraction as F

import common as C
import corr_comp as K
import corr_kinds as KD
import corr_star as S
import gens as G
from exnum import EPS, UNBOUNDED, Ex, frac, install_exact

TYPE_NAMES = KD.TYPE_NAMES + ["Land"]          # ids as in coq/Kinds.v, T_LAND = 6 (coq/TimeArea.v)
FAKE = KD.FAKE + [KD._fake("Land")]
TAS = [[(0, F(1))], [(0, F(1, 2)), (1, F(1, 2))], [(0, F(3, 4)), (2, F(1, 4))], [(1, F(1))], [(0, F(1, 4)), (1, F(1, 2)), (3, F(1, 4))],
       [(2, F(1, 3)), (0, F(2, 3))]]


def gen_case(r, maxops):
    adds, nons = G.rand_partition(r, 0, 2, 1)
    part = K.Part(adds, nons)
    kind = r.choice(["Sewer", "Sewer", "QueueGroundwater", "QueueGroundwater"])
    cap = r.choice([F(5), F(10), F(37, 3), F(100)])
    c = {"kind": "tarea", "cls": kind, "adds": adds, "nons": nons, "cap": cap,
         "pt": r.choice([0, 0, 1, 2]), "ta": r.choice(TAS),
         "outs": KD.gen_star(r, part, r.choice([0, 1, 2, 2, 3]), [0, 1, 2, 4, 6, 6] if kind == "Sewer" else [0, 1, 1, 2, 3]),
         "ins": KD.gen_star(r, part, r.choice([0, 1]), [0, 4])}
    if kind == "QueueGroundwater":
        init = G.rand_vqip(r, part.na, part.nn, wet=True)
        if r.random() < 0.5 and init[0] > 0:
            sc = cap * r.choice([F(1, 4), F(1, 2), F(1)])
            init = (sc, [x * sc / init[0] for x in init[1]], init[2])
        c["init"] = init
        c["dec"] = [(r.choice([F(0), F(1, 100), F(1, 2), F(3, 2)]), r.choice([F(1), F(2), F(1001, 1000)])) for _ in adds] if r.random() < 0.5 else []
    else:
        c["init"] = (F(0), [F(0)] * part.na, [F(0)] * part.nn)
        c["dec"] = []
    ops = []
    for _ in range(r.randint(1, maxops)):
        x = r.random()
        if x < 0.3:
            ops.append(("pushta", K.push_amount(r, part, cap)))
        elif x < 0.42 and kind == "Sewer":
            ops.append(("pushpipe", K.push_amount(r, part, cap)))
        elif x < 0.5:
            ops.append(("pushcheck", None if r.random() < 0.5 else G.rand_vqip(r, part.na, part.nn)))
        elif x < 0.62 and kind == "QueueGroundwater":
            ops.append(("pull", r.choice([G.rand_q(r), F(3), F(8), F(20)])))
        elif x < 0.68 and kind == "QueueGroundwater":
            ops.append(("pullcheck", None if r.random() < 0.5 else G.rand_q(r)))
        elif x < 0.82:
            ops.append(("discharge",))
        elif x < 0.94:
            ops.append(("end", F(r.choice([5, 12, 20, 25]))))
        elif ops:
            ov = {}
            if r.random() < 0.5:
                ov["cap"] = cap * r.choice([F(1, 2), F(2), F(3, 4)])
            if kind == "Sewer" and r.random() < 0.6:
                ov["pt"] = r.choice([0, 1, 2, 3])
            if r.random() < 0.5:
                ov["ta"] = r.choice(TAS)
            if ov:
                ops.append(("override", ov))
    c["ops"] = ops or [("discharge",)]
    if r.random() < 0.2:
        # used, re-initialised (Sewer.reinit / Storage.reinit, what Model.reinit calls), used again
        k = r.randint(1, len(c["ops"]))
        more = [("pushta", K.push_amount(r, part, cap)) if r.random() < 0.45 else r.choice([("end", F(r.choice([5, 12, 20]))), ("end", F(20)), ("discharge",)])
                for _ in range(r.randint(2, maxops))]
        c["ops"] = c["ops"][:k] + [("reinit",)] + more
    return c


class Run:
    def __init__(self, c):
        from wsimod.arcs import arcs
        from wsimod.nodes import sewer, storage
        self.c = c
        self.part = part = K.Part(c["adds"], c["nons"])
        self.T = F(20)
        ta = {k: Ex(v) for k, v in c["ta"]}
        with contextlib.redirect_stdout(io.StringIO()):
            if c["cls"] == "Sewer":
                self.hub = sewer.Sewer(name="hub", capacity=Ex(c["cap"]), pipe_time=c["pt"], pipe_timearea=ta)
                self.tank = self.hub.sewer_tank
            else:
                kw = dict(name="hub", capacity=Ex(c["cap"]), area=Ex(10), initial_storage=part.d(c["init"]), timearea=ta)
                if c["dec"]:
                    kw["decays"] = {c["adds"][k]: {"constant": Ex(p[0]), "exponent": Ex(p[1])} for k, p in enumerate(c["dec"])}
                self.hub = storage.QueueGroundwater(**kw)
                self.tank = self.hub.tank
                hub = self.hub
                run = self

                class Data(dict):
                    def __getitem__(self, key):
                        return Ex(run.T)
                self.hub.data_input_dict = Data()
        self.hub.t = 0
        self.outs, self.ins = [], []
        for i, a in enumerate(c["outs"]):
            nb = FAKE[a["ty"]](f"o{i}", part, a["nb"])
            self.outs.append((arcs.Arc(name=f"ao{i}", in_port=self.hub, out_port=nb, capacity=Ex(a["cap"]), preference=Ex(a["pref"])), nb))
        for i, a in enumerate(c["ins"]):
            nb = FAKE[a["ty"]](f"i{i}", part, a["nb"])
            self.ins.append((arcs.Arc(name=f"ai{i}", in_port=nb, out_port=self.hub, capacity=Ex(a["cap"]), preference=Ex(a["pref"])), nb))
        for arc, nb in self.outs + self.ins:
            # a fake Land serves the flood tag as it serves the default one
            for tab in (nb.push_set_handler, nb.push_check_handler):
                tab["Sewer"] = tab["default"]

    def do(self, op):
        p, h, k = self.part, self.hub, op[0]
        sewer = self.c["cls"] == "Sewer"
        with contextlib.redirect_stdout(io.StringIO()):
            if k == "pushta":
                return h.push_set(p.d(op[1]), "Land") if sewer else h.push_set(p.d(op[1]))
            if k == "pushpipe":
                return h.push_set(p.d(op[1]))
            if k == "pushcheck":
                return h.push_check(None if op[1] is None else p.d(op[1]))
            if k == "pull":
                return h.pull_set({"volume": Ex(op[1])})
            if k == "pullcheck":
                return h.pull_check(None if op[1] is None else {"volume": Ex(op[1])})
            if k == "discharge":
                h.make_discharge() if sewer else h.distribute()
            elif k == "end":
                self.T = op[1]
                h.end_timestep()
                for arc, nb in self.outs + self.ins:
                    arc.end_timestep()
            elif k == "reinit":
                h.reinit()
            elif k == "override":
                ov = {}
                if "cap" in op[1]:
                    ov["capacity"] = Ex(op[1]["cap"])
                if "pt" in op[1]:
                    ov["pipe_time"] = op[1]["pt"]
                if "ta" in op[1]:
                    ov["pipe_timearea" if sewer else "timearea"] = {kk: Ex(v) for kk, v in op[1]["ta"]}
                try:
                    h.apply_overrides(ov)
                except RuntimeError as ex:      # recorded known finding C15 node-data-input-dict-runtimeerror (raised after every value is set)
                    if "data_input_dict" not in str(ex):
                        raise
        return None

    def enc(self):
        p = self.part
        out = K.enc_qtank_py(p, self.tank)
        for arc, nb in self.outs:
            out += K.enc_arc_py(p, arc) + [0] + nb.fk.enc()
        for arc, nb in self.ins:
            out += K.enc_arc_py(p, arc) + nb.fk.enc() + [0]
        return out


def run_impl(c):
    R = Run(c)
    out = []
    for op in c["ops"]:
        try:
            r = R.do(op)
        except ZeroDivisionError:
            return out + [-999]
        if r is not None:
            out += R.part.ev(r)
        out += R.enc()
    return out


def lit_ta(ta):
    return "[" + "; ".join(f"({k}%nat, {C.qlit(v)})" for k, v in ta) + "]"


def expr(c):
    from wsimod.core import constants
    ops = []
    cur = {"cap": c["cap"], "pt": c["pt"], "ta": c["ta"]}
    for op in c["ops"]:
        k = op[0]
        if k == "pushta":
            ops.append(f"YPushTA {C.vlit(op[1])}")
        elif k == "pushpipe":
            ops.append(f"YPushPipe {C.vlit(op[1])}")
        elif k == "pushcheck":
            ops.append(f"YPushCheck {K.lit_opt_v(op[1])}")
        elif k == "pull":
            ops.append(f"YPullSet {C.qlit(op[1])}")
        elif k == "pullcheck":
            ops.append(f"YPullCheck {K.lit_opt_q(op[1])}")
        elif k == "discharge":
            ops.append("YDischarge")
        elif k == "end":
            ops.append(f"YEnd {C.qlit(op[1])}")
        elif k == "reinit":
            ops.append(f"YReinit {C.vlit(c['init'])}")
        elif k == "override":
            cur.update(op[1])
            ops.append(f"YOverride {C.qlit(cur['cap'])} {cur['pt']}%nat {lit_ta(cur['ta'])}")
    na, nn = len(c["adds"]), len(c["nons"])
    sewer = c["cls"] == "Sewer"
    tank = f"(qt_set_T (qt_init {C.qlit(c['cap'])} {C.vlit(c['init'])} 0 {K.lit_dec(c['dec'])}) (20#1))"
    node = f"(mkQN _ {tank} {KD.star_lit(c['outs'], True)} {KD.star_lit(c['ins'], False)} {c['pt']}%nat {lit_ta(c['ta'])})"
    return f"run_qnode {na} {nn} {K.BUCKETS} {int(constants.MAXITER)} {'QSewer' if sewer else 'QGroundwater'} {node} [{'; '.join(ops)}]"


K.FAMILIES["tarea"] = (gen_case, run_impl, expr)
K.add_imports("Distrib", "Kinds", "TimeArea")


def vol_trace(c):
    """the water side of a run of the implementation: reply volumes and, after every operation, the volumes of the
    declared contents, of what has arrived, of every bucket in transit and of what every arc has carried"""
    R = Run(c)
    out = []
    for op in c["ops"]:
        try:
            rr = R.do(op)
        except ZeroDivisionError:
            return out + ["ZeroDivisionError"]
        if rr is not None:
            out.append(frac(rr["volume"]))
        t = R.tank
        q = t.internal_arc.queue
        out.append((frac(t.storage["volume"]), frac(t.active_storage["volume"]), tuple(frac(q[k]["volume"]) for k in sorted(q) if frac(q[k]["volume"]) != 0 or k <= 1),
                    tuple(frac(a.vqip_in["volume"]) for a, nb in R.outs + R.ins)))
    return out


def monitor_c20(rep, n, pid="C20"):
    """C20 on the nodes built on a queue tank: the same Sewer / QueueGroundwater history (pushes through the time-area
    diagram, abstractions, discharges, close-outs, overrides) under two pollutant configurations - different decay
    parameters (incl. none at all), different concentrations in what is pushed and held - gives the same volumes
    everywhere at every step."""
    r = C.rng("mon_c20_tarea")
    viol = 0
    st = {"pairs": 0, "decays_vs_none": 0, "with_delay_of_2_or_more": 0, "violations": 0}
    for ci in range(n):
        c = gen_case(r, 10)
        if c["cls"] != "QueueGroundwater" and ci % 3:
            c["cls"] = "QueueGroundwater"
            c["ops"] = [op for op in c["ops"] if op[0] != "pushpipe"] or [("discharge",)]
            for op in c["ops"]:
                if op[0] == "override":
                    op[1].pop("pt", None)
        for a in c["outs"] + c["ins"]:
            if a["nb"]["kind"] != "tank":       # neighbours whose answers depend on volumes only in both configurations
                a["nb"] = {"kind": "tank", "cap": a["nb"]["lim"][0], "init": (F(0), [F(0)] * len(c["adds"]), [F(0)] * len(c["nons"]))}
        part = K.Part(c["adds"], c["nons"])
        if ci % 2 == 1:
            # diagrams with gaps (a delay whose predecessor is unused) and a history long enough for every fraction to fall due
            c["ta"] = r.choice([[(0, F(1, 2)), (3, F(1, 2))], [(0, F(2, 5)), (4, F(3, 5))], [(1, F(1, 2)), (3, F(1, 2))], [(0, F(1, 4)), (2, F(1, 4)), (5, F(1, 2))]])
            c["ops"] = [op for op in c["ops"] if op[0] not in ("override", "reinit")]
            for _ in range(r.randint(5, 9)):
                c["ops"] += [("pushta", K.push_amount(r, part, c["cap"]))] if r.random() < 0.6 else []
                c["ops"] += [("discharge",), ("end", F(r.choice([5, 12, 20])))]

        def requality(v):
            return (v[0], [F(r.randint(0, 9), 10) * v[0] for _ in v[1]], [F(r.randint(0, 30)) for _ in v[2]])
        c2 = dict(c)
        c2["init"] = requality(c["init"])
        c2["ops"] = [(op[0], requality(op[1])) if op[0] in ("pushta", "pushpipe") else (op if op[0] != "pushcheck" or op[1] is None else (op[0], requality(op[1])))
                     for op in c["ops"]]
        c2["outs"] = [dict(a, nb=dict(a["nb"], init=requality(a["nb"]["init"]))) for a in c["outs"]]
        c2["ins"] = [dict(a, nb=dict(a["nb"], init=requality(a["nb"]["init"]))) for a in c["ins"]]
        if c["cls"] == "QueueGroundwater":
            if not c["dec"] and c["adds"]:
                c["dec"] = [(r.choice([F(1, 100), F(1, 2)]), r.choice([F(1), F(2)])) for _ in c["adds"]]
            c2["dec"] = [] if r.random() < 0.6 else [(r.choice([F(0), F(1, 3)]), r.choice([F(1), F(3, 2)])) for _ in c["adds"]]
            st["decays_vs_none"] += int(bool(c["dec"]) and not c2["dec"])
        st["with_delay_of_2_or_more"] += int(any(k >= 2 for k, v in c["ta"]) or c["pt"] >= 2)
        install_exact()
        G.set_partition(c["adds"], c["nons"])
        try:
            C.arm(30)
            a, b = vol_trace(c), vol_trace(c2)
            st["pairs"] += 1
            rep.add_eval(("mon_c20_tarea", ci), nontrivial=len(c["ops"]) >= 3)
            if a != b:
                viol += 1
                i = next((k for k, (x, y) in enumerate(zip(a, b)) if x != y), min(len(a), len(b)))
                if viol <= 3:
                    rep.violation("counterexample", f"{pid} monitor ({c['cls']}): the same history under two pollutant configurations gives different "
                                  f"volumes, first at trace entry {i}: {str(a[i] if i < len(a) else None)[:200]} vs {str(b[i] if i < len(b) else None)[:200]}",
                                  {"family": "tarea", "case": K.case_json(c), "case_b": K.case_json(c2)}, True)
        except C.TooSlow:
            pass
        finally:
            C.disarm()
            G.reset_partition()
    st["violations"] = viol
    rep.monitor[f"{pid}_queue_tank_nodes_paired"] = st
