"""Shared infrastructure of the /verif checks: paths, seeds, Coq build and
evaluation, audit, known findings, replay and evidence files, verdicts."""
import fcntl
import hashlib
import json
import os
import random
import re
import subprocess
import sys
import time
from fractions import Fraction

# exact runs can produce rationals of many thousand digits; the library formats numbers into messages (mass balance
# warnings): Python's default limit on int -> str conversion would turn that into a ValueError of the harness's making
if hasattr(sys, "set_int_max_str_digits"):
    sys.set_int_max_str_digits(0)

VERIF = os.path.dirname(os.path.dirname(os.path.abspath(__file__)))
REPO = os.environ.get("WSI_REPO", "/repo")
COQ = os.path.join(VERIF, "coq")
EVID = os.path.join(VERIF, "evidence")
REPLAYS = os.path.join(VERIF, "replays")
WORK = os.path.join(VERIF, ".work")
PY = "/venv/bin/python"

# every check imports the implementation from the tree under test
if sys.path[0] != REPO:
    sys.path.insert(0, REPO)
os.environ["WSIMOD_VERIF"] = "1"

FORBIDDEN = re.compile(
    r"\b(Admitted|admit|Axiom|Axioms|Parameter|Parameters|Conjecture|Hypothesis|Hypotheses|Variable|Variables"
    r"|Admit Obligations|Unset Guard Checking|bypass_check|Unset Positivity|Unset Universe Checking)\b"
    r"|type-in-type|impredicative-set")


def tier():
    t = os.environ.get("VERIF_TIER", "quick")
    return t if t in ("quick", "thorough") else "quick"


def seed():
    try:
        return int(os.environ.get("VERIF_SEED", "20260926"))
    except ValueError:
        return 20260926


def rng(tag=""):
    return random.Random(f"{seed()}:{tag}")


def sh(cmd, timeout=600, cwd=None, env=None):
    e = dict(os.environ)
    if env:
        e.update(env)
    try:
        p = subprocess.run(cmd, shell=isinstance(cmd, str), cwd=cwd, env=e, timeout=timeout,
                           stdout=subprocess.PIPE, stderr=subprocess.STDOUT, text=True)
        return p.returncode, p.stdout
    except subprocess.TimeoutExpired as ex:
        out = ex.stdout.decode() if isinstance(ex.stdout, bytes) else (ex.stdout or "")
        return 124, out + "\nTIMEOUT"


# ---------------------------------------------------------------------------
# Coq build
# ---------------------------------------------------------------------------
class BuildLock:
    def __enter__(self):
        os.makedirs(WORK, exist_ok=True)
        self.f = open(os.path.join(WORK, "build.lock"), "w")
        fcntl.flock(self.f, fcntl.LOCK_EX)
        return self

    def __exit__(self, *a):
        fcntl.flock(self.f, fcntl.LOCK_UN)
        self.f.close()


def coq_sources():
    out = []
    for root, _, files in os.walk(COQ):
        for f in files:
            if f.endswith(".v") and "/cases" not in root:
                out.append(os.path.relpath(os.path.join(root, f), COQ))
    return sorted(out)


def ensure_makefile():
    srcs = coq_sources()
    proj = "-Q . WSI\n-arg -w -arg -notation-overridden,-deprecated-hint-without-locality\n" + "\n".join(srcs) + "\n"
    pth = os.path.join(COQ, "_CoqProject")
    old = open(pth).read() if os.path.exists(pth) else None
    if old != proj or not os.path.exists(os.path.join(COQ, "Makefile")):
        open(pth, "w").write(proj)
        rc, out = sh("coq_makefile -f _CoqProject -o Makefile", cwd=COQ, timeout=120)
        if rc != 0:
            raise RuntimeError("coq_makefile failed: " + out)


def run_generators():
    """T1..: regenerate model files from REPO; returns status dict."""
    os.makedirs(os.path.join(COQ, "gen"), exist_ok=True)
    os.makedirs(WORK, exist_ok=True)
    st = {}
    rc, out = sh([PY, os.path.join(VERIF, "harness", "gen_core.py"), REPO,
                  os.path.join(COQ, "gen", "GenCore.v"), os.path.join(WORK, "gen_core.json")], timeout=120)
    st["gen_core"] = {"rc": rc, "out": out[-2000:]}
    try:
        st["gen_core"]["functions"] = json.load(open(os.path.join(WORK, "gen_core.json")))
    except Exception:
        st["gen_core"]["functions"] = {}
    for name in ("gen_const", "gen_tables", "gen_ctors", "gen_divs"):
        script = os.path.join(VERIF, "harness", name + ".py")
        if os.path.exists(script):
            rc, out = sh([PY, script, REPO, os.path.join(COQ, "gen"), WORK], timeout=300,
                         env={"PYTHONPATH": REPO, "PYTHONHASHSEED": "0"})
            st[name] = {"rc": rc, "out": out[-2000:]}
            if rc != 0:
                # fail closed: a generator that cannot read the tree must not leave a stale table behind
                gen = os.path.join(COQ, "gen", {"gen_tables": "GenHandlers.v", "gen_const": "GenConst.v", "gen_ctors": "GenCtors.v", "gen_divs": "GenDivs.v"}[name])
                open(gen, "w").write("(* generator failed *)\nDefinition generator_failed := tt tt.\n")
    return st


def build(targets, timeout=1500, jobs=12):
    """make the given .vo targets (relative to coq/). Returns (ok, log, failed_file)."""
    ensure_makefile()
    tg = " ".join(targets)
    rc, out = sh(f"timeout {timeout} make -j{jobs} {tg}", cwd=COQ, timeout=timeout + 30)
    failed = None
    m = re.findall(r'File "\./([^"]+)", line (\d+)', out)
    if rc != 0:
        failed = m[-1][0] if m else "?"
    return rc == 0, out, failed


def compile_prop(prop_file, timeout=600):
    """(re)compile props/Cxx.v, returning (ok, output)."""
    vo = os.path.join(COQ, prop_file[:-2] + ".vo")
    if os.path.exists(vo):
        os.remove(vo)
    rc, out = sh(f"timeout {timeout} coqc -Q . WSI -w -notation-overridden {prop_file}", cwd=COQ, timeout=timeout + 30)
    return rc == 0, out


def parse_assumptions(out):
    """Print Assumptions output blocks -> list of strings ('closed' or axiom list)."""
    blocks = []
    cur = None
    for line in out.splitlines():
        if line.startswith("Closed under the global context"):
            blocks.append("closed")
            cur = None
        elif line.startswith("Axioms:") or line.startswith("Section Variables:"):
            cur = [line]
            blocks.append(cur)
        elif cur is not None and (line.startswith(" ") or ":" in line):
            cur.append(line)
    return ["closed" if b == "closed" else "\n".join(b) for b in blocks]


def theorems_in(prop_file):
    txt = open(os.path.join(COQ, prop_file)).read()
    txt = re.sub(r"\(\*.*?\*\)", "", txt, flags=re.S)
    return re.findall(r"^\s*(?:Theorem|Example)\s+(\w+)", txt, flags=re.M)


def audit():
    """grep the development for forbidden vernacular; Section-local Variable/Hypothesis are
    allowed only inside a Section (checked syntactically)."""
    bad = []
    for src in coq_sources():
        txt = open(os.path.join(COQ, src)).read()
        txt = re.sub(r"\(\*.*?\*\)", "", txt, flags=re.S)
        depth = 0
        for ln, line in enumerate(txt.splitlines(), 1):
            s = line.strip()
            if re.match(r"Section\s+\w+\s*\.", s):
                depth += 1
            elif re.match(r"End\s+\w+\s*\.", s) and depth > 0:
                depth -= 1
            for m in FORBIDDEN.finditer(line):
                w = m.group(0)
                if w in ("Variable", "Variables", "Hypothesis", "Hypotheses") and depth > 0:
                    continue
                bad.append(f"{src}:{ln}: {w}")
    return bad


# ---------------------------------------------------------------------------
# evaluating the model inside Coq
# ---------------------------------------------------------------------------
class TooSlow(BaseException):
    """raised by time_limit: one exact-arithmetic run whose rationals explode (BaseException so that handlers which
    record ordinary exceptions as findings do not swallow it)"""


class time_limit:
    """SIGALRM-based limit for one implementation run (main thread only; nests: the outer alarm is restored)"""

    def __init__(self, seconds):
        self.seconds = seconds

    def __enter__(self):
        import signal

        def handler(signum, frame):
            raise TooSlow()
        self.old = signal.signal(signal.SIGALRM, handler)
        self.left = signal.alarm(self.seconds)

    def __exit__(self, *exc):
        import signal
        signal.alarm(0)
        signal.signal(signal.SIGALRM, self.old)
        if self.left:
            signal.alarm(self.left)
        return False


def arm(seconds):
    """start the watchdog for one case (see time_limit); disarm() in the `finally` of the case"""
    import signal

    def handler(signum, frame):
        raise TooSlow()
    signal.signal(signal.SIGALRM, handler)
    signal.alarm(seconds)


def disarm():
    import signal
    signal.alarm(0)


def qlit(x):
    fr = Fraction(x)
    if fr.numerator >= 0:
        return f"({fr.numerator}#{fr.denominator})"
    return f"(({fr.numerator})#{fr.denominator})"


def zlit(n):
    return f"{n}%Z" if n >= 0 else f"({n})%Z"


def veclit(xs):
    return "[" + "; ".join(qlit(x) for x in xs) + "]"


def vlit(v):
    """v = (vol, adds list, nons list) of Fractions"""
    return f"(mkV {qlit(v[0])} {veclit(v[1])} {veclit(v[2])})"


def optlit(x, f):
    return "None" if x is None else f"(Some {f(x)})"


_INT = re.compile(r"\(?(-?\d+)\)?%Z")


def eval_cases(name, header, exprs, shard=400, timeout=900):
    """Evaluate Gallina expressions of type `list Z` with vm_compute.
    Returns list (same order) of list[int] or None when evaluation failed."""
    d = os.path.join(COQ, "cases")
    os.makedirs(d, exist_ok=True)
    files = []
    for i in range(0, len(exprs), shard):
        fn = os.path.join(d, f"{name}_{os.getpid()}_{i // shard}.v")
        with open(fn, "w") as f:
            f.write(header + "\n")
            for e in exprs[i:i + shard]:
                f.write(f"Eval vm_compute in ({e}).\n")
        files.append(fn)
    procs = []
    results = []
    maxp = 12
    idx = 0
    outs = {}
    running = []
    while idx < len(files) or running:
        while idx < len(files) and len(running) < maxp:
            fn = files[idx]
            p = subprocess.Popen(f"ulimit -s unlimited 2>/dev/null; timeout {timeout} coqc -Q . WSI -w -notation-overridden {os.path.relpath(fn, COQ)}",
                                 shell=True, cwd=COQ, stdout=subprocess.PIPE, stderr=subprocess.STDOUT, text=True)
            running.append((fn, p))
            idx += 1
        fn, p = running.pop(0)
        out, _ = p.communicate()
        outs[fn] = (p.returncode, out)
    log = ""
    for i, fn in enumerate(files):
        rc, out = outs[fn]
        n = len(exprs[i * shard:(i + 1) * shard])
        chunks = re.split(r"^\s*= ", out, flags=re.M)[1:]
        got = []
        for c in chunks:
            c = c.split(": list Z")[0]
            got.append([int(x) for x in _INT.findall(c)])
        if rc != 0 or len(got) != n:
            log += f"[{os.path.basename(fn)}] rc={rc} parsed={len(got)}/{n}\n{out[-1500:]}\n"
            got = got[:n] + [None] * (n - len(got))
        results.extend(got)
        for ext in (".v", ".vo", ".vok", ".vos", ".glob"):
            try:
                os.remove(fn[:-2] + ext)
            except OSError:
                pass
        try:
            os.remove(os.path.join(d, "." + os.path.basename(fn)[:-2] + ".aux"))
        except OSError:
            pass
    return results, log


def encq(x):
    fr = Fraction(x)
    return [fr.numerator, fr.denominator]


def encv(v):
    out = encq(v[0])
    for x in v[1]:
        out += encq(x)
    for x in v[2]:
        out += encq(x)
    return out


# ---------------------------------------------------------------------------
# known findings, replays, evidence, verdict
# ---------------------------------------------------------------------------
def known_findings(pid):
    try:
        kf = json.load(open(os.path.join(VERIF, "known_findings.json")))
    except OSError:
        return []
    return [f for f in kf.get("findings", []) if f["property"] == pid and f.get("status", "open") == "open"]


def write_replay(pid, kind, payload):
    os.makedirs(REPLAYS, exist_ok=True)
    body = {"property": pid, "kind": kind, "seed": seed(), "tier": tier(), **payload}
    h = hashlib.sha1(json.dumps(body, sort_keys=True, default=str).encode()).hexdigest()[:10]
    path = os.path.join(REPLAYS, f"{pid}_{kind}_{h}.json")
    json.dump(body, open(path, "w"), indent=1, default=str)
    return path


def apply_known(rep, pid, seen):
    """seen: {signature: (message, family, case, op index)} from the monitors.
    Listed open findings are replayed on the implementation: reproduced -> KNOWN-FINDING line;
    a signature seen by a monitor but not listed -> violation."""
    import findings as FD
    listed = known_findings(pid)
    sigs = {f.get("signature") for f in listed}
    for f in listed:
        fn = FD.REPLAYS.get(f["id"])
        if fn is None:
            rep.notes.append(f"known finding {f['id']} has no replay function")
            continue
        try:
            ok, detail = fn()
        except Exception as ex:       # the replay itself fails: report, do not hide
            ok, detail = False, f"replay raised {ex!r}"
        if ok:
            rep.known.append(f"{f['id']}: {f['what']} [{detail}]")
        else:
            rep.notes.append(f"known finding {f['id']} no longer reproduces ({detail}); remove it from known_findings.json or mark it fixed")
    for sig, (msg, fam, case, i) in seen.items():
        if sig not in sigs:
            import corr_comp as K
            rep.violation("counterexample", f"{pid}: {msg}", {"family": fam, "case": K.case_json(case), "signature": sig}, True)


class Report:
    """Collects what a check run did and renders evidence + verdict."""

    def __init__(self, pid, level="proof"):
        self.pid = pid
        self.level = level
        self.t0 = time.time()
        self.obligations = 0
        self.discharged = 0
        self.theorems = []
        self.undischarged = []       # names
        self.assumptions = []
        self.corr = {}               # name -> dict(cases, mismatches, ...)
        self.monitor = {}            # name -> dict(evaluations, violations)
        self.violations = []         # (kind, description, replay_path, has_input)
        self.known = []
        self.samples = []
        self.trusted = []
        self.notes = []
        self.evaluations = 0
        self.nontrivial = set()
        self.checker_cmd = ""
        self.extra = {}

    def add_eval(self, key=None, nontrivial=False, n=1):
        self.evaluations += n
        if nontrivial and key is not None:
            self.nontrivial.add(key)

    def violation(self, kind, desc, payload, has_input):
        path = write_replay(self.pid, kind, {"description": desc, **payload})
        self.violations.append((kind, desc, path, has_input))

    def finish(self, rule, assumptions):
        os.makedirs(EVID, exist_ok=True)
        cov = {
            "obligations": self.obligations,
            "discharged": self.discharged,
            "checker_cmd": self.checker_cmd,
            "trusted_base": self.trusted,
            "theorems": self.theorems,
            "undischarged": self.undischarged,
            "print_assumptions": self.assumptions,
            "correspondence": self.corr,
            "monitors": self.monitor,
            "evaluations": self.evaluations,
            "distinct_nontrivial": len(self.nontrivial),
            "rule": rule,
            "samples": self.samples[:8] if self.samples else ["(no sample recorded)"],
            "known_findings_reproduced": self.known,
            "notes": self.notes,
        }
        cov.update(self.extra)
        level = self.level
        if level == "proof" and (self.obligations == 0):
            level = "exploration"
        ev = {
            "property_id": self.pid, "tier": tier(), "seed": seed(), "level": level,
            "coverage": cov, "assumptions": assumptions,
            "wall_s": round(time.time() - self.t0, 2), "violations": len(self.violations),
        }
        json.dump(ev, open(os.path.join(EVID, f"{self.pid}.json"), "w"), indent=1, default=str)
        for k in self.known:
            print(f"KNOWN-FINDING: property={self.pid} {k}")
        if self.violations:
            # prefer a violation with a concrete input
            self.violations.sort(key=lambda v: not v[3])
            kind, desc, path, has_input = self.violations[0]
            for kind_, desc_, path_, hi_ in self.violations[:10]:
                print(f"  violation[{kind_}] {desc_[:300]}  -> {path_}")
            tail = "" if has_input else " no-failing-input-found"
            print(f"VIOLATION property={self.pid} replay={path}{tail}")
            return 1
        print(f"OK property={self.pid} obligations={self.discharged}/{self.obligations} "
              f"evaluations={self.evaluations} wall={ev['wall_s']}s")
        return 0


BASE_TRUST = [
    "Coq 8.16.1 kernel (coqc); vm_compute for evaluating the model and finite tables; no native_compute",
    "axioms: none (Print Assumptions under every property theorem must say 'Closed under the global context')",
    "harness/gen_core.py (translator T1 from core.py to Gallina) and its point-wise reading of pollutant loops",
    "correspondence harness: running WSIMOD on the exact number class Ex exercises the same code as floats; IEEE rounding is outside the model",
]


def model_files():
    """Model files: executable definitions only (plus lemmas that do not depend on proofs about
    generated code). Listed in coq/MODEL_FILES; built before and independently of the proofs."""
    try:
        return [l.strip() for l in open(os.path.join(COQ, "MODEL_FILES")) if l.strip() and not l.startswith("#")]
    except OSError:
        return []


def proof_stage(rep, prop_file, deps_note=""):
    """generators + build + audit + Print Assumptions for one props file."""
    with BuildLock():
        gen = run_generators()
        rep.extra["generators"] = {k: {kk: vv for kk, vv in v.items() if kk != "out"} for k, v in gen.items()}
        target = prop_file[:-2] + ".vo"
        mok, mlog, mfailed = build([m[:-2] + ".vo" for m in model_files()])
        if not mok:
            rep.violation("broken-obligation", f"model file {mfailed} no longer compiles", {"log_tail": mlog[-1500:]}, False)
        # build dependencies (everything the props file requires), then the props file itself
        ok_all, log, failed = build([target])
        ok, out = (False, log) if not ok_all else compile_prop(prop_file)
    ths = theorems_in(prop_file)
    rep.theorems = ths
    rep.obligations = len(ths)
    rep.checker_cmd = f"cd {COQ} && make {target}  (coqc 8.16.1, full .vo build) + Print Assumptions + audit grep"
    if ok:
        rep.discharged = len(ths)
        ass = parse_assumptions(out)
        rep.assumptions = ass
        notclosed = [a for a in ass if a != "closed"]
        if notclosed:
            rep.undischarged.append("assumptions-not-closed")
            rep.discharged = 0
            rep.violation("broken-obligation", f"{prop_file}: theorem depends on assumptions: {notclosed[:2]}",
                          {"assumptions": notclosed}, False)
        n_print = len(re.findall(r"^Print Assumptions", open(os.path.join(COQ, prop_file)).read(), flags=re.M))
        if len(ass) != n_print:
            rep.notes.append(f"Print Assumptions blocks parsed {len(ass)} != expected {n_print}")
    else:
        rep.discharged = 0
        rep.undischarged = ths
        m = re.findall(r'File "\./([^"]+)", line (\d+), characters [^\n]*\n(?:Error:)?([^\n]*(?:\n[^\n]*){0,6})', log if not ok_all else out)
        where = f"{m[-1][0]}:{m[-1][1]}" if m else "?"
        rep.extra["build_error"] = (log if not ok_all else out)[-3000:]
        rep.violation("broken-obligation",
                      f"proof obligations of {prop_file} no longer check (first failure at {where})",
                      {"failed_at": where, "theorems": ths, "log_tail": (log if not ok_all else out)[-1500:]}, False)
    bad = audit()
    if bad:
        rep.violation("broken-obligation", f"forbidden vernacular in the development: {bad[:5]}", {"audit": bad}, False)
    rep.extra["audit_forbidden_hits"] = bad
    return ok
