"""C18 — distribution among neighbours: theorems (coq/props/C18.v), exact correspondence of
Node.push_distributed / pull_distributed / check_basic on stars, implementation monitor."""
import json
import os
import sys

import common as C
import comp_check
import corr_comp as K
import corr_star as S

PID = "C18"
RULE = ("correspondence: a hub Node with 0..6 (thorough 0..10) out-arcs and in-arcs (capacity 0..unbounded, preference 0, "
        "2^-20..2^20) to neighbours of three registered types that are tank-backed or scripted (check and set answers "
        "varying per call); operation sequences of push_distributed / pull_distributed with and without type filters, "
        "check_basic, timestep ends; reply, iteration-limit message, ZeroDivisionError and every arc record and "
        "neighbour state compared exactly with coq/Distrib.v (cases whose exact results exceed 30 digits are not sent "
        "to Coq and are counted). monitor: the C18 clauses on the implementation incl. the proportional-share clause "
        "when everything fits in the first round; family leak: the real Distribution with leakage (also overridden on a used node) against coq/Leak.v; family kind: the store-backed node classes that serve as suppliers (coq/Kinds.v); real suppliers: a junction pulling from real River (with reaches upstream) / Reservoir / Storage / Groundwater nodes - delivered <= asked, <= what the suppliers hold (computed from the contents, not from the library checks), pieces add up, exactly the delivered volume leaves the stores; probes on whole models after a run: a pull over any arc returns no more than was asked. non-trivial = distinct case with a fan of at least 2")


def main():
    rep = C.Report(PID)
    rep.trusted = list(C.BASE_TRUST) + comp_check.TRUST_COMP + [
        "coq/Distrib.v visits arcs in creation order; the implementation visits them by type in of_type order — equal "
        "results in exact arithmetic with independent neighbours (checked by the correspondence on mixed-type stars)"]
    thorough = C.tier() == "thorough"
    replay = os.environ.get("VERIF_REPLAY")
    if replay:
        body = json.load(open(replay))
        if body.get("kind") in ("counterexample", "broken-correspondence") and "case" in body:
            import mon_comp as M
            c = M.case_from_json(body["case"])
            if K.disagree("star", c):
                rep.violation("broken-correspondence", "recorded case still disagrees with the model", {"family": "star", "case": body["case"]}, False)
            rep.add_eval(("replay", str(body["case"])), True)
            return rep.finish("replay of one recorded case", [])
    C.proof_stage(rep, "props/C18.v")
    K.correspondence(rep, "star", 1500 if thorough else 200, 8, tag="c18", maxdigits=30)
    import corr_kinds  # noqa: F401
    import corr_leak  # noqa: F401
    K.correspondence(rep, "leak", 2000 if thorough else 250, 8, tag="c18", maxdigits=30)
    # the store-backed node classes as neighbours: their pull side is coq/Kinds.v (a River passes a request on upstream)
    K.correspondence(rep, "kind", 1000 if thorough else 150, 8, tag="c18", maxdigits=30)
    S.monitor_c18(rep, 3000 if thorough else 300)
    corr_kinds.monitor_c18_suppliers(rep, 2000 if thorough else 250)
    # the arcs of whole models after a run: a pull over any arc never returns more than was asked (the node classes of the
    # library at the far end, incl. a Distribution with leakage, whose check handler rewrites the request it is shown)
    import mon_probe
    seen = mon_probe.run(rep, thorough, pid=PID) or {}
    C.apply_known(rep, PID, {k: (v, "net", {"ops": [], "cls": "model"}, -1) for k, v in seen.items()})
    return rep.finish(RULE, ["exact-rational semantics stands for float semantics up to rounding",
                             "far ends respect the reply contract and answer wet offers with wet remainders (proved for tanks)",
                             "preferences and capacities are non-negative"])


if __name__ == "__main__":
    sys.exit(main())
