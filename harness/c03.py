"""C03 — theorems on the building blocks (coq/props/C03.v) + exact whole-model monitor."""
import sys

import net_check

RULE = ("random well-formed models (river chains and confluences with junctions, reservoirs and river reservoirs; supply "
        "chains reservoir - FWTW - distribution - demand - sewer(s) - WWTW - river with overflow and leakage to groundwater; "
        "land with impervious / pervious surfaces, groundwater or queue groundwater, sewers) under four pollutant "
        "configurations, shuffled insertion order, forcing with zeros, dry spells and bursts, run in exact arithmetic with the "
        "observer hooks; at every timestep the directly measured stock of the whole model changes within a timestep only by the declared boundary terms and decay, and across close-out only by the decay it records. after every run, pulls and pushes are made directly over every arc and every queue tank must still declare what it holds plus the decay its queue has applied and not yet booked. non-trivial = distinct model with >= 4 nodes."
        " correspondence (family net): random networks of the real Node, Waste, Storage, Reservoir, Groundwater, River and Catchment classes over plain arcs (3-8 nodes, chains, confluences, stores in cycles, limited capacities, preferences) driven by distribute / route / make_abstractions calls and direct pushes, pulls and checks over arcs: every store and every arc record after every operation equals the model's exactly, and the wiring hypothesis of the network theorems (net_wfb) is evaluated on every network built. correspondence (family tarea): the real Sewer and QueueGroundwater (plain and decaying) between tank-backed or scripted neighbours - time-area and pipe pushes, checks, abstractions, make_discharge / distribute, close-outs, apply_overrides on a used node - every store, queue bucket and arc record compared exactly with coq/TimeArea.v after every operation.")

def probes(rep, thorough):
    # requests made directly over every arc of models that have run: a queue tank's declared stock stays what it holds
    # plus the decay still to be booked (whole models rarely abstract from a time-area groundwater store)
    import mon_probe
    return mon_probe.run(rep, thorough, pid="C03")


if __name__ == "__main__":
    sys.exit(net_check.run("C03", RULE,
                           ["exact-rational semantics stands for float semantics up to rounding",
                            "remainders below FLOAT_ACCURACY that the code drops by design count as dust (tolerance 1e-9 on exact values)",
                            "treatment parameters are well-formed (constant x temperature factor + liquor multiplier <= 1)"],
                           n_quick=160, ndates=5, corr=[("net", 250, 2500, 8), ("tarea", 200, 2000, 8), ("wtw", 200, 2000, 8), ("demand", 150, 1500, 8), ("land", 120, 1000, 6)], extra=probes))
