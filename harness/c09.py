"""C09 — component level: theorems (coq/props/C09.v), exact correspondence, implementation monitors."""
import sys

import comp_check

RULE = ("correspondence: random operation sequences (pushes incl. forced/dry-mass/sub-epsilon, pulls, pollutant pulls, "
        "evaporation, checks, balance calls, timestep ends with varying temperature) on Tank/ResidenceTank/DecayTank, "
        "QueueTank/DecayQueueTank, Arc/PullArc/PushArc, QueueArc/DecayArc and AltQueueArc/DecayArcAlt, and the nodes built on a queue tank (Sewer, QueueGroundwater: family tarea, coq/TimeArea.v) between tank-backed or scripted (accept all / "
        "part / none, varying per call) neighbours, over random pollutant partitions; the whole observable state after "
        "every operation is compared exactly with the Gallina model. monitors: the C09 clauses evaluated directly on the "
        "implementation after every operation of fresh sequences; sewer duo: a real Sewer fed by tagged pushes (pipe_time for default / Sewer tags, pipe_timearea for Land / Demand tags, from the constructor or through apply_overrides) over 4-7 timesteps - what has arrived so far is exactly what was due. non-trivial = distinct sequence of >= 3 operations")

def duo(rep, thorough):
    # the time-area and pipe-time delays of a real Sewer (constructor values or apply_overrides), over several timesteps
    import mon_duo
    return mon_duo.run(rep, thorough, "C09")


if __name__ == "__main__":
    sys.exit(comp_check.run("C09", "qtank qarc altarc tarea".split(), RULE,
                            ["exact-rational semantics stands for float semantics up to rounding",
                             "offers are wet (non-negative, pollutant mass only with positive volume); no arc-level force for capacity clauses",
                             "end nodes respect the reply contract (proved for tank-backed ends)"], extra=duo))
