#!/usr/bin/env python3
"""Regenerates /verif/MANIFEST.json from the table below (kept in one place so it stays valid)."""
import json
import os

VERIF = os.path.dirname(os.path.dirname(os.path.abspath(__file__)))
BASELINE = ("cd /repo && /venv/bin/python -m pytest -ra -q -p no:cacheprovider --timeout=900 "
            "--continue-on-collection-errors --junitxml=/tmp/wsi_baseline_off.xml")

NOTE = ("Trusted: Coq 8.16.1 kernel + vm_compute (no native_compute); no axioms (Print Assumptions must print 'Closed "
        "under the global context' for every property theorem, checked on every run; no Axiom/Parameter/Admitted, grep-"
        "audited); the translator harness/gen_core.py (core.py -> Gallina) and the hand-written component models, "
        "policed by the exact-rational correspondence check (implementation run on the exact number class Ex vs the "
        "model evaluated with vm_compute inside coqc, compared as integers); IEEE-754 rounding is outside the model. ")

CHECKS = {
    "C10": dict(
        text="Machine-checked theorems (all fluxes, all pollutant partitions, all target volumes) about the Gallina "
             "definitions re-translated from wsimod/core/core.py on every run; exact correspondence of every core flux "
             "method incl. argument purity and ZeroDivisionError; direct law monitor on the implementation as the search "
             "for a failing input.",
        design="5/C10", tech="Coq proof over definitions regenerated from core.py by a translator + exact-rational correspondence",
        note=NOTE),
    "C11": dict(
        text="Theorems about the translated generic_temperature_decay(_c): partition, bounds, frame, saturation, "
             "temperature monotonicity, any number of consecutive close-outs; `pow` is a section variable whose two "
             "hypotheses are proved for the executable surrogate. The decay step of the store and arc models IS that function "
             "(reflexivity), and for decaying tanks (any number of close-outs), decaying travel-time arcs and queue arcs (hence "
             "decaying queue tanks) what remains plus what is reported equals what was held, at entry and at every close-out, "
             "for any number of parcels in transit. Tie: T1 + exact correspondence of the core functions and of DecayTank, "
             "DecayQueueTank, DecayArc, DecayArcAlt under random histories; C11 clause monitor after every operation. "
             "An abstraction that reaches into a decaying queue tank (QueueGroundwater.pull_set_active, TimeArea.v) leaves the decay "
             "still to be booked untouched (theorem); family tarea ties Sewer / QueueGroundwater; whole models and probes: every queue "
             "tank declares what it holds plus unbooked decay.",
        design="5/C11, 11", tech="Coq proof over definitions regenerated from core.py and over hand-written store/arc models + exact-rational correspondence + history monitor",
        note=NOTE + "Python's float ** for non-integer exponents is trusted to be positive and monotone."),
    "C02": dict(
        text="Theorems over the arc models for every operation sequence: plain/pull-only/push-only arcs keep out-record = "
             "in-record against any contract-respecting end nodes; queue arcs (QueueArc/DecayArc) satisfy in = out + "
             "change in transit + decayed + dust for ANY end-node behaviour, with the dust (requests dropped below "
             "FLOAT_ACCURACY) bounded per request, backflow part of the reply and removed from the in-record; the "
             "alternative queue arc inside queue tanks loses nothing over any number of close-outs. Refuted part "
             "(sub-FLOAT_ACCURACY pushes swallowed with their pollutant load) is a recorded known finding. Tie: exact "
             "operation-sequence correspondence of the hand-written models; implementation-side ledger monitor. Every queue tank, decaying or not, satisfies declared contents = arrived + in transit + decay pending report in every reachable state (DecayQTank.v). Whole models "
             "under Model.run (mixed arc classes) and a sewer discharging over every arc class into receivers that fill up: per arc and "
             "timestep entered = left + change in transit + decayed, nothing but decay between timesteps."
             ' Whole models: every fourth is run as two consecutive calls of Model.run with travel-time arcs under way at the boundary (arc ledgers across the boundary).',
        design="5/C02", tech="Coq proof (induction over operation lists, arbitrary end-node oracle) over hand-written models + exact-rational correspondence",
        note=NOTE + "Scope: arcs as components (all eight classes through Arc/QueueArc/AltQueueArc models; DecayArcAlt only inside DecayQueueTank); model-level runs are monitored by C01/C03 once built."),
    "C04": dict(
        text="Theorems: a push/pull over a plain arc between ANY two end nodes meeting the reply contract moves exactly "
             "offer - reply = record = receiver gain (push) and reply = record = supplier loss (pull), reply between "
             "nothing and the offer, pull at most what was asked; stores: entered + remainder = offer with the offer's "
             "composition; queue arcs: the same once due water is counted (ledger theorems). Tank-backed ends are "
             "proved to meet the contract. Tie: exact correspondence; three-view monitor (sender/record/receiver) after "
             "each of a sequence of requests. The nodes built on a queue tank (Sewer, QueueGroundwater) are modelled (TimeArea.v) "
             "and compared exactly (family tarea); probes on whole models, every tagged push the library emits against every target "
             "class, whole models (node without boundary terms: arc records = store change) and the sewer duo monitor (late bounces "
             "with changed quality) evaluate the clauses on the implementation. Theorems (SewerLaws.v): Sewer.make_discharge and "
             "QueueGroundwater.distribute against any contract-respecting neighbours - tank loss = carried by the out-arcs.",
        design="5/C04", tech="Coq proof (contract-parametric) over hand-written models + exact-rational correspondence",
        note=NOTE + "Scope: component level (all arc classes x {Tank, scripted accept/part/none} ends); other node classes enter through the contract, whose instances for them are not yet proved."),
    "C05": dict(
        text="Theorems: for every admissible operation sequence and every prefix, against any contract-respecting ends, "
             "0 <= flow_in <= capacity for plain, pull-only, push-only and queue arcs (travel-time-averaged admission), "
             "flow_in is lowered only by a timestep end; in EVERY tank state an unforced push yields level <= "
             "max(capacity, level before) with entered + returned = offer; queue tanks: the limited level includes "
             "water still queued (storage = arrived + buckets is an invariant); pulls, evaporation and pollutant pulls "
             "take at most what is there. Tie: exact correspondence + direct capacity monitor (answers to queries are written on: a store that hands out its own record is seen). The thresholds hard-coded in the models are the constants of the tree under test (T4)."
             ' Whole models under Model.run, every fifth with parallel arcs between the same pair of nodes: admitted <= capacity per arc and timestep.',
        design="5/C05", tech="Coq proof (invariants by induction over operation lists) over hand-written models + exact-rational correspondence",
        note=NOTE + "Arc-level force=True (used nowhere in the library) is outside the arc clauses: a forced over-capacity push makes the spare capacity negative."),
    "C06": dict(
        text="Theorems: non-negativity of store contents, arc records, admitted flow and replies is an invariant of every "
             "tank operation (wet offers), of every operation sequence on plain arcs between contract-respecting ends, "
             "of queue-tank pushes/pulls/close-outs and of queue-arc admission. Refuted part (QueueArc in-record driven "
             "negative by a late bounce) is a recorded known finding with a model witness replayed on the "
             "implementation. IEEE rounding is outside the model."
             ' Every fifth whole model has parallel arcs between the same pair of nodes.',
        design="5/C06", tech="Coq proof (invariants over operation lists) over hand-written models + exact-rational correspondence",
        note=NOTE + "Scope: component level; whole-model runs are scanned by the network monitors once built.", cat="proof"),
    "C09": dict(
        text="Theorems: in a queue tank a push with built-in delay n and extra delay t lands in bucket n+t, is usable only "
             "after exactly n+t close-outs and from then on (impulse-response theorem over any number of close-outs), "
             "counts towards contents and capacity meanwhile, pulls take only what has arrived, nothing is lost; "
             "time-area fractions summing to 1 add up to the flux; queue arcs deliver or bounce exactly the requests of "
             "the direction whose remaining time is 0 (for any far end) and close-out lowers every remaining time by "
             "one. A decaying queue tank keeps the timetable of the plain one (volume erasure theorem, after the repair of "
             "DecayQueueTank._end_timestep); time-area pushes of Sewer / QueueGroundwater keep the contents declared and land every "
             "fraction in the bucket of its own delay (TimeAreaArrival.v). Tie: exact "
             "correspondence (incl. family tarea: Sewer and QueueGroundwater with overrides on used nodes) + an independent "
             "delay-schedule reference on the implementation (queue tanks, and a real Sewer fed by tagged pushes over several timesteps).",
        design="5/C09", tech="Coq proof (induction over close-outs and request lists) over hand-written models + exact-rational correspondence",
        note=NOTE + "Sub-FLOAT_ACCURACY pushes are outside the QueueTank arrival theorems (hypothesis eps <= vol); the decaying tank is covered in volume through the erasure theorem."),
    "C18": dict(
        text="Theorems about the model of Node.push_distributed / pull_distributed / get_connected on a star, for any "
             "fan-out, capacities, preferences >= 0, type filter and iteration limit, against any far ends meeting the "
             "reply contract: 0 <= not pushed <= offer, pulled <= asked, the pieces recorded on the arcs add up to the "
             "reported total, filtered-out arcs are untouched, every arc stays within capacity, and when the loop stops "
             "before the iteration limit the request is met or nothing more is feasible (both within FLOAT_ACCURACY); "
             "per-round shares are proportional to allocation and bounded. Tie: exact correspondence incl. the "
             "iteration-limit message and ZeroDivisionError, with arcs connected after the node has been used; implementation monitor incl. "
             "the proportional-share clause, feasibility asked of the arcs one by one; probes on whole models: a pull over any arc returns no more than asked. "
             "Distribution with leakage (Leak.v, family leak): at most the request when the leak is placed (theorem); the open finding "
             "(unplaced leak handed to the consumer) has a model witness in Refuted.v replayed on the implementation.",
        design="5/C18", tech="Coq proof (induction over arcs and over the bounded redistribution loop, contract-parametric) over a hand-written model + exact-rational correspondence",
        note=NOTE + "The model visits arcs in creation order (see trusted base in the evidence); of_type given as a bare string (substring test in the single-arc path) is not modelled."),
    "C01": dict(
        text="PARTIAL proof: theorems for the building blocks of a node (a junction's out-arc records add up to what it "
             "accepted and its in-arc records to what it hands on, for any fan-out and far ends meeting the reply contract; "
             "stores: entered + returned = offered, left = reported; plain arcs: out-record = in-record). The whole-model "
             "statement (every node class, every topology and history) is NOT yet a theorem: it is checked by an exact-"
             "arithmetic monitor on random well-formed models (declared in - out = directly measured storage change + decay, "
             "residual tolerance only for sub-FLOAT_ACCURACY dust). Node classes with theorems of their own: Demand / ResidentialDemand "
             "(Demand.v: declared accounts = arc records), Sewer and QueueGroundwater discharge (SewerLaws.v), whole networks of "
             "junction / store / river / catchment nodes (NetLaws.v, water), the treatment step and WWTW.calculate_discharge (WtwLaws.v); "
             "the pervious surface (LandLaws.v: IHACRES creates and loses no water); families net, demand, tarea, wtw, land tie them.",
        design="5/C01", tech="Coq proof for junction/store/arc building blocks + exact-arithmetic whole-model balance monitor (partial)",
        note=NOTE + "Node classes beyond junction/store/arc are modelled only by the implementation monitor at this stage."),
    "C03": dict(
        text="PARTIAL proof: close-out theorems for every store and arc model (close-out changes the physical contents only by "
             "the decay it applies, records exactly that, re-bases the lagged copy to the contents before decay; queue tanks and "
             "queue arcs keep what is in transit). The summation over a whole model is checked by an exact-arithmetic stock "
             "monitor (object-graph walk over all Tank instances, queue contents and WWTW liquor; within a timestep stock "
             "changes only by declared boundary terms and decay; across close-out only by recorded decay; every queue tank declares what "
             "it holds plus unbooked decay, also after requests made directly over every arc). An abstraction from a time-area store keeps "
             "the tank's books (theorem over TimeArea.v, tied by family tarea)."
             ' Every fourth whole model is run as two consecutive calls of Model.run (stock ledger across the boundary, water under way in travel-time arcs).',
        design="5/C03", tech="Coq proof of the close-out lemmas + exact-arithmetic whole-model stock monitor (partial)",
        note=NOTE),
    "C12": dict(
        text="PARTIAL proof: in the models every unguarded division of the source is an explicit error value and the "
             "correspondence demands that the implementation raises exactly there; proved: push_distributed never divides "
             "by zero when all preferences are positive; store operations have no error case. Whole-model totality is "
             "checked by a boundary-stream monitor (all-zero / dry-start / bursty forcing, zero demand, empty and full "
             "stores; exact run: any exception; float run: non-finite scan). Three genuine defects found this way were "
             "repaired with fix: commits (see known_findings.json). Every division site of the library (table regenerated from the source, T5) is one of the reviewed sites with the same divisor and guards."
             ' Float stream also: stores that release into the reach they draw from (loops through a reservoir), junction by-passes.',
        design="5/C12", tech="Coq proof of division-site lemmas + boundary-stream whole-model monitor (partial)",
        note=NOTE),
    "C20": dict(
        text="PARTIAL proof: erasure theorems - two stores / fluxes / arcs that agree in volume and differ arbitrarily in "
             "pollutant lists, masses and qualities give equal volumes under every store operation, close-out and every "
             "push/pull over a plain arc between volume-determined ends (tank-backed ends are). Whole models: paired exact "
             "runs of the same hydraulic set-up under different pollutant lists, orders, concentrations, loads and treatment "
             "parameters must give identical volumes for every arc and store at every timestep (every third set-up with travel-time / "
             "decaying arcs and ephemeral streams, configurations without decay and with all-zero qualities). Queue tanks: any two with "
             "the same dimensions and volumes give the same volumes under every operation sequence WHETHER OR NOT THEY DECAY (QTankErasure.v); "
             "the volumes of the treatment step and of IHACRES on a pervious surface depend on volumes, hydraulic parameters and weather only (NodeErasure.v). "
             "The queue-tank models of those theorems are tied to the code in this check (families qtank, altarc, tarea, incl. reinit) and a paired monitor runs "
             "Sewer / QueueGroundwater histories under two pollutant configurations (decays vs none).",
        design="5/C20", tech="Coq proof (relational erasure lemmas) + paired exact whole-model runs (partial)",
        note=NOTE),
    "C13": dict(
        text="PARTIAL proof: chunking theorem (a run over d1 ++ d2 is the run over d1 followed by the run over d2 from the state "
             "reached, results concatenated, for any step function whose whole state is its argument) and well-definedness of "
             "the river order as a function of insertion order alone (model compared exactly with the implementation on random "
             "river graphs). Interpreter-level behaviour is reached only by the monitor: bit-exact reruns, every 2-chunk split, "
             "fresh interpreters under several hash seeds, contamination by another model in the same process. Crop calendars "
             "(spring- and autumn-sown, leap years) over 7-10 months cut at random days. Two genuine "
             "defects (hash-seed dependent river order) were repaired with fix: commits.",
        design="5/C13", tech="Coq proof of the chunking / order-determinism core + fresh-interpreter differential reruns of the implementation (partial)",
        note=NOTE),
    "C16": dict(
        text="Theorems about the model of Model.add_arcs / assign_upstream / river_discharge_order: for ANY river arc list "
             "(convergent or divergent, any insertion order) whose levels converged, a river precedes every river it can reach "
             "through river / junction / reservoir arcs, every river that drains to an outlet is in the order exactly once, "
             "levels strictly decrease downstream. Tie: exact river-order correspondence on random acyclic graphs. The "
             "call-sequence clauses (orchestration order, once per node, close-out, recorded flow = delivered flow) are checked "
             "by an event-log monitor on the implementation (partial for that part), river networks with travel-time arcs below junctions "
             "(pushed once per tributary and timestep) included. Every fourth river network is not built in code but loaded as a scenario "
             "(Model.load with nodes / arcs / dates overrides) on top of the saved configuration of another network.",
        design="5/C16", tech="Coq proof (relaxation fixpoint + stable sort) over a hand-written model + exact river-order correspondence + event-log monitor",
        note=NOTE),
    "C07": dict(
        text="PARTIAL proof: theorems for every store level and arc state (hence every state reachable by earlier requests): a "
             "store's pull check X then a pull of y returns min(y, X), its push check X then a push of volume v leaves "
             "max(v - X, 0); the same through a plain arc with capacity and admitted flow in front of a tank-backed node; a "
             "river without upstream neighbours (minimum flow subtracted). Other node classes: check -> request probes on every "
             "arc of random whole models after real request histories. Two genuine defects (stale QueueGroundwater push check, "
             "Catchment push check echoing the offer) were repaired with fix: commits. WWTW: the sewer push check is honest in every "
             "state (theorem over Wtw.v, family wtw); Distribution with leakage: Leak.v, family leak, model witness of the open finding. "
             "Garden irrigation (the check / request pair served by a surface): float monitor on real Land / GardenSurface / ResidentialDemand objects.",
        design="5/C07", tech="Coq proof (min/max case analysis over store and arc models) + exact correspondence + check->request probes on whole models (partial)",
        note=NOTE),
    "C08": dict(
        text="Theorems: over the finite handler / emission tables regenerated from the live classes on every run, every tagged "
             "request a component can emit towards a neighbour type has a set- and a check-handler in every class seen under "
             "that type name (vm_compute over exactly those tables); pull-only arcs never carry a push and hand it back intact, "
             "push-only arcs never carry a pull, checks change nothing; a distribution leaves arcs to neighbours of other "
             "types untouched (frame theorems, any fan-out). Tie: table generator T2, arc and star correspondence (list and "
             "bare-string filters, substring-related class names); behavioural cross-product monitor (class x arc class x "
             "request kind, incl. forced pushes over pull-only arcs; every emission towards every target class; every tag the library emits "
             "pushed over every arc class that queues requests reaches the far end with that tag, at once or when due). Two "
             "genuine defects were repaired with fix: commits.",
        design="5/C08", tech="Coq proof over generated finite tables (vm_compute) and over arc/star models + exact correspondence + behavioural cross product",
        note=NOTE + "A tag or type filter computed at run time would be invisible to T2 (none in the library; the generator reports dynamic ones)."),
    "C17": dict(
        text="Theorems about the boundary-function models: rain on an impervious surface is depth x area, its evaporation is "
             "within potential evaporation x coefficient x area and within rain + stored water and the store changes by rain - "
             "evaporation; deposition is load x area with no water; household demand is population x per-capita use with "
             "population x load; catchment inflow is the data row with mass = concentration x flow. Tie: exact correspondence "
             "of these functions and of the catchment routing / abstraction model. Whole models (incl. pervious surfaces, which "
             "are not modelled in Coq): monitor with an independent evaluation of the configuration data (partial for those); deposition "
             "read from monthly surface forcing under Model.run over date lists that are not contiguous days (same month in consecutive "
             "years, month and year ends, gaps): declared = value for the month of the timestep x area. Pervious surfaces are now modelled "
             "(LandV.v, family land) with a theorem for their rain and evaporation bounds; demand nodes declare what they generate (Demand.v).",
        design="5/C17", tech="Coq proof over hand-written boundary-function models + exact correspondence + independent-oracle whole-model monitor",
        note=NOTE),
    "C19": dict(
        text="Theorems about the River / RiverReservoir models for all geometries (riverrc arbitrary), minimum flows, states and "
             "neighbours meeting the reply contract: an abstraction in ANY state takes at most the water above mrf/riverrc, at "
             "most what was asked, nothing at or below the allowance (so any number of abstractions in any order); with the "
             "water in the river's own store the allowance is kept and the check is honest; the release step takes "
             "min(outstanding, contents), never more than outstanding, and counts exactly what went downstream. Tie: exact "
             "correspondence of the real classes as hubs of typed stars, with apply_overrides on a node that has been used (KOverride); "
             "monitor with tank-backed upstream neighbours that computes the allowance from the current parameters itself and re-parameterises "
             "reaches mid-history. One "
             "genuine defect (unpushed release counted as satisfied) was repaired with a fix: commit.",
        design="5/C19", tech="Coq proof (contract-parametric, over Tank + Distrib models) + exact correspondence + implementation monitor",
        note=NOTE + "riverrc is evaluated with a rational surrogate of exp on both sides of the correspondence; the theorems do not depend on its value."),
    "C14": dict(
        text="PARTIAL proof: theorems about the parameter models of Params.v - for Surface, ImperviousSurface, PerviousSurface, "
             "Storage, River, WTW and Arc, in EVERY state reachable by construction followed by any sequence of overrides, "
             "constructing from the arguments Model.save writes gives the component back with all derived quantities (the "
             "pervious soil depth is divided by the porosity on save: the version writing the attribute itself is refuted with a "
             "witness), and a second save writes what the first wrote; a run interrupted at ANY timestep boundary and continued "
             "from the state reached is the uninterrupted run (for any step function whose whole state is its argument). Tie: "
             "exact correspondence through the real Model.save / config.yml / Model.load. The text layer (yaml, csv, csv.gz), "
             "dill, date classes and all other classes are reached by the whole-model save/load/resave and pickle-at-every-"
             "boundary monitor only. Five genuine defects were repaired with fix: commits."
             ' Pollutant sets with no additive / no non-additive pollutant saved and loaded into a fresh session.',
        design="11/C14", tech="Coq proof (round-trip laws over hand-written parameter models, chunking theorem) + exact correspondence through Model.save/load + whole-model save/load and pickle/resume monitor (partial)",
        note=NOTE),
    "C15": dict(
        text="PARTIAL proof: theorems about the parameter models of Params.v - for Tank, Arc, Surface, ImperviousSurface, "
             "PerviousSurface, Storage, River, WTW and EVERY sequence of override dictionaries (any key subsets and values): the "
             "component reached is the one constructed with the merged arguments, all derived quantities included; the same "
             "override applied again changes nothing; derived quantities are consistent in every reachable state. Ownership "
             "model (cells / instances): for every sequence of constructions and overrides, an override changes its own "
             "component as dict.update does and no other component, construction touches nobody, the constructor's default "
             "object never changes, so later default constructions get the declared default (storing the object itself is "
             "refuted with a witness). Ties: constructor table T3 regenerated from the source (all constructors keep copies: "
             "vm_compute over exactly that table), exact correspondence of the real classes. Behaviour under request "
             "sequences, handler decoration and the remaining classes are reached by the twin / bystander monitor only. Two "
             "recorded known findings (Node data_input_dict, deposition not enabled by override); three defects repaired."
             ' Every other case hands the overrides to Model.add_overrides (zero values, two entries naming one component in one block).',
        design="11/C15", tech="Coq proof (override algebra + ownership invariant by induction over operation lists) + generated finite table (vm_compute) + exact correspondence + constructed-twin / bystander monitor (partial)",
        note=NOTE),
}

ALL = [f"C{n:02d}" for n in range(1, 21)]
PENDING = "check not built yet in this state of /verif (work in progress; see DESIGN.md section 9)"


def main():
    checks = []
    for pid in ALL:
        if pid not in CHECKS:
            continue
        c = CHECKS[pid]
        checks.append({
            "property_id": pid,
            "quick_cmd": f"./check {pid} --tier quick",
            "thorough_cmd": f"./check {pid} --tier thorough",
            "evidence_file": f"/verif/evidence/{pid}.json",
            "replay_cmd_template": f"./check {pid} --replay {{path}}",
            "engine": "coq-model+exact-correspondence",
            "level_claimed": {"category": c.get("cat", "proof"), "text": c["text"], "design_ref": "DESIGN.md §" + c["design"]},
            "level_note": c["note"],
            "technique": c["tech"],
        })
    m = {
        "version": 1,
        "setup_cmd": "cd /verif && ./setup.sh",
        "hooks": {
            "guard": "WSIMOD_VERIF",
            "enable": "export WSIMOD_VERIF=1 (set by ./check); Model.run then calls model._verif_pre / model._verif_post if present",
            "baseline_off_cmd": BASELINE,
            "source_commits": json.load(open(os.path.join(VERIF, "hooks.json")))["source_commits"],
            "add_only": True,
        },
        "engines": [{
            "name": "coq-model+exact-correspondence", "path": "/verif/coq, /verif/harness",
            "serves_properties": [c["property_id"] for c in checks],
            "kind_free_text": "Rocq/Coq 8.16 development (model + theorems) tied to /repo by a source-to-Gallina translator "
                              "for core.py and by exact-rational differential runs for hand-written component models; "
                              "implementation-side property monitors are the search for a failing input",
        }],
        "checks": checks,
        "not_applicable": [{"property_id": p, "reason": PENDING} for p in ALL if p not in CHECKS],
        "notes": "Known genuine defects recorded in /verif/known_findings.json; fix: commits listed there as fixed entries.",
    }
    json.dump(m, open(os.path.join(VERIF, "MANIFEST.json"), "w"), indent=1)


if __name__ == "__main__":
    main()
