#!/usr/bin/env python3
"""Regenerates /verif/MANIFEST.json from the table below (kept in one place so it stays valid)."""
import json
import os

VERIF = os.path.dirname(os.path.dirname(os.path.abspath(__file__)))
BASELINE = ("cd /repo && /venv/bin/python -m pytest -ra -q -p no:cacheprovider --timeout=900 "
            "--continue-on-collection-errors --junitxml=/tmp/wsi_baseline_off.xml")

NOTE = ("Trusted: Coq 8.16.1 kernel + vm_compute (no native_compute); no axioms (Print Assumptions must print 'Closed "
        "under the global context' for every property theorem, checked on every run; no Axiom/Parameter/Admitted, grep-"
        "audited); the translator harness/gen_core.py (core.py -> Gallina) and the hand-written component models, "
        "policed by the exact-rational correspondence check (implementation run on the exact number class Ex vs the "
        "model evaluated with vm_compute inside coqc, compared as integers); IEEE-754 rounding is outside the model. ")

CHECKS = {
    "C10": dict(
        text="Machine-checked theorems (all fluxes, all pollutant partitions, all target volumes) about the Gallina "
             "definitions re-translated from wsimod/core/core.py on every run; exact correspondence of every core flux "
             "method incl. argument purity and ZeroDivisionError; direct law monitor on the implementation as the search "
             "for a failing input.",
        design="5/C10", tech="Coq proof over definitions regenerated from core.py by a translator + exact-rational correspondence",
        note=NOTE),
    "C11": dict(
        text="Theorems about the translated generic_temperature_decay(_c): partition, bounds, frame, saturation, "
             "temperature monotonicity, any number of consecutive close-outs; `pow` is a section variable whose two "
             "hypotheses are proved for the executable surrogate. Exact correspondence + law monitor on the implementation.",
        design="5/C11", tech="Coq proof over definitions regenerated from core.py + exact-rational correspondence",
        note=NOTE + "Python's float ** for non-integer exponents is trusted to be positive and monotone."),
}

ALL = [f"C{n:02d}" for n in range(1, 21)]
PENDING = "check not built yet in this state of /verif (work in progress; see DESIGN.md section 9)"


def main():
    checks = []
    for pid in ALL:
        if pid not in CHECKS:
            continue
        c = CHECKS[pid]
        checks.append({
            "property_id": pid,
            "quick_cmd": f"./check {pid} --tier quick",
            "thorough_cmd": f"./check {pid} --tier thorough",
            "evidence_file": f"/verif/evidence/{pid}.json",
            "replay_cmd_template": f"./check {pid} --replay {{path}}",
            "engine": "coq-model+exact-correspondence",
            "level_claimed": {"category": c.get("cat", "proof"), "text": c["text"], "design_ref": "DESIGN.md §" + c["design"]},
            "level_note": c["note"],
            "technique": c["tech"],
        })
    m = {
        "version": 1,
        "setup_cmd": "cd /verif && ./setup.sh",
        "hooks": {
            "guard": "WSIMOD_VERIF",
            "enable": "export WSIMOD_VERIF=1 (set by ./check); Model.run then calls model._verif_pre / model._verif_post if present",
            "baseline_off_cmd": BASELINE,
            "source_commits": json.load(open(os.path.join(VERIF, "hooks.json")))["source_commits"],
            "add_only": True,
        },
        "engines": [{
            "name": "coq-model+exact-correspondence", "path": "/verif/coq, /verif/harness",
            "serves_properties": [c["property_id"] for c in checks],
            "kind_free_text": "Rocq/Coq 8.16 development (model + theorems) tied to /repo by a source-to-Gallina translator "
                              "for core.py and by exact-rational differential runs for hand-written component models; "
                              "implementation-side property monitors are the search for a failing input",
        }],
        "checks": checks,
        "not_applicable": [{"property_id": p, "reason": PENDING} for p in ALL if p not in CHECKS],
        "notes": "Known genuine defects recorded in /verif/known_findings.json; fix: commits listed there as fixed entries.",
    }
    json.dump(m, open(os.path.join(VERIF, "MANIFEST.json"), "w"), indent=1)


if __name__ == "__main__":
    main()
