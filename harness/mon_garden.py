"""C07 monitor for the one check / request pair of the library that is served by a surface: garden irrigation.  A Demand
node asks a Land node over an arc with the tag ("Demand", "Garden") how much irrigation its GardenSurface can receive (push
check) and then pushes irrigation (push request).  Real Land / GardenSurface / ResidentialDemand / Arc objects in floating
point; soils from dry to saturated, wet and dry days, one to four timesteps; after the land has run its timestep, two to
four rounds of check -> request (a part of the offer, as a ResidentialDemand with gardening_efficiency < 1 asks, or all of
it, or more).  Clause: a request of y after a check that offered X leaves max(y - X, 0) unplaced, and the soil tank rises by
what was placed."""
import contextlib
import io
import random

import common as C

TAG = ("Demand", "Garden")
TOL = 1e-9


def gen_case(r):
    area = r.choice([1.0, 10.0, 250.0])
    depth = r.choice([0.3, 0.5, 1.0])
    por = r.choice([0.4, 0.45])
    cap = area * depth * por
    nd = r.randint(1, 4)
    return {"area": area, "depth": depth, "porosity": por, "fc": 0.3, "wp": r.choice([0.1, 0.12]),
            "fill": r.choice([0.0, 0.35, 0.6, 0.7, 0.9, 1.0, 1.0, 1.0]),
            "other_surface": r.random() < 0.4, "polset": r.choice(["simple", "simple", "default"]),
            "start": r.choice(["2000-05-01", "2000-07-30", "2001-02-27", "2000-12-30"]),
            "days": [{"precipitation": r.choice([0.0, 0.0, 0.0, 0.002, 0.02]), "et0": r.choice([0.001, 0.004, 0.006]), "temperature": r.choice([4.0, 15.0, 22.0]),
                      "rounds": [r.choice([0.4, 0.5, 1.0, 1.0, 1.7]) for _ in range(r.randint(2, 4))]} for _ in range(nd)],
            "efficiency": r.choice([0.4, 0.6, 1.0])}


def run_case(c):
    """returns (messages, rounds probed, rounds with a positive offer)"""
    import pandas as pd
    from wsimod.arcs.arcs import Arc
    from wsimod.core import constants
    from wsimod.nodes.demand import ResidentialDemand
    from wsimod.nodes.land import Land
    bad = []
    n = pos = 0
    if c["polset"] == "simple":
        constants.set_simple_pollutants()
    else:
        constants.set_default_pollutants()
    try:
        dates = list(pd.date_range(c["start"], periods=len(c["days"]), freq="D"))
        data = {}
        for d, day in zip(dates, c["days"]):
            for k in ("precipitation", "et0", "temperature"):
                data[(k, d)] = day[k]
        cap = c["area"] * c["depth"] * c["porosity"]
        surfaces = []
        if c["other_surface"]:
            surfaces.append({"type_": "ImperviousSurface", "surface": "roofs", "area": c["area"] / 2, "pore_depth": 0.01})
        garden_cfg = {"type_": "GardenSurface", "surface": "garden", "area": c["area"], "rooting_depth": c["depth"], "total_porosity": c["porosity"],
                      "field_capacity": c["fc"], "wilting_point": c["wp"], "initial_storage": cap * c["fill"]}
        if c["polset"] == "default":
            # monthly nutrient forcing of a growing surface (keys as Model.run sets them: the month as a pandas period)
            garden_cfg["data_input_dict"] = {(f"{nut}-{src}", d.to_period("M")): 1e-6 for d in dates for nut in ("nhx", "noy", "srp")
                                             for src in ("fertiliser", "manure", "residue", "dry", "wet")}
        surfaces.append(garden_cfg)
        with contextlib.redirect_stdout(io.StringIO()):
            land = Land(name="land", surfaces=surfaces, data_input_dict=data)
            dem = ResidentialDemand(name="houses", gardening_efficiency=c["efficiency"], data_input_dict={("temperature", d): 15.0 for d in dates})
            arc = Arc(name="houses-to-garden", in_port=dem, out_port=land)
            garden = land.surfaces[-1]
            for d, day in zip(dates, c["days"]):
                land.t = d
                dem.t = d
                land.monthyear = d.to_period("M")
                land.run()
                for share in day["rounds"]:
                    X = float(arc.send_push_check(tag=TAG)["volume"])
                    y = X * share if X > 0 else 0.001
                    before = float(garden.storage["volume"])
                    offer = garden.empty_vqip()
                    offer["volume"] = y
                    left = float(arc.send_push_request(offer, tag=TAG)["volume"])
                    rise = float(garden.storage["volume"]) - before
                    n += 1
                    pos += X > 0
                    want = max(y - X, 0.0)
                    sc = max(1.0, abs(y), abs(before))
                    if abs(left - want) > TOL * sc:
                        bad.append(f"{d.date()}: garden push check over Arc ResidentialDemand->Land offered {X!r}, a request of {y!r} left {left!r} "
                                   f"unplaced (expected {want!r}); soil tank at {before!r} of capacity {float(garden.capacity)!r}")
                    elif abs(rise - (y - left)) > TOL * sc:
                        bad.append(f"{d.date()}: garden took {y - left!r} of a request of {y!r} but its soil tank rose by {rise!r}")
                land.end_timestep()
                dem.end_timestep()
                arc.end_timestep()
    finally:
        constants.set_default_pollutants()
    return bad, n, pos


def run(rep, thorough, pid="C07"):
    r = C.rng("c07_garden")
    n = 600 if thorough else 80
    st = {"cases": 0, "rounds": 0, "rounds_with_an_offer": 0, "saturated_soils": 0, "raised": 0, "violations": 0}
    for i in range(n):
        c = gen_case(random.Random(r.getrandbits(48)))
        try:
            bad, k, pos = run_case(c)
        except Exception as ex:
            st["raised"] += 1
            rep.notes.append(f"{pid} garden monitor: case raised {type(ex).__name__}: {ex} (totality is C12)")
            continue
        st["cases"] += 1
        st["rounds"] += k
        st["rounds_with_an_offer"] += pos
        st["saturated_soils"] += c["fill"] == 1.0
        rep.add_eval(("garden", i), nontrivial=pos >= 2)
        if bad:
            st["violations"] += 1
            if st["violations"] <= 3:
                rep.violation("counterexample", f"{pid} monitor (garden irrigation): {bad[0]}" + (f" (+{len(bad) - 1} more)" if len(bad) > 1 else ""),
                              {"part": "garden", "case": c}, True)
    rep.monitor[f"{pid}_garden_irrigation"] = st
    return {}
