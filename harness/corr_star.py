"""Exact correspondence and monitors for Node.push_distributed / pull_distributed /
check_basic on a star (hub node, arcs with capacity and preference, neighbours of
several registered types): implementation on Ex numbers vs coq/Distrib.v."""
import contextlib
import io
from fractions import Fraction as F

import common as C
import corr_comp as K
import gens as G
from exnum import EPS, UNBOUNDED, Ex, frac, install_exact

from wsimod.nodes.nodes import Node


class _Nb(Node):
    """a neighbour of a registered type whose handlers are a tank or a script (K.FakeNode)"""

    def __init__(self, name, part, spec, tagged=False):
        super().__init__(name)
        self.fk = K.FakeNode(name, part, spec)
        real = {"push_set": lambda v: self.fk.push_set(v), "push_check": lambda v=None: self.fk.push_check(v),
                "pull_set": lambda v: self.fk.pull_set(v), "pull_check": lambda v=None: self.fk.pull_check(v)}
        if tagged:
            # like Land: the default tag is denied, only the tag "alt" is served
            self.push_set_handler = {"default": self.push_set_deny, "alt": real["push_set"]}
            self.push_check_handler = {"default": self.push_check_deny, "alt": real["push_check"]}
            self.pull_set_handler = {"default": self.pull_set_deny, "alt": real["pull_set"]}
            self.pull_check_handler = {"default": self.pull_check_deny, "alt": real["pull_check"]}
        else:
            self.push_set_handler = {"default": real["push_set"], "alt": real["push_set"]}
            self.push_check_handler = {"default": real["push_check"], "alt": real["push_check"]}
            self.pull_set_handler = {"default": real["pull_set"], "alt": real["pull_set"]}
            self.pull_check_handler = {"default": real["pull_check"], "alt": real["pull_check"]}


# class names chosen so that each is a substring of the next: a string type filter must still match exactly
class VerifNb(_Nb):
    pass


class VerifNbX(_Nb):
    pass


class VerifNbXY(_Nb):
    pass


TYPES = [VerifNb, VerifNbX, VerifNbXY]


def rand_ot(r):
    c = r.random()
    if c < 0.45:
        return None
    if c < 0.6:
        return [r.randint(0, 2)]
    if c < 0.78:
        return ("str", r.randint(0, 2))        # a single type name given as a plain string
    return r.sample([0, 1, 2], 2)


def gen_star_case(r, maxops, maxfan=6):
    adds, nons = G.rand_partition(r, 0, 2, 1)
    part = K.Part(adds, nons)

    def arcs(n):
        out = []
        for _ in range(n):
            out.append({"cap": r.choice([F(0), F(2), F(5), F(25, 2), UNBOUNDED, UNBOUNDED]),
                        "pref": r.choice([F(1), F(1), F(1), F(2), F(1, 2), F(0), F(1, 2 ** 20), F(2 ** 20), F(3), F(4)]),
                        "ty": r.randint(0, 2), "nb": K.rand_nb(r, part)})
        return out
    nout = r.choice([0, 1, 1, 2, 2, 3, 4, maxfan])
    nin = r.choice([0, 1, 1, 2, 2, 3, 4, maxfan])
    outs, ins = arcs(nout), arcs(nin)
    ops = []
    for _ in range(r.randint(1, maxops)):
        x = r.random()
        if x < 0.4:
            v = G.rand_vqip(r, part.na, part.nn, wet=True)
            if r.random() < 0.5 and v[0] > 0:
                sc = r.choice([F(1), F(4), F(10), F(30), F(100)])
                v = (sc, [a * sc / v[0] for a in v[1]], v[2])
            ops.append(("push", v, rand_ot(r)))
        elif x < 0.72:
            ops.append(("pull", r.choice([G.rand_q(r), F(3), F(8), F(20), F(100)]), rand_ot(r)))
        elif x < 0.8:
            ops.append(("pushcheck", None if r.random() < 0.5 else G.rand_q(r), rand_ot(r)))
        elif x < 0.88:
            ops.append(("pullcheck", None if r.random() < 0.5 else G.rand_q(r), rand_ot(r)))
        else:
            ops.append(("end",))
    if len(ops) >= 2 and r.random() < 0.3:
        # the network grows: one or two arcs are connected after the node has been used (Arc.__init__ registers an arc
        # with both ends at any time)
        for _ in range(r.choice([1, 1, 2])):
            used = [j for j, o in enumerate(ops) if o[0] in ("push", "pull", "pushcheck", "pullcheck")]
            if used and r.random() < 0.8:
                # ... an arc the node has already looked for: of a type named by an earlier request, connected after
                # that request, and the request is made again afterwards
                j = r.choice(used)
                o = ops[j]
                a = arcs(1)[0]
                if o[2] is not None:
                    a["ty"] = r.choice(ot_list(o[2]))
                q = r.randint(j + 1, len(ops))
                ops.insert(q, ("addout" if o[0] in ("push", "pushcheck") else "addin", a))
                ops.insert(r.randint(q + 1, len(ops)), o)
            else:
                ops.insert(r.randint(1, len(ops) - 1), (r.choice(["addout", "addin"]), arcs(1)[0]))
    return {"kind": "star", "cls": "Node", "adds": adds, "nons": nons, "outs": outs, "ins": ins, "ops": ops}


class StarRun:
    def __init__(self, c):
        from wsimod.arcs import arcs
        self.c = c
        self.part = part = K.Part(c["adds"], c["nons"])
        self.hub = Node("hub")
        self.outs, self.ins = [], []
        for i, a in enumerate(c["outs"]):
            nb = TYPES[a["ty"]](f"o{i}", part, a["nb"], tagged=a.get("tagged", False))
            arc = arcs.Arc(name=f"ao{i}", in_port=self.hub, out_port=nb, capacity=Ex(a["cap"]), preference=Ex(a["pref"]))
            self.outs.append((arc, nb))
        for i, a in enumerate(c["ins"]):
            nb = TYPES[a["ty"]](f"i{i}", part, a["nb"], tagged=a.get("tagged", False))
            arc = arcs.Arc(name=f"ai{i}", in_port=nb, out_port=self.hub, capacity=Ex(a["cap"]), preference=Ex(a["pref"]))
            self.ins.append((arc, nb))
        self.msgs = 0

    def add(self, out, a):
        from wsimod.arcs import arcs
        lst = self.outs if out else self.ins
        i = len(lst)
        nb = TYPES[a["ty"]](f"{'o' if out else 'i'}{i}", self.part, a["nb"], tagged=a.get("tagged", False))
        if out:
            arc = arcs.Arc(name=f"ao{i}", in_port=self.hub, out_port=nb, capacity=Ex(a["cap"]), preference=Ex(a["pref"]))
        else:
            arc = arcs.Arc(name=f"ai{i}", in_port=nb, out_port=self.hub, capacity=Ex(a["cap"]), preference=Ex(a["pref"]))
        lst.append((arc, nb))

    def ot(self, ot):
        if ot is None:
            return None
        if len(ot) == 2 and ot[0] == "str":
            return TYPES[ot[1]].__name__
        return [TYPES[t].__name__ for t in ot]

    def do(self, op):
        """returns (reply vqip dict or None, message flag)"""
        p, k = self.part, op[0]
        buf = io.StringIO()
        with contextlib.redirect_stdout(buf):
            tag = self.c.get("tag", "default")
            if k == "push":
                r = self.hub.push_distributed(p.d(op[1]), of_type=self.ot(op[2]), tag=tag)
            elif k == "pull":
                r = self.hub.pull_distributed({"volume": Ex(op[1])}, of_type=self.ot(op[2]), tag=tag)
            elif k == "pushcheck":
                r = self.hub.push_check_basic(None if op[1] is None else {"volume": Ex(op[1])}, of_type=self.ot(op[2]))
            elif k == "pullcheck":
                r = self.hub.pull_check_basic(None if op[1] is None else {"volume": Ex(op[1])}, of_type=self.ot(op[2]))
            elif k in ("addout", "addin"):
                self.add(k == "addout", op[1])
                r = None
            else:
                for arc, nb in self.outs + self.ins:
                    arc.end_timestep()
                r = None
        msg = "Maxiter reached" in buf.getvalue()
        return r, msg

    def enc(self):
        out = []
        for arc, nb in self.outs:
            out += K.enc_arc_py(self.part, arc) + [0] + nb.fk.enc()
        for arc, nb in self.ins:
            out += K.enc_arc_py(self.part, arc) + nb.fk.enc() + [0]
        return out


def run_star_impl(c):
    R = StarRun(c)
    out = []
    for op in c["ops"]:
        try:
            r, msg = R.do(op)
        except ZeroDivisionError:
            return out + [-999]
        if op[0] in ("push", "pull"):
            out += R.part.ev(r) + [1 if msg else 0]
        elif op[0] not in ("end", "addout", "addin"):
            out += R.part.ev(r)
        out += R.enc()
    return out


IDLE = "(NS (mkS [0] [0] 0 vzero))"


def ot_list(ot):
    if ot is None:
        return None
    if len(ot) == 2 and ot[0] == "str":
        return [ot[1]]
    return list(ot)


def lit_ot(ot):
    ot = ot_list(ot)
    return "None" if ot is None else "(Some [" + "; ".join(f"{t}%nat" for t in ot) + "])"


def star_expr(c):
    def one(a, push):
        nb = K.lit_nb(a["nb"])
        s = f"({IDLE}, {nb})" if push else f"({nb}, {IDLE})"
        return f"mkSA _ (a_init {C.qlit(a['cap'])}) {C.qlit(a['pref'])} {s} {a['ty']}%nat"

    def st(arcs, push):
        return "[" + "; ".join(one(a, push) for a in arcs) + "]"
    ops = []
    for op in c["ops"]:
        k = op[0]
        if k == "push":
            ops.append(f"SPush {C.vlit(op[1])} {lit_ot(op[2])}")
        elif k == "pull":
            ops.append(f"SPull {C.qlit(op[1])} {lit_ot(op[2])}")
        elif k == "pushcheck":
            ops.append(f"SPushCheck {K.lit_opt_q(op[1])} {lit_ot(op[2])}")
        elif k == "pullcheck":
            ops.append(f"SPullCheck {K.lit_opt_q(op[1])} {lit_ot(op[2])}")
        elif k in ("addout", "addin"):
            ops.append(f"{'SAddOut' if k == 'addout' else 'SAddIn'} ({one(op[1], k == 'addout')})")
        else:
            ops.append("SEnd")
    from wsimod.core import constants
    na, nn = len(c["adds"]), len(c["nons"])
    return f"run_star {na} {nn} {int(constants.MAXITER)} {st(c['outs'], True)} {st(c['ins'], False)} [{'; '.join(ops)}]"


K.FAMILIES["star"] = (gen_star_case, run_star_impl, star_expr)
K.add_imports("Distrib")


# ---------------------------------------------------------------------------
# C18 monitor: the property clauses evaluated directly on the implementation
# ---------------------------------------------------------------------------
def _cv(part, d):
    return (frac(d["volume"]),) + tuple(frac(d[n]) for n in part.adds)


def monitor_c18(rep, n, maxops=8, pid="C18"):
    import mon_comp as M
    r = C.rng("mon_c18")
    viol = 0
    stats = {"ops": 0, "zero_division": 0, "proportional_checked": 0, "messages": 0, "fan1": 0}
    for ci in range(n):
        c = gen_star_case(r, maxops, maxfan=8)
        if r.random() < 0.4:
            # requests carry a non-default tag and some neighbours serve only that tag (as Land does)
            c["tag"] = "alt"
            for a in c["outs"] + c["ins"]:
                a["tagged"] = r.random() < 0.6
        install_exact()
        G.set_partition(c["adds"], c["nons"])
        try:
            C.arm(30)
            R = StarRun(c)
            part = R.part
            louts, lins = list(c["outs"]), list(c["ins"])
            for i, op in enumerate(c["ops"]):
                k = op[0]
                if k in ("addout", "addin"):
                    R.do(op)
                    (louts if k == "addout" else lins).append(op[1])
                    stats["arcs_added_later"] = stats.get("arcs_added_later", 0) + 1
                    continue
                arcs = R.outs if k in ("push", "pushcheck") else R.ins
                sel = [j for j, a in enumerate(louts if arcs is R.outs else lins)
                       if op[0] != "end" and (op[2] is None or a["ty"] in ot_list(op[2]))]
                before = [(_cv(part, a.vqip_in), frac(a.flow_in), nb.fk.enc()) for a, nb in arcs]
                checks = None
                if k in ("push", "pull"):
                    with contextlib.redirect_stdout(io.StringIO()):
                        tg = c.get("tag", "default")
                        checks = [frac((a.send_push_check(tag=tg) if k == "push" else a.send_pull_check(tag=tg))["volume"]) for a, nb in arcs]
                try:
                    rr, msg = R.do(op)
                except ZeroDivisionError:
                    stats["zero_division"] += 1
                    break
                stats["ops"] += 1
                stats["messages"] += int(msg)
                if k not in ("push", "pull"):
                    continue
                after = [(_cv(part, a.vqip_in), frac(a.flow_in), nb.fk.enc()) for a, nb in arcs]
                bad = []
                moved = M.vzero_like(before[0][0]) if before else (F(0),) * (1 + part.na)
                for j, (b, a_) in enumerate(zip(before, after)):
                    if j not in sel and len(arcs) != 1 and b != a_:
                        bad.append(f"arc {j} (neighbour type filtered out) was touched")
                    if len(arcs) == 1 and j not in sel and b != a_:
                        bad.append("single arc of a filtered-out type was used")
                    moved = M.vadd(moved, M.vsubt(a_[0], b[0]))
                    if a_[1] > frac(arcs[j][0].capacity):
                        bad.append(f"arc {j} admitted {a_[1]} above its capacity")
                rv = _cv(part, rr)
                if k == "push":
                    offer = M.offer_cv(op[1])
                    if not (M.vnonneg(rv) and M.vle(rv, offer)):
                        bad.append(f"not-pushed {M.strs(rv)} is not between nothing and the offer {M.strs(offer)}")
                    if M.vsubt(offer, rv) != moved:
                        bad.append(f"pieces recorded on the arcs {M.strs(moved)} != offer - not pushed {M.strs(M.vsubt(offer, rv))}")
                    short = rv[0]
                else:
                    if rv[0] > op[1]:
                        bad.append(f"pulled {rv[0]} > asked {op[1]}")
                    if rv != moved:
                        bad.append(f"pieces recorded on the arcs {M.strs(moved)} != pulled {M.strs(rv)}")
                    short = op[1] - rv[0]
                if len(arcs) == 1:
                    stats["fan1"] += 1
                elif not msg and short > EPS:
                    with contextlib.redirect_stdout(io.StringIO()):
                        # (asked of the arcs one by one, not of the hub's own view of its neighbourhood)
                        tg = c.get("tag", "default")
                        feas = sum(frac((arcs[j][0].send_push_check(tag=tg) if k == "push" else arcs[j][0].send_pull_check(tag=tg))["volume"])
                                   for j in sel if frac(arcs[j][0].preference) > 0)
                    if frac(feas) > EPS:
                        bad.append(f"{k}: fell short by {short} with {frac(feas)} still feasible and no iteration-limit message")
                # proportional shares when everything fits in the first round
                if len(arcs) > 1 and checks is not None and k == "push" and all(nb.fk.kind == "tank" for a, nb in arcs):
                    av = [(ch if (j in sel and ch >= EPS) else F(0)) for j, ch in enumerate(checks)]
                    prefs = [frac(a.preference) for a, nb in arcs]
                    tot, prio = sum(av), sum(x * p for x, p in zip(av, prefs))
                    amount = op[1][0]
                    if prio > 0 and amount <= tot and amount > EPS:
                        sh = [amount * x * p / prio for x, p in zip(av, prefs)]
                        if all(s <= x for s, x in zip(sh, av)):
                            stats["proportional_checked"] += 1
                            got = [M.vsubt(a_[0], b[0])[0] for b, a_ in zip(before, after)]
                            if got != sh:
                                bad.append(f"with spare capacity everywhere the shares {[str(x) for x in got]} are not preference x availability {[str(x) for x in sh]}")
                for msgtxt in bad:
                    viol += 1
                    if viol <= 3:
                        c2 = dict(c)
                        c2["ops"] = c["ops"][:i + 1]
                        rep.violation("counterexample", f"{pid} monitor [star]: {msgtxt}",
                                      {"family": "star", "case": K.case_json(c2), "monitor_message": msgtxt}, True)
            rep.add_eval(("mon_star", str(c)), nontrivial=(len(c["outs"]) > 1 or len(c["ins"]) > 1))
        except C.TooSlow:
            pass          # exact rationals exploded: case dropped
        finally:
            C.disarm()
            G.reset_partition()
    rep.monitor[f"{pid}_star"] = {"cases": n, "violations": viol, **stats}
