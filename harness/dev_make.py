"""development helper: regenerate _CoqProject/Makefile and make the given targets"""
import sys, common as C
C.ensure_makefile()
ok, log, failed = C.build(sys.argv[1:], timeout=1500, jobs=12)
print("\n".join(l for l in log.splitlines() if not l.startswith(("COQC", "COQDEP", "WARNING conda"))) [-3500:])
print("OK" if ok else f"FAILED {failed}")
