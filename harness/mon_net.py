"""Whole-model monitors: run random well-formed models on the implementation with the
guarded observer hooks (Model._verif_pre / _verif_post) and evaluate the network-level
properties directly: C01 node balance, C03 ledger, C06 signs, C12 totality (and the raw
material for C13/C16/C17/C20).  Stock is measured from the stores themselves (object
graph walk), never from the components' own change reports."""
import contextlib
import io
import math
import traceback
from fractions import Fraction as F

import common as C
import netgen as NG
from exnum import EPS, Ex, frac


DUST = F(1, 10 ** 9)


def _names():
    from wsimod.core import constants
    return ["volume"] + list(constants.ADDITIVE_POLLUTANTS)


def cvec(d, names):
    return tuple(frac(d[n]) if not isinstance(d[n], float) else d[n] for n in names)


def vadd(a, b):
    return tuple(x + y for x, y in zip(a, b))


def vsub(a, b):
    return tuple(x - y for x, y in zip(a, b))


def zeros(n):
    return (0,) * n


def tanks_of(node):
    from wsimod.nodes.tanks import Tank
    out = []
    for k, v in vars(node).items():
        if isinstance(v, Tank):
            out.append((k, v))
        elif isinstance(v, (list, tuple)):
            for i, x in enumerate(v):
                if isinstance(x, Tank):
                    out.append((f"{k}[{i}]", x))
    return out


def tank_stock(t, names):
    """physical contents of a store; for queue tanks: what has arrived plus what is queued"""
    from wsimod.nodes.tanks import QueueTank
    if isinstance(t, QueueTank):
        s = cvec(t.active_storage, names)
        q = t.internal_arc.queue
        for v in (q.values() if isinstance(q, dict) else [x["vqip"] for x in q]):
            s = vadd(s, cvec(v, names))
        return s
    return cvec(t.storage, names)


def decay_objs(node):
    out = []
    for k, t in tanks_of(node):
        if hasattr(t, "total_decayed"):
            out.append(t)
        ia = getattr(t, "internal_arc", None)
        if ia is not None and hasattr(ia, "total_decayed"):
            out.append(ia)
    return out


def node_stock(node, names):
    s = zeros(len(names))
    for k, t in tanks_of(node):
        s = vadd(s, tank_stock(t, names))
    if node.__class__.__name__ == "WWTW" or hasattr(node, "liquor_"):
        s = vadd(s, cvec(node.liquor, names))
    return s


def node_decayed(node, names):
    s = zeros(len(names))
    for o in decay_objs(node):
        s = vadd(s, cvec(o.total_decayed, names))
    return s


def arc_transit(arc, names):
    q = getattr(arc, "queue", None)
    s = zeros(len(names))
    if q is None:
        return s
    for v in (q.values() if isinstance(q, dict) else [x["vqip"] for x in q]):
        s = vadd(s, cvec(v, names))
    return s


def declared(node, names):
    """(in, out) from the node's declared account entries, split into arc totals and boundary terms"""
    ins = zeros(len(names))
    outs = zeros(len(names))
    bin_ = zeros(len(names))
    bout = zeros(len(names))
    for f in node.mass_balance_in:
        v = cvec(f(), names)
        ins = vadd(ins, v)
        if getattr(f, "__func__", None) is not type(node).total_in and f != node.total_in:
            bin_ = vadd(bin_, v)
    for f in node.mass_balance_out:
        v = cvec(f(), names)
        outs = vadd(outs, v)
        if f != node.total_out:
            bout = vadd(bout, v)
    return ins, outs, bin_, bout


def queue_ledger_gaps(node, names, eq=None):
    """what a queue tank declares to hold (Tank.storage) is what it holds (arrived + in its internal queue) plus the
    decay its internal arc has applied and the next close-out still has to book (coq/DecayQTank.v qledger): whoever
    reaches into such a tank (QueueGroundwater.pull_set_active, Sewer, ...) has to keep that"""
    from wsimod.nodes.tanks import QueueTank
    out = []
    for k, t in tanks_of(node):
        if not isinstance(t, QueueTank):
            continue
        decl = cvec(t.storage, names)
        phys = tank_stock(t, names)
        pend = cvec(t.internal_arc.total_decayed, names) if hasattr(t.internal_arc, "total_decayed") else zeros(len(names))
        want = vadd(phys, pend)
        if eq is not None:
            ok = eq(decl, want)
        else:
            ok = all(abs(x - y) <= 1e-7 * max(1.0, abs(x), abs(y)) for x, y in zip(decl, want))
        if not ok:
            out.append(f"queue tank {node.name}.{k} ({type(t).__name__}) declares {fmt(decl)} but holds {fmt(phys)} "
                       f"with decay still to be booked {fmt(pend)}")
    return out


class Monitor:
    def __init__(self, mode="exact", pids=("C01", "C03", "C06", "C12"), tol=1e-7, cfg=None):
        self.deposited = {}
        self.cfg = cfg
        self.mode = mode
        self.pids = set(pids)
        self.tol = tol
        self.viol = []        # (pid, message, known signature or None)
        self.pre = {}
        self.post_prev = None
        self.steps = 0
        self.records = []     # per step: {"flows": {arc: vol}, "stores": {node.tank: vol}}

    def bad(self, pid, msg, known=None):
        if pid in self.pids:
            self.viol.append((pid, msg, known))

    def eq(self, a, b, scale=1):
        if self.mode == "exact":
            # exact arithmetic: the only admissible residual is "dust" - remainders below FLOAT_ACCURACY that
            # the code drops by design (WWTW.make_discharge, WWTW.push_set_sewer, Land.run percolation reply, ...)
            return all(abs(x - y) <= DUST for x, y in zip(a, b))
        return all(abs(x - y) <= self.tol * max(1.0, abs(x), abs(y), scale) for x, y in zip(a, b))

    def nonneg(self, a, scale=1):
        if self.mode == "exact":
            return all(x >= 0 for x in a)
        return all(x >= -self.tol * max(1.0, scale) for x in a)

    def watch_deposition(self, model):
        """record what every surface's simple_deposition declares per timestep (C17 oracle)"""
        self.deposited = {}
        if getattr(self, "_dep_wrapped", None) is model:
            return
        self._dep_wrapped = model
        for n in model.nodes.values():
            for i, sf in enumerate(getattr(n, "surfaces", []) or []):
                if any(getattr(f, "__name__", "") == "simple_deposition" for f in sf.inflows):
                    def mk(orig, key):
                        def w():
                            out = orig()
                            self.deposited[key] = dict(out[0])
                            return out
                        w.__name__ = "simple_deposition"
                        return w
                    sf.inflows = [mk(f, (n.name, i)) if getattr(f, "__name__", "") == "simple_deposition" else f for f in sf.inflows]

    def queue_tank_ledgers(self, model, when):
        for n in model.nodes.values():
            for msg in queue_ledger_gaps(n, self.names, self.eq if self.mode == "exact" else None):
                for pid in ("C03", "C11"):
                    self.bad(pid, f"{when} {msg}")

    def on_pre(self, model, date):
        names = _names()
        self.names = names
        if self.pids & {"C03", "C11"}:
            self.queue_tank_ledgers(model, f"start of {date.date()}:")
        if "C17" in self.pids:
            self.watch_deposition(model)
        self.pre = {n.name: (node_stock(n, names), node_decayed(n, names)) for n in model.nodes.values()}
        self.pre_arcs = {a.name: arc_transit(a, names) for a in model.arcs.values()}
        # travel-time arcs that start the timestep with a PULL request under way (asked in an earlier timestep, served in this one)
        self.pre_pull_queued = {a.name: any(q.get("direction") == "pull" for q in a.queue)
                                for a in model.arcs.values() if isinstance(getattr(a, "queue", None), list)}
        # a decaying arc decays its queue at close-out "for the following timestep" and starts that timestep with this
        # amount already in total_decayed: within the timestep only the growth of total_decayed is decay of the timestep
        self.pre_arc_dec = {a.name: cvec(a.total_decayed, names) for a in model.arcs.values() if hasattr(a, "total_decayed")}
        self.pre_surf = {(n.name, i): self.num(sf.storage["volume"]) for n in model.nodes.values()
                         for i, sf in enumerate(getattr(n, "surfaces", []))}
        # C03 close-out: what the stores hold now + what decayed at close-out == what they held before it
        if self.post_prev is not None:
            tot_pre = zeros(len(names))
            dec = zeros(len(names))
            for n in model.nodes.values():
                tot_pre = vadd(tot_pre, self.pre[n.name][0])
                dec = vadd(dec, self.pre[n.name][1])
            for a in model.arcs.values():
                tot_pre = vadd(tot_pre, self.pre_arcs[a.name])
                if hasattr(a, "total_decayed"):
                    dec = vadd(dec, cvec(a.total_decayed, names))
            # C02 per arc: between the observation before close-out and the next timestep an arc only decays
            for a in model.arcs.values():
                was = getattr(self, "post_prev_arcs", {}).get(a.name)
                if was is None:
                    continue
                d_ = cvec(a.total_decayed, names) if hasattr(a, "total_decayed") else zeros(len(names))
                if not self.eq(vadd(self.pre_arcs[a.name], d_), was, scale=max([abs(float(x)) for x in was] + [1.0]) if self.mode != "exact" else 1):
                    self.bad("C02", f"close-out before {date.date()}: arc {a.name} ({type(a).__name__}) held {fmt(was)} in transit, now holds "
                                    f"{fmt(self.pre_arcs[a.name])} and reports {fmt(d_)} decayed (water left or entered the arc outside a timestep)")
            if not self.eq(vadd(tot_pre, dec), self.post_prev, scale=max(abs(x) for x in self.post_prev) if self.mode != "exact" else 1):
                self.bad("C03", f"close-out before {date.date()}: stock before {fmt(self.post_prev)} != stock after "
                                f"{fmt(tot_pre)} + decayed {fmt(dec)} (water or mass appeared/disappeared between timesteps)")

    def leak_unplaced(self, node):
        """for a Distribution with leakage: the part of what it leaked in this timestep that groundwater did not take (None
        when the node is no such Distribution or all of the leak was placed)"""
        l = getattr(node, "leakage", 0)
        if type(node).__name__ not in ("Distribution", "UnlimitedDistribution") or not l:
            return None
        num = (lambda x: frac(x)) if self.mode == "exact" else float
        drawn = sum(num(b.vqip_in["volume"]) for b in node.in_arcs.values())
        leaked = sum(num(b.vqip_in["volume"]) for b in node.out_arcs.values() if type(b.out_port).__name__ == "Groundwater")
        un = num(l) * drawn - leaked
        return un if un > (DUST if self.mode == "exact" else 1e-9) else None

    def late_pull_upstream(self, node, seen=None):
        seen = seen if seen is not None else set()
        if node.name in seen:
            return False
        seen.add(node.name)
        for b in node.in_arcs.values():
            if self.pre_pull_queued.get(b.name):
                return True
            if type(b.in_port).__name__ in ("River", "Node") and self.late_pull_upstream(b.in_port, seen):
                return True
        return False

    def on_post(self, model, date):
        names = self.names
        self.steps += 1
        tot_post = zeros(len(names))
        boundary = zeros(len(names))
        tot_pre = zeros(len(names))
        decw = zeros(len(names))
        rec = {"flows": {}, "stores": {}, "boundary": {}}
        for n in model.nodes.values():
            ins, outs, bin_, bout = declared(n, names)
            st = node_stock(n, names)
            dc = node_decayed(n, names)
            pre_st, pre_dc = self.pre[n.name]
            d_st = vsub(st, pre_st)
            d_dc = vsub(dc, pre_dc)
            lhs = vsub(ins, outs)
            rhs = vadd(d_st, d_dc)
            scale = max([abs(float(x)) for x in ins + outs + st] + [1.0]) if self.mode != "exact" else 1
            if not self.eq(lhs, rhs, scale):
                self.bad("C01", f"{date.date()} node {n.name} ({type(n).__name__}): in {fmt(ins)} - out {fmt(outs)} = {fmt(lhs)} "
                                f"!= change in what it stores {fmt(d_st)} + decayed {fmt(d_dc)}", known_c01(n, lhs, rhs))
                if not any(x != 0 for x in bin_ + bout):
                    # a node without boundary terms: what its arcs record as carried in and out is what its stores gained
                    # and gave up (C04 seen from the node)
                    self.bad("C04", f"{date.date()} node {n.name} ({type(n).__name__}): its arcs record {fmt(ins)} carried in and {fmt(outs)} "
                                    f"carried out, its stores changed by {fmt(d_st)} (+ decayed {fmt(d_dc)})")
            tot_post = vadd(tot_post, st)
            tot_pre = vadd(tot_pre, pre_st)
            decw = vadd(decw, d_dc)
            boundary = vadd(boundary, vsub(bin_, bout))
            rec["boundary"][n.name] = (bin_, bout)
            for k, t in tanks_of(n):
                rec["stores"][f"{n.name}.{k}"] = frac(t.storage["volume"]) if self.mode == "exact" else t.storage["volume"]
                sv = cvec(t.storage, names)
                if not self.nonneg(sv, scale):
                    self.bad("C06", f"{date.date()} store {n.name}.{k} negative: {fmt(sv)}")
        # recorded known finding late-bounce-mixed-remainder, by mechanism: a travel-time arc that started the timestep with
        # water admitted earlier and leads into a RiverReservoir (the one class that hands back what it cannot pass on as
        # MIXED water) books a negative pollutant mass as delivered (volume and flows non-negative); the remainder travels on
        # to today's sender through the junction(s) the arc leaves from, whose in-arcs then record negative pollutant mass too
        TT = ("QueueArc", "AltQueueArc", "DecayArc", "DecayArcAlt")
        lb_mixed, lb_nodes = set(), set()
        for a in model.arcs.values():
            if type(a).__name__ in TT and self.pre_arcs[a.name][0] > 0 and type(a.out_port).__qualname__ == "RiverReservoir":
                vo_ = cvec(a.vqip_out, names)
                vi_ = cvec(a.vqip_in, names)
                sc_ = max(abs(float(x)) for x in vi_ + vo_ + (1.0,)) if self.mode != "exact" else 1
                if not self.nonneg(vo_, sc_) and self.nonneg((vo_[0], a.flow_in, a.flow_out), sc_):
                    lb_mixed.add(a.name)
                    if type(a.in_port).__name__ == "Node":
                        lb_nodes.add(a.in_port.name)
        grown = True
        while grown and lb_nodes:
            grown = False
            for a in model.arcs.values():
                if a.out_port.name in lb_nodes and type(a.in_port).__name__ == "Node" and a.in_port.name not in lb_nodes:
                    lb_nodes.add(a.in_port.name)
                    grown = True
        for a in model.arcs.values():
            tr = arc_transit(a, names)
            tot_post = vadd(tot_post, tr)
            tot_pre = vadd(tot_pre, self.pre_arcs[a.name])
            if hasattr(a, "total_decayed"):
                decw = vadd(decw, vsub(cvec(a.total_decayed, names), self.pre_arc_dec.get(a.name, zeros(len(names)))))
            vi, vo = cvec(a.vqip_in, names), cvec(a.vqip_out, names)
            rec["flows"][a.name] = vo[0]
            sc = max(abs(float(x)) for x in vi + vo + (1.0,)) if self.mode != "exact" else 1
            # C02 per arc within the timestep: entered = left + change in transit + decayed
            d_arc = vsub(cvec(a.total_decayed, names), self.pre_arc_dec.get(a.name, zeros(len(names)))) if hasattr(a, "total_decayed") else zeros(len(names))
            if not self.eq(vi, vadd(vadd(vo, vsub(tr, self.pre_arcs[a.name])), d_arc), sc):
                self.bad("C02", f"{date.date()} arc {a.name} ({type(a).__name__}): entered {fmt(vi)} != left {fmt(vo)} + change in transit "
                                f"{fmt(vsub(tr, self.pre_arcs[a.name]))} + decayed {fmt(d_arc)}")
            self.post_prev_arcs = getattr(self, "post_prev_arcs", {})
            self.post_prev_arcs[a.name] = tr
            if not (self.nonneg(vi, sc) and self.nonneg(vo, sc) and self.nonneg((a.flow_in, a.flow_out), sc)):
                # recorded known finding queuearc-late-bounce, by mechanism: only the in-record of a travel-time arc that
                # started the timestep with water admitted earlier is negative (the bounced remainder of that water was
                # subtracted from it); anything else negative is reported
                known = None
                if (type(a).__name__ in ("QueueArc", "AltQueueArc", "DecayArc", "DecayArcAlt") and not self.nonneg(vi, sc)
                        and self.nonneg(vo, sc) and self.nonneg((a.flow_in, a.flow_out), sc) and self.pre_arcs[a.name][0] > 0):
                    known = "late-bounce"
                elif a.name in lb_mixed and self.nonneg((vi[0], vo[0], a.flow_in, a.flow_out), sc):
                    known = "late-bounce-mixed-remainder"
                elif a.out_port.name in lb_nodes and self.nonneg((vi[0], vo[0], a.flow_in, a.flow_out), sc):
                    known = "late-bounce-mixed-remainder"
                self.bad("C06", f"{date.date()} arc {a.name} ({type(a).__name__}) record negative: in {fmt(vi)} out {fmt(vo)} flow_in {a.flow_in}", known)
            if type(a).__name__ in ("Arc", "PullArc", "PushArc") and vi != vo:
                self.bad("C02", f"{date.date()} arc {a.name}: in-record {fmt(vi)} != out-record {fmt(vo)}")
            if (frac(a.flow_in) if self.mode == "exact" else a.flow_in) > (frac(a.capacity) if self.mode == "exact" else a.capacity * (1 + 1e-9) + 1e-9):
                # recorded known finding queuearc-late-pull, by mechanism: a plain arc whose supplier draws (through rivers and
                # junctions) on a travel-time arc that started the timestep with a pull request under way: what was asked
                # earlier arrives on top of what is asked now, the supplier hands on more than the arc asked for
                known = None
                if type(a).__name__ in ("Arc", "PullArc", "SewerArc", "WeirArc") and self.late_pull_upstream(a.in_port):
                    known = "late-pull"
                elif type(a).__name__ in ("Arc", "PullArc") and self.leak_unplaced(a.in_port) is not None:
                    # recorded known finding distribution-leakage-bounced-to-consumer, by mechanism (its books, as in the
                    # probes): the supplier is a Distribution with leakage, part of what it leaked in this timestep was not
                    # taken by groundwater, and the arc is over its capacity by no more than that unplaced leak
                    over = (frac(a.flow_in) - frac(a.capacity)) if self.mode == "exact" else (a.flow_in - a.capacity)
                    if over <= self.leak_unplaced(a.in_port) + (DUST if self.mode == "exact" else 1e-9):
                        known = "distribution-leakage-bounced-to-consumer"
                self.bad("C05", f"{date.date()} arc {a.name}: admitted {a.flow_in} > capacity {a.capacity}", known)
        # C03 within the timestep: stock changes only through declared boundaries (and decay)
        scale = max([abs(float(x)) for x in tot_post] + [1.0]) if self.mode != "exact" else 1
        if not self.eq(vadd(vsub(tot_post, tot_pre), decw), boundary, scale):
            self.bad("C03", f"{date.date()}: stock change {fmt(vsub(tot_post, tot_pre))} + decayed {fmt(decw)} != "
                            f"boundary inflow - outflow {fmt(boundary)}")
        self.post_prev = tot_post
        if self.pids & {"C03", "C11"}:
            self.queue_tank_ledgers(model, f"{date.date()}:")
        if "C17" in self.pids and self.cfg is not None:
            self.boundary(model, date)
        if self.mode != "exact":
            for k, v in list(rec["flows"].items()) + list(rec["stores"].items()):
                if isinstance(v, float) and not math.isfinite(v):
                    self.bad("C12", f"{date.date()}: non-finite value at {k}: {v}")
        self.records.append(rec)


def _boundary(self, model, date):
    """C17: the declared boundary terms against an independent evaluation of the forcing data (taken from the
    configuration the model was built from, not from the node objects)"""
    ds = str(date.date())
    num = self.num
    adds = self.names[1:]

    def close(a, b, scale=1):
        return self.eq((a,), (b,), scale)

    for nd in NG.effective_cfg(self.cfg)["nodes"]:
        node = model.nodes[nd["name"]]
        cls = NG.cls_of(nd)
        if cls == "Catchment":
            d = nd["data_input_dict"]
            flow = num(d[("flow", ds)])
            gf = node.get_flow()
            if not close(num(gf["volume"]), flow, flow):
                self.bad("C17", f"{ds} catchment {node.name} declares inflow {num(gf['volume'])} but the data say {flow}")
            for p in adds:
                want = num(d[(p, ds)]) * flow
                if not close(num(gf[p]), want, want):
                    self.bad("C17", f"{ds} catchment {node.name} declares {p} {num(gf[p])} but concentration x flow is {want}")
            rel = sum(num(a.vqip_in["volume"]) for a in node.out_arcs.values()) + num(node.unrouted_water["volume"])
            if not close(rel, flow, flow):
                self.bad("C17", f"{ds} catchment {node.name} released {rel} (arcs incl. abstractions + unrouted) for a flow of {flow}")
        elif cls == "Land":
            d = nd["data_input_dict"]
            rain, et0 = num(d[("precipitation", ds)]), num(d[("et0", ds)])
            for i, sc in enumerate(nd["surfaces"]):
                sf = node.surfaces[i]
                area = num(sc["area"])
                # deposition is load x area (observed: what simple_deposition declared in this timestep)
                dep = self.deposited.get((node.name, i))
                if dep is not None and sc.get("pollutant_load"):
                    for p in adds:
                        want = num(sc["pollutant_load"].get(p, 0)) * area
                        got = num(dep.get(p, 0))
                        if not close(got, want, want):
                            self.bad("C17", f"{ds} {sc['type_']} of {node.name}: deposition of {p} is {got} but load x area is {want}")
                if sc["type_"] == "ImperviousSurface":
                    coef = num(sc.get("et0_to_e", 1))
                elif sc["type_"] == "PerviousSurface":
                    coef = num(sc.get("et0_coefficient", 0.5))
                else:
                    continue
                pr, ev = num(sf.precipitation["volume"]), num(sf.evaporation["volume"])
                stored = self.pre_surf[(node.name, i)]
                sc_ = max(1.0, float(rain * area))
                if not close(pr, rain * area, sc_):
                    self.bad("C17", f"{ds} {sc['type_']} of {node.name}: declared rain {pr} but depth x area is {rain * area}")
                slack = 0 if self.mode == "exact" else 1e-9 * sc_
                if ev > et0 * coef * area + slack:
                    self.bad("C17", f"{ds} {sc['type_']} of {node.name}: evaporation {ev} exceeds potential evaporation x area {et0 * coef * area}")
                if ev > rain * area + stored + slack:
                    self.bad("C17", f"{ds} {sc['type_']} of {node.name}: evaporation {ev} exceeds rain + stored water {rain * area + stored}")
                if ev < -slack:
                    self.bad("C17", f"{ds} {sc['type_']} of {node.name}: negative evaporation {ev}")
        elif cls in ("ResidentialDemand", "Demand"):
            td = node.total_demand
            if cls == "ResidentialDemand":
                want_v = num(nd["population"]) * num(nd["per_capita"])
                want_p = {p: num(nd["pollutant_load"].get(p, 0)) * num(nd["population"]) for p in adds}
                # garden demand is asked of Land nodes; the generator has no garden surfaces, so it is zero
            else:
                want_v = num(nd["constant_demand"])
                want_p = {p: num(nd["pollutant_load"].get(p, 0)) for p in adds}
            if not close(num(td["volume"]), want_v, want_v):
                self.bad("C17", f"{ds} demand {node.name} declares {num(td['volume'])} but the parameters give {want_v}")
            for p in adds:
                if not close(num(td[p]), want_p[p], want_p[p]):
                    self.bad("C17", f"{ds} demand {node.name} declares {p} load {num(td[p])} but the parameters give {want_p[p]}")
        elif cls == "Waste":
            tot = sum(num(a.vqip_out["volume"]) for a in node.in_arcs.values())
            dec = num(node.mass_balance_out[-1]()["volume"])
            if not close(dec, tot, tot):
                self.bad("C17", f"{ds} outlet {node.name} removes {dec} but {tot} reached it")


def _num(self, x):
    return frac(x) if self.mode == "exact" else float(x)


Monitor.boundary = _boundary
Monitor.num = _num


def known_c01(node, lhs, rhs):
    return None


def fmt(v):
    return "(" + ", ".join(str(x) if not isinstance(x, float) else f"{x:.9g}" for x in v) + ")"


def run_cfg(cfg, mode="exact", pids=("C01", "C03", "C06", "C12"), orchestration=None, mon=None, model=None, dates=None, limit=None):
    """build and run; returns (monitor, model, exception text or None, captured stdout)"""
    buf = io.StringIO()
    err = None
    mon = mon or Monitor(mode, pids, cfg=cfg)
    mon.too_slow = False
    try:
        # (exact rationals can explode: a model that takes longer than this is dropped from the sample and counted; the quick
        # tier gives up sooner)
        with contextlib.redirect_stdout(buf), C.time_limit(limit or (300 if C.tier() == "thorough" else 100)):
            if model is None:
                model = NG.build(cfg, mode, orchestration)
            model._verif_pre = mon.on_pre
            model._verif_post = mon.on_post
            model.run(dates=dates, verbose=False) if dates is not None else model.run(verbose=False)
    except C.TooSlow:
        mon.too_slow = True          # exact rationals exploded: the model is dropped from the sample (counted by the callers)
        mon.viol = []
    except Exception as ex:
        tb = traceback.extract_tb(ex.__traceback__)
        where = [f"{fr.filename.split('/')[-1]}:{fr.lineno} {fr.name}" for fr in tb if "wsimod" in fr.filename][-3:]
        err = f"{type(ex).__name__}: {ex} at {' <- '.join(reversed(where))}"
        mon.bad("C12", f"run raised {err}", known_c12(err))
    finally:
        NG.set_pollutants("default")
    return mon, model, err, buf.getvalue()


def known_c12(err):
    return None
