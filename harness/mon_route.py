"""C08 monitor: behavioural cross product on the implementation.
 (1) every node class x {Arc, PullArc, PushArc} x {push, pull, push check, pull check}: nothing crashes; a pull-only
     arc never carries a push (offer handed back intact, both ends unchanged), a push-only arc never carries a pull;
     a node whose handler denies is left unchanged and hands a push back intact;
 (2) every emission of gen_tables (class, direction, neighbour types, tag): the request is sent to an instance of every
     class seen under those type names - handlers answer, nothing crashes;
 (3) type filters on random stars are covered by the C18 star monitor (filtered arcs untouched)."""
import contextlib
import copy
import io
import json
import os
from fractions import Fraction as F

import common as C


def mk(cls_name):
    from wsimod.nodes.nodes import NODES_REGISTRY
    import wsimod.nodes.catchment, wsimod.nodes.demand, wsimod.nodes.distribution, wsimod.nodes.land      # noqa
    import wsimod.nodes.sewer, wsimod.nodes.storage, wsimod.nodes.waste, wsimod.nodes.wtw                 # noqa
    kw = {}
    if cls_name in ("Storage", "Groundwater", "QueueGroundwater", "Reservoir", "RiverReservoir"):
        kw = dict(capacity=50.0, area=10.0, initial_storage={"volume": 20.0, "phosphate": 0.2, "temperature": 10.0})
    if cls_name == "River":
        kw = dict(initial_storage={"volume": 20.0, "phosphate": 0.2, "temperature": 10.0})
    if cls_name in ("Sewer", "EnfieldFoulSewer"):
        kw = dict(capacity=10.0)
    if cls_name == "Land":
        kw = dict(surfaces=[{"type_": "ImperviousSurface", "surface": "urban", "area": 10.0, "pore_depth": 0.01}])
    if cls_name == "Land/pervious":           # a Land without an impervious surface
        cls_name = "Land"
        kw = dict(surfaces=[{"type_": "PerviousSurface", "surface": "rural", "area": 10.0, "depth": 0.5}])
    if cls_name == "Catchment":
        kw = dict(data_input_dict={("flow", 0): 7.0, ("phosphate", 0): 0.01, ("temperature", 0): 9.0})
    cls = NODES_REGISTRY[cls_name]
    with contextlib.redirect_stdout(io.StringIO()):
        n = cls(name=f"x_{cls_name}", **kw)
    cls.__name__ = cls_name          # undo the self-relabelling of some classes on the class object
    n.t = 0
    return n


def state(node):
    import mon_net as MN
    names = ["volume", "phosphate"]
    return tuple((k, tuple(t.storage[n] for n in names)) for k, t in MN.tanks_of(node))


def held(node):
    """water in everything the node stores: tanks, surfaces, treatment works' batches"""
    import mon_net as MN
    v = sum(t.storage["volume"] for k, t in MN.tanks_of(node))
    for attr in ("current_input", "liquor", "unrouted_water"):
        x = getattr(node, attr, None)
        if isinstance(x, dict) and "volume" in x:
            v += x["volume"]
    return v


def run(rep, thorough, pid="C08"):
    from wsimod.arcs import arcs as A
    from wsimod.core import constants
    from wsimod.nodes.nodes import Node
    constants.set_simple_pollutants()
    tables = json.load(open(os.path.join(C.WORK, "gen_tables.json")))
    classes = sorted(tables["tables"])
    stats = {"classes": len(classes), "arc_probes": 0, "emission_probes": 0, "denials_checked": 0, "violations": 0}

    def bad(msg, payload):
        stats["violations"] += 1
        if stats["violations"] <= 3:
            rep.violation("counterexample", f"{pid} monitor: {msg}", payload, True)

    offer = {"volume": 3.0, "phosphate": 0.03, "temperature": 12.0}
    for cname in classes:
        for aname in ("Arc", "PullArc", "PushArc"):
            for direction in ("push", "pushforce", "pull", "pushcheck", "pullcheck"):
                try:
                    hub = mk(cname)
                    other = Node(name="other")
                    with contextlib.redirect_stdout(io.StringIO()):
                        if direction.startswith("push"):
                            arc = getattr(A, aname)(name="a", in_port=other, out_port=hub, capacity=100.0)
                        else:
                            arc = getattr(A, aname)(name="a", in_port=hub, out_port=other, capacity=100.0)
                        before = state(hub)
                        rec0 = (arc.flow_in, dict(arc.vqip_in))
                        if direction == "push":
                            r = arc.send_push_request(dict(offer))
                        elif direction == "pushforce":
                            if aname != "PullArc":
                                continue          # force is only probed where it must not matter: a pull-only arc
                            r = arc.send_push_request(dict(offer), force=True)
                        elif direction == "pull":
                            r = arc.send_pull_request({"volume": 2.0})
                        elif direction == "pushcheck":
                            r = arc.send_push_check(dict(offer))
                        else:
                            r = arc.send_pull_check({"volume": 2.0})
                    stats["arc_probes"] += 1
                    rep.add_eval(("route", cname, aname, direction), nontrivial=True)
                    after = state(hub)
                    denied_by_arc = (aname == "PullArc" and direction.startswith("push")) or (aname == "PushArc" and direction.startswith("pull"))
                    if denied_by_arc:
                        stats["denials_checked"] += 1
                        if after != before or (arc.flow_in, dict(arc.vqip_in)) != rec0:
                            bad(f"{aname} carried a {direction}: {cname} or the arc record changed", {"class": cname, "arc": aname, "direction": direction})
                        if direction in ("push", "pushforce") and any(abs(r[k] - offer[k]) > 1e-12 for k in offer):
                            bad(f"PullArc did not hand the offer back intact: {r}", {"class": cname, "arc": aname})
                        if direction not in ("push", "pushforce") and r["volume"] != 0:
                            bad(f"{aname} answered a denied {direction} with {r['volume']}", {"class": cname, "arc": aname})
                    if direction in ("pushcheck", "pullcheck") and after != before:
                        bad(f"a {direction} changed the state of {cname}", {"class": cname, "arc": aname})
                    if direction == "push" and not denied_by_arc:
                        h = hub.push_set_handler["default"]
                        if getattr(h, "__name__", "") == "push_set_deny":
                            stats["denials_checked"] += 1
                            if after != before or any(abs(r[k] - offer[k]) > 1e-12 for k in offer):
                                bad(f"{cname} denies pushes but changed or did not hand the offer back intact", {"class": cname})
                except Exception as ex:
                    bad(f"{direction} over {aname} to/from {cname} raised {type(ex).__name__}: {ex}", {"class": cname, "arc": aname, "direction": direction})
    # emissions: tagged requests towards every class seen under the named types
    seen_as = {}
    for cname, t in tables["tables"].items():
        seen_as.setdefault(t["seen_as"], []).append(cname)
    for e in tables["emissions"]:
        if e["tag"] == "default" and not e["of_type"]:
            continue
        tag = tuple(e["tag"].split("/")) if "/" in e["tag"] else e["tag"]
        targets = [c for ty in (e["of_type"] or list(seen_as)) for c in seen_as.get(ty, [])]
        targets += ["Land/pervious"] if "Land" in targets else []
        for cname in targets:
            try:
                hub = mk(cname)
                other = Node(name="other")
                with contextlib.redirect_stdout(io.StringIO()):
                    if e["direction"] == "push":
                        arc = A.Arc(name="a", in_port=other, out_port=hub, capacity=100.0)
                        arc.send_push_check(tag=tag)
                        arc.send_push_check(dict(offer), tag=tag)
                        s0 = held(hub)
                        reply = arc.send_push_request(dict(offer), tag=tag)
                        # never silently lost: what the target did not hand back is in its stores (an outlet removes it,
                        # a node that only passes water on has nowhere to pass it here and hands everything back)
                        kept = held(hub) - s0
                        if type(hub).__name__ != "Waste" and abs(kept + reply["volume"] - offer["volume"]) > 1e-9:
                            bad(f"push of {offer['volume']} with tag {e['tag']!r} (emitted by {e['owner']}) to {cname}: {reply['volume']} handed back, "
                                f"{kept} more in the target's stores - {offer['volume'] - reply['volume'] - kept} unaccounted for",
                                {"emission": e, "target": cname})
                    else:
                        arc = A.Arc(name="a", in_port=hub, out_port=other, capacity=100.0)
                        arc.send_pull_check(tag=tag)
                        arc.send_pull_request({"volume": 2.0}, tag=tag)
                stats["emission_probes"] += 1
                rep.add_eval(("emission", e["owner"], e["tag"], cname), nontrivial=True)
            except Exception as ex:
                bad(f"request with tag {e['tag']!r} emitted by {e['owner']} ({e['file']}:{e['line']}) towards {cname} raised {type(ex).__name__}: {ex}",
                    {"emission": e, "target": cname})
    # tags travel with the water: what is pushed with a tag over an arc that queues requests (QueueArc, DecayArc; an
    # AltQueueArc / DecayArcAlt pools what it carries and is documented to have no tags) reaches the far end with that tag,
    # at once (no travel time) or when it is due
    class Spy(Node):
        def __init__(self, name):
            super().__init__(name)
            self.seen = []

        def push_check(self, vqip=None, tag="default"):
            return {"volume": 1e9, "phosphate": 0.0, "temperature": 0.0}

        def push_set(self, vqip, tag="default"):
            if vqip["volume"] > 0:
                self.seen.append(tag)
            return self.empty_vqip()
    stats["tag_probes"] = 0
    tags = sorted({e["tag"] for e in tables["emissions"] if e["direction"] == "push"} | {"default"})
    for tg in tags:
        tag = tuple(tg.split("/")) if "/" in tg else tg
        for aname in ("Arc", "PushArc", "SewerArc", "WeirArc", "QueueArc", "DecayArc"):
            for nt in ((0, 1, 2) if aname in ("QueueArc", "DecayArc") else (0,)):
                try:
                    with contextlib.redirect_stdout(io.StringIO()):
                        src = Node(name="src")
                        src.t = 0
                        src.data_input_dict = {("temperature", 0): 11.0}
                        spy = Spy("spy")
                        kw = dict(name="a", in_port=src, out_port=spy, capacity=100.0)
                        if aname in ("QueueArc", "DecayArc"):
                            kw["number_of_timesteps"] = nt
                        if aname == "DecayArc":
                            kw["decays"] = {"phosphate": {"constant": 0.01, "exponent": 1.001}}
                        arc = getattr(A, aname)(**kw)
                        arc.send_push_request(dict(offer), tag=tag)
                        for _ in range(nt):
                            arc.end_timestep()
                            arc.send_push_request({"volume": 1.0, "phosphate": 0.0, "temperature": 12.0})     # (what is due travels with the next push)
                    stats["tag_probes"] += 1
                    rep.add_eval(("tag", tg, aname, nt), nontrivial=True)
                    if not spy.seen or spy.seen[0] != tag or any(t != "default" for t in spy.seen[1:]):
                        bad(f"{offer['volume']} pushed with tag {tg!r} over a {aname} (travel time {nt}) reached the far end with tags {spy.seen}",
                            {"tag": tg, "arc": aname, "number_of_timesteps": nt})
                except Exception as ex:
                    bad(f"push with tag {tg!r} over a {aname} (travel time {nt}) raised {type(ex).__name__}: {ex}", {"tag": tg, "arc": aname})
    constants.set_default_pollutants()
    rep.monitor[f"{pid}_routes"] = stats
    return {}
