"""Exact correspondence between wsimod.core.core (run on Ex numbers) and the
Gallina definitions translated from it (gen/GenCore.v), plus direct monitors of
the C10/C11 laws on the implementation."""
import copy
from fractions import Fraction as F

import random

import common as C
import gens as G
from exnum import EPS, Ex, frac, install_exact

OPS2 = ["sum_vqip", "extract_vqip", "extract_vqip_c", "blend_vqip", "ds_vqip", "ds_vqip_c"]
OPS1 = ["concentration_to_total", "total_to_concentration"]
OPSV = ["v_change_vqip", "v_change_vqip_c", "v_distill_vqip", "v_distill_vqip_c"]
OPSD = ["generic_temperature_decay", "generic_temperature_decay_c"]


def make_obj(decay=False):
    from wsimod.core.core import DecayObj, WSIObj
    if decay:
        o = DecayObj.__new__(DecayObj)
        WSIObj.__init__(o)
        return o
    return WSIObj()


def gen_cases(r, n, ops):
    cases = []
    for i in range(n):
        op = ops[i % len(ops)]
        adds, nons = G.rand_partition(r, min_add=1 if op == "total_to_concentration" else 0)
        na, nn = len(adds), len(nons)
        wet = r.random() < 0.85
        c = {"op": op, "adds": adds, "nons": nons}
        if op in OPS2:
            c["a"] = G.rand_vqip(r, na, nn, wet=wet)
            c["b"] = G.rand_vqip(r, na, nn, wet=wet)
            if r.random() < 0.1:
                c["b"] = c["a"]
        elif op in OPS1:
            c["a"] = G.rand_vqip(r, na, nn, wet=wet)
        elif op in OPSV:
            c["a"] = G.rand_vqip(r, na, nn, wet=wet)
            c["v"] = G.rand_q(r) if r.random() < 0.8 else c["a"][0]
            if r.random() < 0.1:
                c["v"] = c["a"][0] / 3
        else:
            c["a"] = G.rand_vqip(r, na, nn, wet=wet)
            # decay parameters for a random subset of additive pollutants
            d = []
            for k in range(na):
                if r.random() < 0.7:
                    const = r.choice([F(0), F(1, 1000), F(1, 20), F(1, 2), F(3, 5), F(1), F(3, 2)])
                    expo = r.choice([F(1), F(1005, 1000), F(11, 10), F(9, 10), F(2), F(1, 2)])
                    d.append((const, expo))
                else:
                    d.append(None)
            c["d"] = d
            c["T"] = r.choice([F(20), F(0), F(5), F(26), F(35), F(-3), F(41, 2), F(77, 4), F(121, 10)])
        cases.append(c)
    return cases


def run_impl(c):
    """returns dict(ok, result tuples, args_after tuples, alias info) on exact numbers"""
    install_exact()
    adds, nons = c["adds"], c["nons"]
    G.set_partition(adds, nons)
    try:
        op = c["op"]
        obj = make_obj(op in OPSD)
        a = G.to_dict(c["a"], adds, nons)
        args = [a]
        if op in OPS2:
            b = a if c["b"] is c["a"] else G.to_dict(c["b"], adds, nons)
            args.append(b)
        elif op in OPSV:
            args.append(Ex(c["v"]))
        elif op in OPSD:
            d = {adds[k]: {"constant": Ex(p[0]), "exponent": Ex(p[1])} for k, p in enumerate(c["d"]) if p}
            args += [d, Ex(c["T"])]
        before = copy.deepcopy(args)
        try:
            res = getattr(obj, op)(*args)
        except ZeroDivisionError:
            return {"ok": False, "error": "ZeroDivisionError"}
        except Exception as ex:       # anything else the implementation raises is a result too (never the model's)
            return {"ok": False, "error": f"{type(ex).__name__}: {ex}"}
        rs = res if isinstance(res, tuple) else (res,)
        out = {"ok": True, "res": [G.from_dict(x, adds, nons) for x in rs],
               "after": [G.from_dict(x, adds, nons) for x in args if isinstance(x, dict) and "volume" in x],
               "before_eq_after": all(_same(x, y) for x, y in zip(before, args)),
               "aliased": any(x is y for x in rs for y in args if isinstance(y, dict))}
        return out
    finally:
        G.reset_partition()


def _same(x, y):
    if isinstance(x, dict):
        return set(x) == set(y) and all(_same(x[k], y[k]) for k in x)
    return frac(x) == frac(y) if not isinstance(x, str) else x == y


def model_expr(c, translated):
    op = c["op"]
    na, nn = len(c["adds"]), len(c["nons"])
    if not translated.get(op, {}).get("translated"):
        return None
    a = C.vlit(c["a"])
    powarg = "pow_s " if op in OPSD else ""
    if op in OPS2:
        args = f"{a} {C.vlit(c['b'])}"
    elif op in OPS1:
        args = a
    elif op in OPSV:
        args = f"{a} {C.qlit(c['v'])}"
    else:
        d = "[" + "; ".join(f"({C.qlit(p[0])}, {C.qlit(p[1])})" if p else "(0, 1)" for p in c["d"]) + "]"
        args = f"{a} {d} {C.qlit(c['T'])}"
    call = f"(gen_{op} {powarg}{args})"
    after = f"(gen_{op}_after {args})"
    enc = f"encv {na} {nn}"
    if op in OPSD:
        res = f"{enc} (fst {call}) ++ {enc} (snd {call})"
    else:
        res = f"{enc} {call}"
    if op in OPS2:
        aft = f"{enc} (fst {after}) ++ {enc} (snd {after})"
    else:
        aft = f"{enc} {after}"
    return f"encb (gen_{op}_divok {args}) ++ {res} ++ {aft}"


def expected(c, out):
    if not out["ok"]:
        return [0]
    e = [1]
    for v in out["res"]:
        e += C.encv(v)
    for v in out["after"]:
        e += C.encv(v)
    return e


HEADER = ("From Coq Require Import QArith List ZArith.\nFrom WSI Require Import Vqip Enc Pow.\n"
          "From WSI.gen Require Import GenCore.\nImport ListNotations.\nOpen Scope Q_scope.\n")


def correspondence(rep, ops, n, tag, translated):
    r = C.rng("corr_core_" + tag)
    cases = gen_cases(r, n, ops)
    outs = [run_impl(c) for c in cases]
    exprs, idx = [], []
    for i, c in enumerate(cases):
        e = model_expr(c, translated)
        if e is not None:
            exprs.append(e)
            idx.append(i)
    res, log = C.eval_cases("core_" + tag, HEADER, exprs)
    mism, evald, errs = [], 0, 0
    dist = {}
    for j, i in enumerate(idx):
        c, out = cases[i], outs[i]
        dist[c["op"]] = dist.get(c["op"], 0) + 1
        if res[j] is None:
            continue
        evald += 1
        exp = expected(c, out)
        got = res[j]
        if not out["ok"]:
            errs += 1
            ok = got[:1] == [0] and out.get("error") == "ZeroDivisionError"
        else:
            ok = got == exp
        key = (c["op"], str(c["a"]), str(c.get("b")), str(c.get("v")), str(c.get("d")), str(c.get("T")))
        rep.add_eval(key, nontrivial=out["ok"] and c["a"][0] != 0)
        if not ok:
            mism.append((c, out, got, exp))
    untranslated = sorted({c["op"] for c in cases if not translated.get(c["op"], {}).get("translated")})
    rep.corr["core_" + tag] = {"cases": len(cases), "evaluated_in_coq": evald, "mismatches": len(mism),
                              "impl_raised_zero_division": errs, "per_op": dist, "untranslated_ops": untranslated,
                              "coq_log": log[-500:]}
    if log and evald < len(exprs):
        rep.violation("broken-correspondence", "model evaluation failed for core ops: " + log[-300:],
                      {"log": log[-2000:]}, False)
    for c, out, got, exp in mism[:3]:
        rep.violation("broken-correspondence",
                      f"core.{c['op']}: implementation and translated model disagree",
                      {"case": _case_json(c), "impl": exp if out["ok"] else out.get("error"), "model": got}, False)
    if cases:
        rep.samples.append({"correspondence_case": _case_json(cases[0])})
    return cases, outs


def _case_json(c):
    j = {"op": c["op"], "additive": c["adds"], "non_additive": c["nons"], "a": G.vq_str(c["a"])}
    if "b" in c:
        j["b"] = G.vq_str(c["b"])
    if "v" in c:
        j["v"] = str(c["v"])
    if "d" in c:
        j["decays"] = [None if p is None else [str(p[0]), str(p[1])] for p in c["d"]]
        j["T"] = str(c["T"])
    return j


# ---------------------------------------------------------------------------
# monitors: the laws stated directly on the implementation (search engine)
# ---------------------------------------------------------------------------
def _eqv(x, y, comps=("vol", "adds", "nons")):
    return ((("vol" not in comps) or x[0] == y[0]) and (("adds" not in comps) or x[1] == y[1])
            and (("nons" not in comps) or x[2] == y[2]))


def monitor_c10(rep, n, replay_case=None):
    """flux algebra on the implementation in exact arithmetic; returns number of violations"""
    install_exact()
    r = C.rng("mon_c10")
    viol = 0
    checked = 0
    kinds = {}

    def bad(law, case, detail):
        nonlocal viol
        viol += 1
        if viol <= 3:
            rep.violation("counterexample", f"C10 law '{law}' fails on the implementation: {detail}",
                          {"law": law, "case": case, "detail": detail}, True)

    cases = []
    if replay_case is not None:
        cases = [replay_case]
    else:
        for i in range(n):
            adds, nons = G.rand_partition(r, min_add=0, max_add=3, max_non=3)
            tiny = r.random() < 0.15
            a = G.rand_vqip(r, len(adds), len(nons), "pos" if r.random() < 0.7 else "any")
            b = G.rand_vqip(r, len(adds), len(nons))
            d = G.rand_vqip(r, len(adds), len(nons))
            if tiny:
                s = EPS * r.choice([F(1, 4), F(1, 3), F(1, 2), F(1, 1000)])
                a = (s, [x * s for x in a[1]], a[2])
                b = (s * r.choice([1, 2, F(1, 2)]), [x * s for x in b[1]], b[2])
                d = (s / 2, [x * s for x in d[1]], d[2])
            v = G.rand_q(r)
            cases.append({"adds": adds, "nons": nons, "a": a, "b": b, "d": d, "v": v})
    loads = {}
    for ci, c in enumerate(cases):
        adds, nons = c["adds"], c["nons"]
        if ci % 5 == 2 and replay_case is None or c.get("declared_by_load"):
            # the pollutant set is declared by loading a configuration file that carries all or some of the three keys
            keys = c.get("declared_by_load") or random.Random(f"{C.seed()}:c10-load:{ci}").choice(
                [["pollutants", "additive_pollutants", "non_additive_pollutants"], ["additive_pollutants", "non_additive_pollutants"],
                 ["additive_pollutants", "non_additive_pollutants"], ["pollutants", "additive_pollutants"], ["non_additive_pollutants"]])
            c["declared_by_load"] = keys
            G.set_partition_by_load(adds, nons, keys)
            loads["+".join(keys)] = loads.get("+".join(keys), 0) + 1
            from wsimod.core import constants as _k
            if list(_k.ADDITIVE_POLLUTANTS) != list(adds) or list(_k.NON_ADDITIVE_POLLUTANTS) != list(nons):
                # (not a clause of C10 by itself: the laws below are evaluated against the declared partition)
                loads["process partition differs from the declared one"] = loads.get("process partition differs from the declared one", 0) + 1
        else:
            G.set_partition(adds, nons)
        try:
            o = make_obj()
            D = lambda v: G.to_dict(v, adds, nons)
            T = lambda dd: G.from_dict(dd, adds, nons)
            a, b, d, v = c["a"], c["b"], c["d"], c["v"]
            cj = {"additive": adds, "non_additive": nons, "a": G.vq_str(a), "b": G.vq_str(b), "d": G.vq_str(d), "v": str(v)}
            if c.get("declared_by_load"):
                cj["declared_by_load"] = c["declared_by_load"]
            try:
                da, db = D(a), D(b)
                s = T(o.sum_vqip(da, db))
                checked += 1
                if T(da) != a or T(db) != b:
                    bad("sum_vqip does not modify its arguments", cj, "argument changed")
                if s[0] != a[0] + b[0] or s[1] != [x + y for x, y in zip(a[1], b[1])]:
                    bad("sum adds volume and additive mass exactly", cj, f"got {G.vq_str(s)}")
                tot = a[0] + b[0]
                if tot > 0:
                    kinds["wet_sum"] = kinds.get("wet_sum", 0) + 1
                    for k in range(len(nons)):
                        mean = (a[2][k] * a[0] + b[2][k] * b[0]) / tot
                        if s[2][k] != mean:
                            bad("non-additive quality is the volume-weighted mean", cj, f"{nons[k]}: got {s[2][k]} expected {mean}")
                        if not (min(a[2][k], b[2][k]) <= s[2][k] <= max(a[2][k], b[2][k])):
                            bad("quality lies between the parts", cj, f"{nons[k]}: {s[2][k]}")
                    s2 = T(o.sum_vqip(D(b), D(a)))
                    if s2 != s:
                        bad("sum is commutative", cj, f"{G.vq_str(s)} vs {G.vq_str(s2)}")
                    l = T(o.sum_vqip(o.sum_vqip(D(a), D(b)), D(d)))
                    rr = T(o.sum_vqip(D(a), o.sum_vqip(D(b), D(d))))
                    if l != rr:
                        bad("sum is associative", cj, f"{G.vq_str(l)} vs {G.vq_str(rr)}")
                e = T(o.extract_vqip(o.sum_vqip(D(a), D(b)), D(b)))
                if not _eqv(e, a, ("vol", "adds")):
                    bad("subtracting what was added gives back the original", cj, f"got {G.vq_str(e)}")
                ds = T(o.ds_vqip(D(a), D(b)))
                if ds[0] != a[0] - b[0] or ds[1] != [x - y for x, y in zip(a[1], b[1])]:
                    bad("ds is the difference", cj, f"got {G.vq_str(ds)}")
                # rescale
                da = D(a)
                ch = T(o.v_change_vqip(da, Ex(v)))
                if T(da) != a:
                    bad("v_change_vqip does not modify its arguments", cj, "argument changed")
                if ch[0] != v:
                    bad("rescaled volume is the target", cj, f"got {ch[0]}")
                if ch[2] != a[2]:
                    bad("rescaling keeps qualities", cj, f"got {ch[2]}")
                if a[0] > 0:
                    kinds["wet_change"] = kinds.get("wet_change", 0) + 1
                    if ch[1] != [x * v / a[0] for x in a[1]]:
                        bad("rescaling keeps concentrations", cj, f"got {ch[1]}")
                    p1 = o.v_change_vqip(D(a), Ex(v))
                    p2 = o.v_change_vqip(D(a), Ex(a[0] - v))
                    sp = T(o.sum_vqip(p1, p2))
                    if not _eqv(sp, a, ("vol", "adds")):
                        bad("split parts add up to the whole", cj, f"got {G.vq_str(sp)}")
                    rt = T(o.concentration_to_total(o.total_to_concentration(D(a))))
                    if rt != a:
                        bad("total->concentration->total is lossless", cj, f"got {G.vq_str(rt)}")
                    rt = T(o.total_to_concentration(o.concentration_to_total(D(a))))
                    if rt != a:
                        bad("concentration->total->concentration is lossless", cj, f"got {G.vq_str(rt)}")
                di = T(o.v_distill_vqip(D(a), Ex(v)))
                if di != (a[0] - v, a[1], a[2]):
                    bad("distill removes only volume", cj, f"got {G.vq_str(di)}")
                if tot > 0:
                    bl = T(o.concentration_to_total(o.blend_vqip(D(a), D(b))))
                    sm = T(o.sum_vqip(o.concentration_to_total(D(a)), o.concentration_to_total(D(b))))
                    if not _eqv(bl, sm, ("vol", "adds")):
                        bad("blend is sum in concentration form", cj, f"{G.vq_str(bl)} vs {G.vq_str(sm)}")
                # purity of the remaining operations
                for nm, args in (("extract_vqip", (a, b)), ("blend_vqip", (a, b)), ("ds_vqip", (a, b)),
                                 ("ds_vqip_c", (a, b)), ("extract_vqip_c", (a, b)),
                                 ("concentration_to_total", (a,)), ("v_distill_vqip", (a, v)),
                                 ("v_distill_vqip_c", (a, v)), ("v_change_vqip_c", (a, v))):
                    dd = [D(x) if isinstance(x, tuple) else Ex(x) for x in args]
                    res = getattr(o, nm)(*dd)
                    for x, y in zip(args, dd):
                        if isinstance(x, tuple) and T(y) != x:
                            bad(f"{nm} does not modify its arguments", cj, "argument changed")
                    if any(res is y for y in dd):
                        bad(f"{nm} returns a fresh flux", cj, "result is the argument object")
            except Exception as ex:
                bad("operation completes", cj, repr(ex))
            rep.add_eval(("mon", str(cj)), nontrivial=a[0] > 0)
        finally:
            G.reset_partition()
    rep.monitor["c10_laws_on_implementation"] = {"cases": len(cases), "violations": viol, "guards": kinds, "pollutant_set_declared_by_Model_load": loads}
    return viol


def monitor_c11(rep, n, replay_case=None):
    install_exact()
    r = C.rng("mon_c11")
    viol = 0

    def bad(law, case, detail):
        nonlocal viol
        viol += 1
        if viol <= 3:
            rep.violation("counterexample", f"C11 law '{law}' fails on the implementation: {detail}",
                          {"law": law, "case": case, "detail": detail}, True)

    cases = [replay_case] if replay_case else gen_cases(r, n, OPSD)
    sat = 0
    for c in cases:
        adds, nons = c["adds"], c["nons"]
        cj = _case_json(c)
        G.set_partition(adds, nons)
        try:
            o = make_obj(True)
            d = {adds[k]: {"constant": Ex(p[0]), "exponent": Ex(p[1])} for k, p in enumerate(c["d"]) if p}
            a = c["a"]
            nonneg = all(x >= 0 for x in a[1]) and a[0] >= 0
            da = G.to_dict(a, adds, nons)
            if c["op"] == "generic_temperature_decay":
                t2, diff = o.generic_temperature_decay(da, d, Ex(c["T"]))
                t2, diff = G.from_dict(t2, adds, nons), G.from_dict(diff, adds, nons)
                if G.from_dict(da, adds, nons) != a:
                    bad("decay does not modify its argument", cj, "argument changed")
                if t2[0] != a[0] or t2[2] != a[2] or diff[0] != 0:
                    bad("decay leaves volume and qualities untouched", cj, f"{G.vq_str(t2)}")
                for k in range(len(adds)):
                    if t2[1][k] + diff[1][k] != a[1][k]:
                        bad("remaining + reported = original", cj, f"{adds[k]}: {t2[1][k]} + {diff[1][k]} != {a[1][k]}")
                    if c["d"][k] is None and (t2[1][k] != a[1][k] or diff[1][k] != 0):
                        bad("pollutants without parameters untouched", cj, adds[k])
                    if nonneg and c["d"][k] and c["d"][k][1] > 0:
                        if not (0 <= t2[1][k] <= a[1][k]) or diff[1][k] < 0:
                            bad("never increases, never removes more than is there", cj,
                                f"{adds[k]}: {a[1][k]} -> {t2[1][k]} reported {diff[1][k]}")
                        from exnum import pow_s
                        if c["d"][k][0] * pow_s(c["d"][k][1], c["T"] - 20) > 1:
                            sat += 1
                # warmer never decays less
                if nonneg and all(p is None or p[1] >= 1 for p in c["d"]):
                    t3, _ = o.generic_temperature_decay(G.to_dict(a, adds, nons), d, Ex(c["T"] + F(7, 2)))
                    t3 = G.from_dict(t3, adds, nons)
                    for k in range(len(adds)):
                        if t3[1][k] > t2[1][k]:
                            bad("warmer water never decays less", cj, f"{adds[k]}: {t3[1][k]} > {t2[1][k]}")
            else:
                c2, diff = o.generic_temperature_decay_c(da, d, Ex(c["T"]))
                c2, diff = G.from_dict(c2, adds, nons), G.from_dict(diff, adds, nons)
                for k in range(len(adds)):
                    if c2[1][k] * a[0] + diff[1][k] != a[1][k] * a[0]:
                        bad("concentration form: remaining + reported = original", cj, adds[k])
            rep.add_eval(("mon11", str(cj)), nontrivial=any(p for p in c["d"]))
        except Exception as ex:
            bad("operation completes", cj, repr(ex))
        finally:
            G.reset_partition()
    rep.monitor["c11_laws_on_core"] = {"cases": len(cases), "violations": viol, "saturated_cases": sat}
    return viol
