"""C12 — totality: theorems (coq/props/C12.v) + boundary-stream whole-model monitor."""
import random
import sys

import common as C
import mon_net as MN
import net_check
import netgen as NG

RULE = ("boundary stream of random well-formed models: forcing series that are all zero, start dry, have dry spells or bursts; "
        "populations and demands of zero; empty and full stores and service reservoirs; every node class of the generator; "
        "run in exact arithmetic (any exception is a violation) and again in floating point with a scan for non-finite "
        "values. non-trivial = distinct model with >= 4 nodes")


def float_pass(rep, thorough):
    n = 300 if thorough else 40
    viol = 0
    raised = 0
    for seed, size in net_check.gen_cases("net_C12_float", n, 5, {"stress": True}):
        cfg = NG.gen_model(random.Random(seed), ndates=5, size=size, opts={"stress": True})
        mon, model, err, out = MN.run_cfg(cfg, "float", pids=("C12",))
        rep.add_eval(("net-float", seed), nontrivial=len(cfg["nodes"]) >= 4)
        raised += int(err is not None)
        for (p, msg, sig) in mon.viol:
            if sig:
                continue
            viol += 1
            if viol <= 3:
                rep.violation("counterexample", f"C12 whole-model monitor (float): {msg}",
                              {"seed": seed, "size": size, "mode": "float", "config": NG.cfg_json(cfg)}, True)
    rep.monitor["C12_models_float"] = {"models": n, "raised": raised, "violations": viol}
    return {}


if __name__ == "__main__":
    sys.exit(net_check.run("C12", RULE,
                           ["models are well-formed (legal connections, non-negative parameters, forcing present for every date)",
                            "preferences of arcs used for distribution are not all zero (otherwise the allocation divides by zero: recorded separately)"],
                           opts={"stress": True}, extra=float_pass, n_quick=160, ndates=5))
