"""C12 — totality: theorems (coq/props/C12.v) + boundary-stream whole-model monitor."""
import random
from fractions import Fraction as F
import sys

import common as C
import mon_net as MN
import net_check
import netgen as NG

RULE = ("boundary stream of random well-formed models: forcing series that are all zero, start dry, have dry spells or bursts; "
        "populations and demands of zero; empty and full stores and service reservoirs; every node class of the generator; "
        "run in exact arithmetic (any exception is a violation); a floating-point stream adds growing surfaces with crop calendars and nutrient pools (incl. nutrient-free soil), the default pollutant set with river biochemistry, start dates around month / year / leap-year ends, and a scan for non-finite "
        "values. non-trivial = distinct model with >= 4 nodes")


def float_pass(rep, thorough):
    n = 600 if thorough else 90
    viol = 0
    raised = 0
    for i, (seed, size) in enumerate(net_check.gen_cases("net_C12_float", n, 5, {"stress": True})):
        r0 = random.Random(seed)
        # growing surfaces (crop calendars, nutrient pools incl. nutrient-free soil), default pollutants with river
        # biochemistry, and runs that cross month / year / leap-year boundaries
        opts = {"stress": True, "growing": size in ("land", "full"), "start": r0.choice(NG.STARTS)}
        cfg = NG.gen_model(random.Random(seed), ndates=5, polset=r0.choice(["default", "default", "simple", "four"]),
                           size=size if i % 3 else "land", opts=opts)
        mon, model, err, out = MN.run_cfg(cfg, "float", pids=("C12",))
        rep.add_eval(("net-float", seed), nontrivial=len(cfg["nodes"]) >= 4)
        raised += int(err is not None)
        for (p, msg, sig) in mon.viol:
            if sig:
                continue
            viol += 1
            if viol <= 3:
                rep.violation("counterexample", f"C12 whole-model monitor (float): {msg}",
                              {"seed": seed, "size": size, "mode": "float", "config": NG.cfg_json(cfg)}, True)
    rep.monitor["C12_models_float"] = {"models": n, "raised": raised, "violations": viol}
    # shapes the generator's backbone does not produce: a store that draws from a reach through one arc and releases into
    # the SAME reach through another (pumped storage on a lumped reach), a junction fed and drained by the same river pair,
    # arcs in both directions between two nodes - legal, and they must build and run
    loops = {"models": 0, "raised": 0}
    for i in range(40 if thorough else 12):
        r1 = random.Random(f"{C.seed()}:c12-loops:{i}")
        g = NG.Gen(r1, 5, "simple", {})
        NG.set_pollutants("simple")
        try:
            out = g.waste()
            riv = g.river()
            g.arc(g.catchment(r1.choice(["steady", "mixed", "burst"])), riv)
            low = g.river() if r1.random() < 0.5 else None
            g.arc(riv, low or out)
            if low:
                g.arc(low, out)
            store = g.reservoir(river_like=True)
            g.nodes[-1]["type_"] = "Reservoir"          # filed as the library files it: the default orchestration serves it
            g.arc(riv, store, cap=r1.choice([None, F(6)]))                  # abstraction / inflow
            g.arc(store, r1.choice([riv, riv, low or riv]), cap=r1.choice([None, F(4)]))      # release back into the reach
            if r1.random() < 0.4:
                j = g.junction()
                g.arc(riv, j)
                g.arc(j, low or out)
            cfg = {"polset": "simple", "dates": g.dates, "nodes": g.nodes, "arcs": g.arcs, "size": "loop"}
        finally:
            NG.set_pollutants("default")
        mon, model, err, out_ = MN.run_cfg(cfg, "float", pids=("C12",))
        loops["models"] += 1
        loops["raised"] += int(err is not None)
        rep.add_eval(("net-float-loop", i), nontrivial=True)
        for (p, msg, sig) in mon.viol:
            if sig:
                continue
            viol += 1
            if viol <= 3:
                rep.violation("counterexample", f"C12 whole-model monitor (float, store releasing into the reach it draws from): {msg}",
                              {"seed": i, "size": "loop", "mode": "float", "config": NG.cfg_json(cfg)}, True)
    rep.monitor["C12_models_with_loops"] = loops
    # a sewer with temperature data discharging over every arc class (incl. decaying arcs) into receivers that fill up
    import mon_duo
    mon_duo.run(rep, thorough, "C12")
    return {}


if __name__ == "__main__":
    sys.exit(net_check.run("C12", RULE,
                           ["models are well-formed (legal connections, non-negative parameters, forcing present for every date)",
                            "preferences of arcs used for distribution are not all zero (otherwise the allocation divides by zero: recorded separately)"],
                           opts={"stress": True}, extra=float_pass, n_quick=160, ndates=5))
