"""C12 — totality: theorems (coq/props/C12.v) + boundary-stream whole-model monitor."""
import random
import sys

import common as C
import mon_net as MN
import net_check
import netgen as NG

RULE = ("boundary stream of random well-formed models: forcing series that are all zero, start dry, have dry spells or bursts; "
        "populations and demands of zero; empty and full stores and service reservoirs; every node class of the generator; "
        "run in exact arithmetic (any exception is a violation); a floating-point stream adds growing surfaces with crop calendars and nutrient pools (incl. nutrient-free soil), the default pollutant set with river biochemistry, start dates around month / year / leap-year ends, and a scan for non-finite "
        "values. non-trivial = distinct model with >= 4 nodes")


def float_pass(rep, thorough):
    n = 600 if thorough else 90
    viol = 0
    raised = 0
    for i, (seed, size) in enumerate(net_check.gen_cases("net_C12_float", n, 5, {"stress": True})):
        r0 = random.Random(seed)
        # growing surfaces (crop calendars, nutrient pools incl. nutrient-free soil), default pollutants with river
        # biochemistry, and runs that cross month / year / leap-year boundaries
        opts = {"stress": True, "growing": size in ("land", "full"), "start": r0.choice(NG.STARTS)}
        cfg = NG.gen_model(random.Random(seed), ndates=5, polset=r0.choice(["default", "default", "simple", "four"]),
                           size=size if i % 3 else "land", opts=opts)
        mon, model, err, out = MN.run_cfg(cfg, "float", pids=("C12",))
        rep.add_eval(("net-float", seed), nontrivial=len(cfg["nodes"]) >= 4)
        raised += int(err is not None)
        for (p, msg, sig) in mon.viol:
            if sig:
                continue
            viol += 1
            if viol <= 3:
                rep.violation("counterexample", f"C12 whole-model monitor (float): {msg}",
                              {"seed": seed, "size": size, "mode": "float", "config": NG.cfg_json(cfg)}, True)
    rep.monitor["C12_models_float"] = {"models": n, "raised": raised, "violations": viol}
    # a sewer with temperature data discharging over every arc class (incl. decaying arcs) into receivers that fill up
    import mon_duo
    mon_duo.run(rep, thorough, "C12")
    return {}


if __name__ == "__main__":
    sys.exit(net_check.run("C12", RULE,
                           ["models are well-formed (legal connections, non-negative parameters, forcing present for every date)",
                            "preferences of arcs used for distribution are not all zero (otherwise the allocation divides by zero: recorded separately)"],
                           opts={"stress": True}, extra=float_pass, n_quick=160, ndates=5))
