"""C15 — overrides: override-as-construction, idempotence, consistency and ownership theorems (coq/props/C15.v) + constructor
table T3 + exact parameter correspondence + twin / bystander monitor."""
import json
import os
import sys

import common as C
import corr_comp as K
import corr_params  # noqa: F401  (registers the family)
import mon_c15

PID = "C15"
RULE = ("T3 (harness/gen_ctors.py): table of every constructor parameter with a mutable default and whether its default object can be "
        "reached by an in-place update, regenerated from the source; theorem: all owned. correspondence (family params): the eight "
        "component kinds of Params.v under random override sequences (any subset of keys incl. ignored ones, repeated overrides) and "
        "save/load round trips, compared exactly; family world: Demand / Surface / NutrientPool instances constructed with default or "
        "given dictionaries and overridden: every instance's dictionary and the constructor's default object equal the ownership "
        "model's after every step. monitor (exact arithmetic): every component class with apply_overrides, random override subsets: "
        "overridden object vs freshly constructed twin (deep snapshot and behaviour under the same request script in identical rigs), "
        "same override applied again, bystanders of every class before/after, components constructed afterwards vs controls from a "
        "fresh interpreter, mutable default arguments and constants unchanged. non-trivial = case with >= 3 operations / monitor case "
        "whose script moved water")


def main():
    rep = C.Report(PID)
    rep.trusted = list(C.BASE_TRUST) + [
        "coq/Params.v is hand-written from the constructors and apply_overrides methods; policed by the params correspondence",
        "T3 (harness/gen_ctors.py, ast data-flow of __init__ + in-place mutation sites qualified by receiver) is trusted to read the "
        "source correctly; it fails closed, and the world correspondence and the monitor's default-argument scan police it dynamically",
        "behaviour of overridden components under request sequences, handler decoration and classes outside Params.v are reached only "
        "by the monitor (partial)"]
    thorough = C.tier() == "thorough"
    replay = os.environ.get("VERIF_REPLAY")
    if replay:
        body = json.load(open(replay))
        if body.get("kind") == "counterexample" and "case" in body and "key" in body.get("case", {}):
            seen = mon_c15.replay(rep, body)
            C.apply_known(rep, PID, {k: (k, "model", {"ops": [], "cls": "model"}, -1) for k in seen})
            return rep.finish("replay of one recorded case", [])
    C.proof_stage(rep, "props/C15.v")
    K.correspondence(rep, "params", 1500 if thorough else 300, 8, tag="c15")
    # overrides on nodes that have been used (Sewer, QueueGroundwater, Distribution, WWTW, FWTW): every later operation is
    # compared with the node models, whose override is the object of the C15 node theorems
    import corr_kinds  # noqa: F401
    import corr_tarea  # noqa: F401
    import corr_leak  # noqa: F401
    import corr_wtw  # noqa: F401
    for fam in ("tarea", "leak", "wtw"):
        K.correspondence(rep, fam, 1200 if thorough else 150, 8, tag="c15", maxdigits=30)
    seen = mon_c15.run(rep, thorough)
    C.apply_known(rep, PID, {k: (k, "model", {"ops": [], "cls": "model"}, -1) for k in seen})
    return rep.finish(RULE, ["total_porosity non-zero (see C14)", "override values are legal constructor values",
                             "components do not share a dictionary object on purpose (one passed to two constructors by the user is "
                             "copied by the repaired constructors of Demand, Surface, DecayTank, DecayQueueTank, NutrientPool)"])


if __name__ == "__main__":
    sys.exit(main())
