"""C10 — flux algebra."""
import json
import os
import sys

import common as C
import corr_core as K

PID = "C10"


def main():
    rep = C.Report(PID)
    rep.trusted = list(C.BASE_TRUST)
    thorough = C.tier() == "thorough"
    replay = os.environ.get("VERIF_REPLAY")
    if replay:
        body = json.load(open(replay))
        case = body.get("case")
        if body.get("kind") == "counterexample" and case and "d" in case:
            from fractions import Fraction as F
            pv = lambda v: (F(v["volume"]), [F(x) for x in v["additive"]], [F(x) for x in v["non_additive"]])
            c = {"adds": case["additive"], "nons": case["non_additive"], "a": pv(case["a"]), "b": pv(case["b"]),
                 "d": pv(case["d"]), "v": F(case["v"])}
            if case.get("declared_by_load"):
                c["declared_by_load"] = case["declared_by_load"]
            K.monitor_c10(rep, 0, replay_case=c)
            return rep.finish("replay of one recorded case", [])
    ok = C.proof_stage(rep, "props/C10.v")
    translated = rep.extra["generators"]["gen_core"].get("functions", {})
    missing = [k for k, v in translated.items() if not v["translated"] and not k.startswith("generic_")]
    if missing:
        rep.violation("broken-obligation", f"translator T1 refuses core.py methods {missing}: "
                      + "; ".join(f"{k}: {translated[k]['error']}" for k in missing), {"untranslated": missing}, False)
    n = 6000 if thorough else 600
    K.correspondence(rep, K.OPS2 + K.OPS1 + K.OPSV, n, "c10", translated)
    K.monitor_c10(rep, 4000 if thorough else 500)
    rule = ("correspondence: random fluxes over random pollutant partitions (custom names, 0-3 additive, 0-2 "
            "non-additive; zero, tiny (<= 1e-11), dyadic and large values; wet and dry-mass) through every core flux "
            "method, implementation on exact numbers vs translated Gallina definition compared exactly incl. argument "
            "dictionaries after the call and ZeroDivisionError <-> divok=false; monitor: the C10 laws evaluated "
            "directly on the implementation, in every fifth case with the pollutant set declared by loading a configuration file that carries all or some of the keys pollutants / additive_pollutants / non_additive_pollutants (Model.load). non-trivial = distinct case with positive first volume")
    return rep.finish(rule, ["exact-rational semantics stands for float semantics up to rounding",
                             "decay keys are additive pollutants (well-formedness)"])


if __name__ == "__main__":
    sys.exit(main())
