"""C06 — component level: theorems (coq/props/C06.v), exact correspondence, implementation monitors."""
import sys

import comp_check


def net_pass(rep, thorough):
    """whole-model scan: every store, arc record and admitted flow at every pre-close-out point"""
    import net_check
    seen = net_check.monitor_models(rep, "C06", 800 if thorough else 120, 5)
    # the treatment works on their own, in the states only a history reaches (tank above a lowered capacity, effluent
    # parked because the outfall was blocked): no reply, store or account negative after any operation
    import corr_kinds  # noqa: F401
    import corr_wtw
    corr_wtw.monitor_nonneg(rep, "C06", 2500 if thorough else 300)
    return seen

RULE = ("correspondence: random operation sequences (pushes incl. forced/dry-mass/sub-epsilon, pulls, pollutant pulls, "
        "evaporation, checks, balance calls, timestep ends with varying temperature) on Tank/ResidenceTank/DecayTank, "
        "QueueTank/DecayQueueTank, Arc/PullArc/PushArc, QueueArc/DecayArc and AltQueueArc/DecayArcAlt between tank-backed or scripted (accept all / "
        "part / none, varying per call) neighbours, over random pollutant partitions; the whole observable state after "
        "every operation is compared exactly with the Gallina model. monitors: the C06 clauses evaluated directly on the "
        "implementation after every operation of fresh sequences; treatment works (WWTW / FWTW, family wtw) compared exactly and scanned for negative replies, stores and accounts after every operation of histories with overrides and blocked outfalls; sewers and time-area groundwater (family tarea). non-trivial = distinct sequence of >= 3 operations")

if __name__ == "__main__":
    sys.exit(comp_check.run("C06", "tank qtank arc qarc altarc tarea wtw".split(), RULE,
                            ["exact-rational semantics stands for float semantics up to rounding",
                             "offers are wet (non-negative, pollutant mass only with positive volume); no arc-level force for capacity clauses",
                             "end nodes respect the reply contract (proved for tank-backed ends)"], extra=net_pass))
