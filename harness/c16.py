"""C16 — timestep protocol: river-order theorems (coq/props/C16.v) + river-order correspondence + event-log monitor."""
import json
import os
import sys

import common as C
import corr_orch as O
import mon_c16

PID = "C16"
RULE = ("correspondence: Model.add_nodes/add_arcs on random acyclic river / junction / reservoir / outlet graphs (2-10 nodes, "
        "chains, confluences, divergent routes, several outlets, nodes and arcs inserted in random order): the implementation's "
        "river_discharge_order must equal the model's river_order exactly and the model's levels must have converged. monitor: "
        "call-sequence log of whole runs (random netgen models under the default and random custom orchestrations incl. repeated "
        "and multi-key entries; directly built river networks through both builders): dates set first, each orchestration entry "
        "once per node of the type in order, every river once and never before a river upstream of it, every node then every "
        "arc closed out once, recorded arc flow = flow delivered. non-trivial = graph with >= 3 arcs / model run with >= 4 nodes")


def main():
    rep = C.Report(PID)
    rep.trusted = list(C.BASE_TRUST) + [
        "coq/Orch.v models the dict `upstreamness` as an insertion-ordered association list and Python's sorted(reverse=True) as a stable "
        "descending insertion sort; policed by the river-order correspondence",
        "the call-sequence protocol is checked on the implementation only (instance-level wrappers + the guarded Model.run hooks)"]
    thorough = C.tier() == "thorough"
    replay = os.environ.get("VERIF_REPLAY")
    if replay:
        body = json.load(open(replay))
        if body.get("kind") == "counterexample":
            mon_c16.replay(rep, body)
            return rep.finish("replay of one recorded case", [])
    C.proof_stage(rep, "props/C16.v")
    O.correspondence(rep, 3000 if thorough else 400, tag="c16orch")
    seen = mon_c16.run(rep, thorough)
    C.apply_known(rep, PID, {k: (k, "model", {"ops": [], "cls": "model"}, -1) for k in seen})
    return rep.finish(RULE, ["river networks are acyclic (levels converge; the model reports it)",
                             "rivers that do not drain to any outlet are outside the river order (as in the source)"])


if __name__ == "__main__":
    sys.exit(main())
