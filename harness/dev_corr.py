"""development helper: run component correspondence for given families and print the summary"""
import sys, json
import common as C, corr_comp as K, corr_star, corr_kinds, corr_net, corr_params
rep = C.Report("DEV")
for fam in sys.argv[2:]:
    K.correspondence(rep, fam, int(sys.argv[1]), 14 if fam not in ('star','kind','catch','net') else 8, maxdigits=30 if fam in ('star','kind','catch','net') else None)
print(json.dumps(rep.corr, indent=0)[:3000])
for v in rep.violations[:5]:
    print(v[0], v[1][:400], v[2])
