"""Replays of the recorded known findings on the implementation (exact arithmetic).
Each function returns (reproduces: bool, detail: str).  Keyed by finding id in
/verif/known_findings.json; nothing here writes that file."""
from fractions import Fraction as F

import corr_comp as K
import gens as G
from exnum import EPS, UNBOUNDED, Ex, frac, install_exact


def _qarc(n=1, cap=10, adds=("phosphate",)):
    from wsimod.arcs import arcs
    part = K.Part(list(adds), [])
    inp = K.FakeNode("in", part, {"kind": "script", "lim": [F(0)], "acc": [F(0)], "comp": (F(1), [F(0)] * len(adds), [])})
    outp = K.FakeNode("out", part, {"kind": "script", "lim": [F(1000)], "acc": [F(0)], "comp": (F(1), [F(0)] * len(adds), [])})
    a = arcs.QueueArc(name="a", in_port=inp, out_port=outp, capacity=Ex(cap), number_of_timesteps=n)
    return part, a


def _with_partition(adds, f):
    install_exact()
    G.set_partition(list(adds), [])
    try:
        return f()
    finally:
        G.reset_partition()


def queuearc_late_bounce():
    """Refuted.w_c06_ops: push 5, end, push 1 against a receiver that accepts nothing"""
    def f():
        part, a = _qarc()
        a.send_push_request(part.d((F(5), [F(1)], [])))
        a.end_timestep()
        r = a.send_push_request(part.d((F(1), [F(0)], [])))
        v = frac(a.vqip_in["volume"])
        return v < 0, f"vqip_in['volume'] = {v}, reply volume {frac(r['volume'])} for an offer of 1"
    return _with_partition(("phosphate",), f)


def queuearc_tiny_push():
    """Refuted.w_tiny: an offer of 1e-12 volume carrying 1 unit of pollutant"""
    def f():
        part, a = _qarc()
        r = a.send_push_request(part.d((F(1, 10 ** 12), [F(1)], [])))
        lost = frac(r["phosphate"]) == 0 and frac(a.vqip_in["phosphate"]) == 0 and len(a.queue) == 0
        return lost, f"reply phosphate {frac(r['phosphate'])}, recorded {frac(a.vqip_in['phosphate'])}, queued {len(a.queue)} for an offer carrying 1"
    return _with_partition(("phosphate",), f)


REPLAYS = {
    "queuearc-late-bounce": queuearc_late_bounce,
    "queuearc-tiny-push": queuearc_tiny_push,      # repaired: kept so that a regression can be recognised
}


def node_data_input_dict_runtimeerror():
    """a node holding input data cannot be overridden without re-reading a file (tests/test_nodes.py pins the RuntimeError)"""
    from wsimod.nodes.nodes import Node
    n = Node(name="n", data_input_dict={("temperature", 1): 15})
    try:
        n.apply_overrides({})
        return False, "apply_overrides({}) returned normally"
    except RuntimeError as ex:
        return True, f"Node with a data_input_dict: apply_overrides({{}}) raises RuntimeError({ex})"


def surface_deposition_not_enabled_by_override():
    from wsimod.nodes.land import Surface
    with_load = Surface(pollutant_load={"phosphate": 1.0})
    s = Surface()
    s.apply_overrides({"pollutant_load": {"phosphate": 1.0}})
    names = lambda x: [f.__name__ for f in x.inflows]
    return (names(s) != names(with_load),
            f"constructed with a load: inflows {names(with_load)}; constructed without and overridden with the same load: inflows {names(s)}")


REPLAYS.update({
    "node-data-input-dict-runtimeerror": node_data_input_dict_runtimeerror,
    "surface-deposition-not-enabled-by-override": surface_deposition_not_enabled_by_override,
})


def distribution_leakage_bounced():
    """a Distribution with leakage whose groundwater cannot take the leak hands it to the consumer on top of the request"""
    from wsimod.arcs.arcs import Arc
    from wsimod.nodes.distribution import Distribution
    from wsimod.nodes.nodes import Node
    from wsimod.nodes.storage import Groundwater, Reservoir
    import contextlib
    import io
    src = Reservoir(name="r", capacity=1000, initial_storage=1000)
    d = Distribution(name="d", leakage=0.1)
    gw = Groundwater(name="g", capacity=0.5, area=1)          # takes 0.5 of the 1.0 that leaks
    user = Node(name="u")
    Arc(name="a1", in_port=src, out_port=d)
    Arc(name="a2", in_port=d, out_port=gw)
    a3 = Arc(name="a3", in_port=d, out_port=user)
    with contextlib.redirect_stdout(io.StringIO()):
        x = a3.send_pull_check({"volume": 9.0})["volume"]
        got = a3.send_pull_request({"volume": 9.0})["volume"]
    return got > 9.0 + 1e-9, f"check offered {x:.4f} for a request of 9, the pull of 9 returned {got:.4f} (groundwater took 0.5 of the 1.0 leaked)"


REPLAYS["distribution-leakage-bounced-to-consumer"] = distribution_leakage_bounced


def late_bounce_mixed_remainder():
    """a travel-time arc delivers, a timestep after it admitted them, two pushes into a full RiverReservoir whose outlet can
    only take the first: the reservoir hands the second back as MIXED water (push_set_river_reservoir: 'weird numbers in
    reply'), the arc books delivered = sent - handed back - negative in the pollutant the reservoir holds and the pushed
    water did not - and passes the remainder on to today's sender (late bounce), which gets back salt it never offered"""
    import contextlib
    import io
    from wsimod.arcs.arcs import Arc, QueueArc
    from wsimod.core import constants
    from wsimod.nodes.nodes import Node
    from wsimod.nodes.storage import RiverReservoir
    from wsimod.nodes.waste import Waste
    constants.set_simple_pollutants()
    try:
        with contextlib.redirect_stdout(io.StringIO()):
            up = Node(name="up")
            res = RiverReservoir(name="res", capacity=10, area=1, initial_storage={"volume": 10.0, "phosphate": 1.0, "temperature": 10.0},
                                 environmental_flow=0)
            out = Waste(name="out")
            q = QueueArc(name="q", in_port=up, out_port=res, number_of_timesteps=1)
            o = Arc(name="o", in_port=res, out_port=out, capacity=4)
            clean = lambda v: {"volume": float(v), "phosphate": 0.0, "temperature": 10.0}
            q.send_push_request(clean(4))
            q.send_push_request(clean(3))
            for x in (q, o, res):
                x.end_timestep()
            r = q.send_push_request(clean(1))
        neg = q.vqip_out["phosphate"] < -1e-12 and q.vqip_out["volume"] >= 0
        return neg and r["phosphate"] > 1e-12, (f"QueueArc into a full RiverReservoir: out-record {q.vqip_out['volume']:.4g} volume with {q.vqip_out['phosphate']:.4g} phosphate; "
                                                 f"today's sender offered 1 volume without phosphate and was handed back {r['volume']:.4g} volume with {r['phosphate']:.4g} phosphate")
    finally:
        constants.set_default_pollutants()


REPLAYS["late-bounce-mixed-remainder"] = late_bounce_mixed_remainder


def queuearc_late_pull():
    """a junction draws from one store over a plain arc and from another over a QueueArc with one timestep of travel time:
    what it asks of the second store today arrives tomorrow, on top of whatever it asks for then - the junction hands on more
    than it was asked for, and the plain arc in front of it books more than its capacity"""
    import contextlib
    import io
    from wsimod.arcs.arcs import Arc, QueueArc
    from wsimod.core import constants
    from wsimod.nodes.nodes import Node
    from wsimod.nodes.storage import Reservoir
    constants.set_simple_pollutants()
    try:
        with contextlib.redirect_stdout(io.StringIO()):
            near = Reservoir(name="near", capacity=100, area=1, initial_storage=2.0)
            far = Reservoir(name="far", capacity=100, area=1, initial_storage=100.0)
            j = Node(name="j")
            user = Node(name="user")
            p = Arc(name="p", in_port=near, out_port=j)
            q = QueueArc(name="q", in_port=far, out_port=j, number_of_timesteps=1)
            a = Arc(name="a", in_port=j, out_port=user, capacity=10)
            got1 = a.send_pull_request({"volume": 10.0})["volume"]
            for x in (p, q, a, near, far):
                x.end_timestep()
            near.tank.storage["volume"] = 6.0          # (the near store has been topped up)
            got2 = a.send_pull_request({"volume": 10.0})["volume"]
        return a.flow_in > a.capacity + 1e-9 and got2 > 10.0 + 1e-9, (f"day 1: asked 10, got {got1:.4g} (the rest is under way in the QueueArc); day 2: asked 10 over an arc of "
                                                                     f"capacity 10, got {got2:.4g}, the arc books {a.flow_in:.4g}")
    finally:
        constants.set_default_pollutants()


REPLAYS["queuearc-late-pull"] = queuearc_late_pull
