"""C08 — routing discipline: theorems incl. the regenerated handler tables (coq/props/C08.v), star / arc correspondence,
behavioural cross-product monitor."""
import json
import os
import sys

import common as C
import comp_check
import corr_comp as K
import corr_star as S
import mon_route

PID = "C08"
RULE = ("tables: every registered node class is instantiated and its handler-table keys dumped, every push_distributed / "
        "pull_distributed / get_connected call site with literal tag / of_type is collected by an ast scan; the theorem is over "
        "exactly these tables (exhaustive). correspondence: plain / pull-only / push-only arcs and stars with type filters "
        "(lists and bare strings, class names that are substrings of one another). monitor: every node class x arc class x "
        "{push, pull, checks}; every collected emission towards every class seen under the named types. non-trivial = every probe")


def main():
    rep = C.Report(PID)
    rep.trusted = list(C.BASE_TRUST) + comp_check.TRUST_COMP + [
        "harness/gen_tables.py (T2): instantiates the registered node classes and ast-scans wsimod/nodes/*.py for literal tag= / of_type= "
        "arguments; a dynamic tag or filter would be invisible to it (none in the library at present: reported in the evidence)"]
    thorough = C.tier() == "thorough"
    C.proof_stage(rep, "props/C08.v")
    g = rep.extra.get("generators", {}).get("gen_tables", {})
    if g.get("rc", 1) != 0:
        rep.violation("broken-obligation", "table generator T2 failed on the tree under test", {"generator": g}, False)
    n = 1200 if thorough else 150
    K.correspondence(rep, "arc", n, 12, tag="c08")
    K.correspondence(rep, "star", n, 8, tag="c08", maxdigits=30)
    import corr_kinds  # noqa: F401  (store-backed node classes as hubs of typed stars: their own type filters)
    K.correspondence(rep, "kind", n, 8, tag="c08", maxdigits=30)
    corr_kinds.monitor_c08_kinds(rep, 800 if thorough else 120)
    S.monitor_c18(rep, 1500 if thorough else 200, pid="C08")
    mon_route.run(rep, thorough)
    # one-way arcs in whole models after a run (incl. models whose arcs were overridden through Model.add_overrides with an
    # entry that names another arc class): a pull-only arc offers no room to a push and hands it back whole, a push-only
    # arc answers no pull
    import mon_probe
    mon_probe.run(rep, thorough, pid=PID)
    C.apply_known(rep, PID, {})
    rep.extra["exhaustive_tables"] = True
    return rep.finish(RULE, ["tags and type filters are literals at the emitting call sites (checked by the generator)"])


if __name__ == "__main__":
    sys.exit(main())
