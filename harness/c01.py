"""C01 — theorems on the building blocks (coq/props/C01.v) + exact whole-model monitor."""
import sys

import net_check

RULE = ("random well-formed models (river chains and confluences with junctions, reservoirs and river reservoirs; supply "
        "chains reservoir - FWTW - distribution - demand - sewer(s) - WWTW - river with overflow and leakage to groundwater; "
        "land with impervious / pervious surfaces, groundwater or queue groundwater, sewers) under four pollutant "
        "configurations, shuffled insertion order, forcing with zeros, dry spells and bursts, run in exact arithmetic with the "
        "observer hooks; at every timestep every node's declared inflow minus outflow equals the directly measured change of what it stores (plus decay inside the window). non-trivial = distinct model with >= 4 nodes."
        " correspondence (family net): random networks of the real Node, Waste, Storage, Reservoir, Groundwater, River and Catchment classes over plain arcs (3-8 nodes, chains, confluences, stores in cycles, limited capacities, preferences) driven by distribute / route / make_abstractions calls and direct pushes, pulls and checks over arcs: every store and every arc record after every operation equals the model's exactly, and the wiring hypothesis of the network theorems (net_wfb) is evaluated on every network built.")

if __name__ == "__main__":
    sys.exit(net_check.run("C01", RULE,
                           ["exact-rational semantics stands for float semantics up to rounding",
                            "remainders below FLOAT_ACCURACY that the code drops by design count as dust (tolerance 1e-9 on exact values)",
                            "treatment parameters are well-formed (constant x temperature factor + liquor multiplier <= 1)"],
                           n_quick=160, ndates=5, corr=[("net", 250, 2500, 8), ("demand", 200, 2000, 8), ("tarea", 150, 1500, 8), ("wtw", 200, 2000, 8), ("land", 150, 1200, 6)]))
