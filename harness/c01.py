"""C01 — theorems on the building blocks (coq/props/C01.v) + exact whole-model monitor."""
import sys

import random

import mon_net as MN
import net_check
import netgen as NG

RULE = ("random well-formed models (river chains and confluences with junctions, reservoirs and river reservoirs; supply "
        "chains reservoir - FWTW - distribution - demand - sewer(s) - WWTW - river with overflow and leakage to groundwater; "
        "land with impervious / pervious surfaces, groundwater or queue groundwater, sewers) under four pollutant "
        "configurations, shuffled insertion order, forcing with zeros, dry spells and bursts, run in exact arithmetic with the "
        "observer hooks; at every timestep every node's declared inflow minus outflow equals the directly measured change of what it stores (plus decay inside the window). non-trivial = distinct model with >= 4 nodes."
        " float stream: land with growing surfaces (crop calendars, nutrient pools) and the default pollutant set incl. river biochemistry, every node's balance within rounding."
        " correspondence (family net): random networks of the real Node, Waste, Storage, Reservoir, Groundwater, River and Catchment classes over plain arcs (3-8 nodes, chains, confluences, stores in cycles, limited capacities, preferences) driven by distribute / route / make_abstractions calls and direct pushes, pulls and checks over arcs: every store and every arc record after every operation equals the model's exactly, and the wiring hypothesis of the network theorems (net_wfb) is evaluated on every network built.")

def float_growing(rep, thorough):
    """the node classes outside the exact generator: land with growing surfaces (crop calendar, nutrient pools, soil water
    whose nutrient speciation need not match the pool's), default pollutant set with river biochemistry, floating point:
    every node's declared balance closes at every timestep within rounding"""
    n = 300 if thorough else 50
    viol = 0
    raised = 0
    for i, (seed, size) in enumerate(net_check.gen_cases("net_C01_float_growing", n, 5)):
        r0 = random.Random(seed)
        opts = {"growing": True, "start": r0.choice(["2000-03-29", "2003-03-30", "2000-05-10", "2001-07-01", "2000-09-20", "2000-12-29"])}
        cfg = NG.gen_model(random.Random(seed), ndates=r0.choice([5, 8, 12]), polset="default", size=r0.choice(["land", "land", "full"]), opts=opts)
        mon, model, err, out = MN.run_cfg(cfg, "float", pids=("C01",))
        rep.add_eval(("net-float-growing", seed), nontrivial=len(cfg["nodes"]) >= 4)
        raised += int(err is not None)
        for (p, msg, sig) in mon.viol:
            if sig or p != "C01":
                continue
            viol += 1
            if viol <= 3:
                rep.violation("counterexample", f"C01 whole-model monitor (float, growing surfaces): {msg}",
                              {"seed": seed, "size": size, "mode": "float", "config": NG.cfg_json(cfg)}, True)
    rep.monitor["C01_models_float_growing_surfaces"] = {"models": n, "raised": raised, "violations": viol}
    return {}


if __name__ == "__main__":
    sys.exit(net_check.run("C01", RULE,
                           ["exact-rational semantics stands for float semantics up to rounding",
                            "remainders below FLOAT_ACCURACY that the code drops by design count as dust (tolerance 1e-9 on exact values)",
                            "treatment parameters are well-formed (constant x temperature factor + liquor multiplier <= 1)"],
                           n_quick=160, ndates=5, extra=float_growing, corr=[("net", 250, 2500, 8), ("demand", 200, 2000, 8), ("tarea", 150, 1500, 8), ("wtw", 200, 2000, 8), ("land", 150, 1200, 6)]))
