"""C02 — component level: theorems (coq/props/C02.v), exact correspondence, implementation monitors."""
import sys

import comp_check

RULE = ("correspondence: random operation sequences (pushes incl. forced/dry-mass/sub-epsilon, pulls, pollutant pulls, "
        "evaporation, checks, balance calls, timestep ends with varying temperature) on Tank/ResidenceTank/DecayTank, "
        "QueueTank/DecayQueueTank, Arc/PullArc/PushArc, QueueArc/DecayArc and AltQueueArc/DecayArcAlt between tank-backed or scripted (accept all / "
        "part / none, varying per call) neighbours, over random pollutant partitions; the whole observable state after "
        "every operation is compared exactly with the Gallina model. monitors: the C02 clauses evaluated directly on the "
        "implementation after every operation of fresh sequences; whole models under Model.run: per arc and timestep entered = left + "
        "change in transit + decayed, and nothing but decay between the pre-close-out observation and the next timestep. non-trivial = distinct sequence of >= 3 operations")

def models(rep, thorough):
    # the arcs of whole models (netgen, every third with travel-time / decaying / one-way arc classes) under Model.run:
    # per arc and timestep entered = left + change in transit + decayed, and between the observation before close-out
    # and the next timestep an arc only decays
    import net_check
    seen = net_check.monitor_models(rep, "C02", 600 if thorough else 90, 7 if thorough else 4)
    # a sewer discharging over every arc class into receivers that fill up (late bounces), several timesteps
    import mon_duo
    mon_duo.run(rep, thorough, "C02")
    return seen


if __name__ == "__main__":
    sys.exit(comp_check.run("C02", "arc qarc altarc qtank".split(), RULE,
                            ["exact-rational semantics stands for float semantics up to rounding",
                             "offers are wet (non-negative, pollutant mass only with positive volume); no arc-level force for capacity clauses",
                             "end nodes respect the reply contract (proved for tank-backed ends)"], extra=models))
