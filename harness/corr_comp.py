"""Component-level exact correspondence: operation sequences on tanks, queue
tanks and arcs of the implementation (run on Ex numbers) against the Gallina
models (Tank.v, Arc.v, QTank.v via Run.v), whole observable state compared
after every operation."""
from fractions import Fraction as F

import common as C
import gens as G
from exnum import EPS, UNBOUNDED, Ex, frac, install_exact

BUCKETS = 6      # dense bucket prefix compared for queue tanks


# ---------------------------------------------------------------------------
# encoders (mirror Enc.v / Run.v)
# ---------------------------------------------------------------------------
class Part:
    def __init__(self, adds, nons):
        self.adds, self.nons = adds, nons
        self.na, self.nn = len(adds), len(nons)

    def d(self, v):
        return G.to_dict(v, self.adds, self.nons)

    def t(self, d):
        return G.from_dict(d, self.adds, self.nons)

    def ev(self, d):
        """canonical encoding of a vqip dict"""
        v = self.t(d)
        if v[0] == 0:
            v = (v[0], v[1], [F(0)] * self.nn)
        return C.encv(v)

    def evt(self, v):
        if v[0] == 0:
            v = (v[0], v[1], [F(0)] * self.nn)
        return C.encv(v)


def lit_opt_q(x):
    return "None" if x is None else f"(Some {C.qlit(x)})"


def lit_opt_v(v):
    return "None" if v is None else f"(Some {C.vlit(v)})"


def lit_bool(b):
    return "true" if b else "false"


def lit_dec(d):
    return "[" + "; ".join(f"({C.qlit(p[0])}, {C.qlit(p[1])})" for p in d) + "]"


class FakeParent:
    """temperature source for decaying objects"""

    def __init__(self):
        self.t = 0
        self.data_input_dict = {("temperature", 0): Ex(20)}
        self.name = "parent"

    def set_T(self, T):
        self.data_input_dict[("temperature", 0)] = Ex(T)


def rand_decays(r, na, allow_empty=False):
    d = []
    for _ in range(na):
        d.append((r.choice([F(0), F(1, 100), F(1, 20), F(1, 2), F(3, 5), F(3, 2)]),
                  r.choice([F(1), F(1005, 1000), F(11, 10), F(9, 10), F(2)])))
    return d


def rand_T(r):
    return r.choice([F(20), F(5), F(26), F(31), F(-2), F(41, 2), F(77, 4)])


def push_amount(r, part, cap_hint):
    v = G.rand_vqip(r, part.na, part.nn, wet=r.random() < 0.9)
    if r.random() < 0.5 and cap_hint and cap_hint < 10 ** 9:
        sc = F(cap_hint) * r.choice([F(1, 4), F(1, 2), F(3, 4), F(1), F(5, 4)])
        if v[0] > 0:
            v = (sc, [x * sc / v[0] for x in v[1]], v[2])
    return v


# ---------------------------------------------------------------------------
# Tank / ResidenceTank / DecayTank
# ---------------------------------------------------------------------------
def gen_tank_case(r, maxops):
    adds, nons = G.rand_partition(r, 0, 3, 2)
    part = Part(adds, nons)
    cls = r.choice(["Tank", "Tank", "ResidenceTank", "DecayTank"])
    cap = r.choice([F(0), F(5), F(10), F(37, 3), F(100), UNBOUNDED])
    init = G.rand_vqip(r, part.na, part.nn, wet=True)
    if r.random() < 0.3:
        init = (F(0), [F(0)] * part.na, init[2])
    dec = rand_decays(r, part.na) if cls == "DecayTank" and part.na > 0 else []
    if cls == "DecayTank" and not dec:
        cls = "Tank"
    res = r.choice([F(2), F(1), F(7, 2), F(1, 2)]) if cls == "ResidenceTank" else F(2)
    ops = []
    for _ in range(r.randint(1, maxops)):
        c = r.random()
        if c < 0.3:
            ops.append(("push", push_amount(r, part, cap), r.random() < 0.12))
        elif c < 0.5:
            ops.append(("pull", G.rand_q(r)))
        elif c < 0.56:
            ops.append(("pullpol", G.rand_vqip(r, part.na, part.nn)))
        elif c < 0.64:
            ops.append(("evap", G.rand_q(r)))
        elif c < 0.69:
            ops.append(("ponded",))
        elif c < 0.75:
            ops.append(("avail", None if r.random() < 0.4 else G.rand_q(r)))
        elif c < 0.81:
            ops.append(("excess", None if r.random() < 0.4 else G.rand_q(r)))
        elif c < 0.91:
            ops.append(("end", rand_T(r)))
        elif c < 0.96:
            ops.append(("ds",))
        else:
            ops.append(("outflow",) if cls == "ResidenceTank" else ("ds",))
    return {"kind": "tank", "cls": cls, "adds": adds, "nons": nons, "cap": cap, "init": init, "dec": dec,
            "res": res, "ops": ops}


def enc_tank_py(part, t):
    dec = t.total_decayed if hasattr(t, "total_decayed") else part.d((F(0), [F(0)] * part.na, [F(0)] * part.nn))
    return part.ev(t.storage) + part.ev(t.storage_) + part.ev(dec)


def run_tank_impl(c):
    from wsimod.nodes import tanks
    part = Part(c["adds"], c["nons"])
    parent = FakeParent()
    kw = dict(capacity=Ex(c["cap"]), initial_storage=part.d(c["init"]))
    if c["cls"] == "Tank":
        t = tanks.Tank(**kw)
    elif c["cls"] == "ResidenceTank":
        t = tanks.ResidenceTank(residence_time=Ex(c["res"]), **kw)
    else:
        decs = {c["adds"][k]: {"constant": Ex(p[0]), "exponent": Ex(p[1])} for k, p in enumerate(c["dec"])}
        t = tanks.DecayTank(decays=decs, parent=parent, **kw)
    out = []
    for op in c["ops"]:
        k = op[0]
        if k == "push":
            out += part.ev(t.push_storage(part.d(op[1]), force=op[2]))
        elif k == "pull":
            out += part.ev(t.pull_storage({"volume": Ex(op[1])}))
        elif k == "pullpol":
            out += part.ev(t.pull_pollutants(part.d(op[1])))
        elif k == "evap":
            out += C.encq(frac(t.evaporate(Ex(op[1]))))
        elif k == "ponded":
            out += part.ev(t.pull_ponded())
        elif k == "avail":
            out += part.ev(t.get_avail(None if op[1] is None else {"volume": Ex(op[1])}))
        elif k == "excess":
            out += part.ev(t.get_excess(None if op[1] is None else {"volume": Ex(op[1])}))
        elif k == "end":
            parent.set_T(op[1])
            t.end_timestep()
        elif k == "ds":
            out += part.ev(t.ds())
        elif k == "outflow":
            out += part.ev(t.pull_outflow())
        out += enc_tank_py(part, t)
    return out


def tank_expr(c):
    ops = []
    for op in c["ops"]:
        k = op[0]
        if k == "push":
            ops.append(f"TPush {C.vlit(op[1])} {lit_bool(op[2])}")
        elif k == "pull":
            ops.append(f"TPull {C.qlit(op[1])}")
        elif k == "pullpol":
            ops.append(f"TPullPol {C.vlit(op[1])}")
        elif k == "evap":
            ops.append(f"TEvap {C.qlit(op[1])}")
        elif k == "ponded":
            ops.append("TPonded")
        elif k == "avail":
            ops.append(f"TAvail {lit_opt_q(op[1])}")
        elif k == "excess":
            ops.append(f"TExcess {lit_opt_q(op[1])}")
        elif k == "end":
            ops.append(f"TEnd {C.qlit(op[1])}")
        elif k == "ds":
            ops.append("TDs")
        elif k == "outflow":
            ops.append("TOutflow")
    na, nn = len(c["adds"]), len(c["nons"])
    return (f"run_tank {na} {nn} (t_init {C.qlit(c['cap'])} {C.vlit(c['init'])} {lit_dec(c['dec'])} "
            f"{C.qlit(c['res'])}) [{'; '.join(ops)}]")


# ---------------------------------------------------------------------------
# QueueTank / DecayQueueTank
# ---------------------------------------------------------------------------
def gen_qtank_case(r, maxops):
    adds, nons = G.rand_partition(r, 0, 3, 2)
    part = Part(adds, nons)
    cls = r.choice(["QueueTank", "QueueTank", "DecayQueueTank"])
    cap = r.choice([F(5), F(10), F(37, 3), F(100), UNBOUNDED])
    init = G.rand_vqip(r, part.na, part.nn, wet=True)
    if r.random() < 0.4:
        init = (F(0), [F(0)] * part.na, init[2])
    n = r.choice([0, 1, 1, 2, 3])
    dec = rand_decays(r, part.na) if cls == "DecayQueueTank" and part.na > 0 else []
    if cls == "DecayQueueTank" and not dec:
        cls = "QueueTank"
    ops = []
    for _ in range(r.randint(1, maxops)):
        x = r.random()
        if x < 0.38:
            ops.append(("push", push_amount(r, part, cap), r.choice([0, 0, 0, 1, 2, 3]), r.random() < 0.08))
        elif x < 0.55:
            ops.append(("pull", G.rand_q(r)))
        elif x < 0.6:
            ops.append(("pullexact", G.rand_vqip(r, part.na, part.nn)))
        elif x < 0.68:
            ops.append(("check", None if r.random() < 0.4 else G.rand_vqip(r, part.na, part.nn)))
        elif x < 0.72:
            ops.append(("avail",))
        elif x < 0.92:
            ops.append(("end", rand_T(r)))
        elif x < 0.96:
            ops.append(("setT", rand_T(r)))
        else:
            ops.append(("ds",))
    if r.random() < 0.2:
        # used, re-initialised, used again (QueueTank.reinit: what a node's reinit / Model.reinit reaches); the second use
        # is followed until what it pushed is due
        k = r.randint(1, len(ops))
        d = r.choice([1, 2, 2, 3, 3])
        first = ops[:k] + ([("push", push_amount(r, part, cap), d, False)] if r.random() < 0.7 else [])
        more = [("push", push_amount(r, part, cap), r.choice([d, d, 0, 1, 2, 3]), False) if r.random() < 0.5 else ("end", rand_T(r))
                for _ in range(r.randint(1, 4))]
        ops = first + [("reinit",)] + more + [("end", rand_T(r)) for _ in range(r.randint(1, n + 4))]
    return {"kind": "qtank", "cls": cls, "adds": adds, "nons": nons, "cap": cap, "init": init, "n": n,
            "dec": dec, "ops": ops}


def enc_arc_py(part, a):
    return C.encq(frac(a.flow_in)) + C.encq(frac(a.flow_out)) + part.ev(a.vqip_in) + part.ev(a.vqip_out)


def enc_qtank_py(part, t):
    arc = t.internal_arc
    zero = part.d((F(0), [F(0)] * part.na, [F(0)] * part.nn))
    out = part.ev(t.storage) + part.ev(t.storage_) + part.ev(t.active_storage)
    for k in range(BUCKETS):
        out += part.ev(arc.queue.get(k, zero))
    out += enc_arc_py(part, arc)
    out += part.ev(arc.total_decayed if hasattr(arc, "total_decayed") else zero)
    out += [max(arc.queue.keys()) + 1]
    return out


def run_qtank_impl(c):
    from wsimod.nodes import tanks
    part = Part(c["adds"], c["nons"])
    parent = FakeParent()
    kw = dict(capacity=Ex(c["cap"]), initial_storage=part.d(c["init"]), number_of_timesteps=c["n"])
    if c["cls"] == "QueueTank":
        t = tanks.QueueTank(**kw)
    else:
        decs = {c["adds"][k]: {"constant": Ex(p[0]), "exponent": Ex(p[1])} for k, p in enumerate(c["dec"])}
        t = tanks.DecayQueueTank(decays=decs, parent=parent, **kw)
    t.internal_arc.capacity = Ex(UNBOUNDED)
    out = []
    for op in c["ops"]:
        k = op[0]
        if k == "push":
            out += part.ev(t.push_storage(part.d(op[1]), time=op[2], force=op[3]))
        elif k == "pull":
            out += part.ev(t.pull_storage({"volume": Ex(op[1])}))
        elif k == "pullexact":
            out += part.ev(t.pull_storage_exact(part.d(op[1])))
        elif k == "check":
            out += part.ev(t.push_check(None if op[1] is None else part.d(op[1])))
        elif k == "avail":
            out += part.ev(t.get_avail())
        elif k == "end":
            parent.set_T(op[1])
            t.end_timestep()
        elif k == "setT":
            parent.set_T(op[1])
        elif k == "ds":
            out += part.ev(t.ds())
        elif k == "reinit":
            t.reinit()
        out += enc_qtank_py(part, t)
    return out


def qtank_expr(c):
    ops = []
    for op in c["ops"]:
        k = op[0]
        if k == "push":
            ops.append(f"QPush {C.vlit(op[1])} {op[2]} {lit_bool(op[3])}")
        elif k == "pull":
            ops.append(f"QPull {C.qlit(op[1])}")
        elif k == "pullexact":
            ops.append(f"QPullExact {C.vlit(op[1])}")
        elif k == "check":
            ops.append(f"QCheck {lit_opt_v(op[1])}")
        elif k == "avail":
            ops.append("QAvail")
        elif k == "end":
            ops.append(f"QEnd {C.qlit(op[1])}")
        elif k == "setT":
            ops.append(f"QSetT {C.qlit(op[1])}")
        elif k == "ds":
            ops.append("QDs")
        elif k == "reinit":
            ops.append("QReinit")
    na, nn = len(c["adds"]), len(c["nons"])
    return (f"run_qtank {na} {nn} {BUCKETS} (qt_set_T (qt_init {C.qlit(c['cap'])} {C.vlit(c['init'])} {c['n']} "
            f"{lit_dec(c['dec'])}) (20#1)) [{'; '.join(ops)}]")


# ---------------------------------------------------------------------------
# arcs between two neighbours
# ---------------------------------------------------------------------------
class FakeNode:
    """a neighbour: tank-backed or scripted (see Run.v nb)"""

    def __init__(self, name, part, spec):
        from wsimod.nodes import tanks
        self.name = name
        self.part = part
        self.in_arcs, self.out_arcs = {}, {}
        self.t = 0
        self.data_input_dict = {("temperature", 0): Ex(20)}
        self.kind = spec["kind"]
        if self.kind == "tank":
            self.tank = tanks.Tank(capacity=Ex(spec["cap"]), initial_storage=part.d(spec["init"]))
        else:
            self.lim = spec["lim"]
            self.acc = spec["acc"]
            self.i = 0
            self.comp = spec["comp"]

    def _zero(self):
        return self.part.d((F(0), [F(0)] * self.part.na, [F(0)] * self.part.nn))

    def push_check(self, vqip=None, tag="default"):
        if self.kind == "tank":
            return self.tank.get_excess(vqip)
        l = self.lim[self.i % len(self.lim)]
        z = self._zero()
        z["volume"] = Ex(l if vqip is None else min(frac(vqip["volume"]), l))
        return z

    def push_set(self, vqip, tag="default"):
        if self.kind == "tank":
            return self.tank.push_storage(vqip)
        acc = min(frac(vqip["volume"]), self.acc[self.i % len(self.acc)])
        self.i += 1
        from wsimod.core.core import WSIObj
        return WSIObj().v_change_vqip(vqip, vqip["volume"] - Ex(acc))

    def pull_check(self, vqip=None, tag="default"):
        if self.kind == "tank":
            return self.tank.get_avail(vqip)
        l = self.lim[self.i % len(self.lim)]
        z = self._zero()
        z["volume"] = Ex(l if vqip is None else min(frac(vqip["volume"]), l))
        return z

    def pull_set(self, vqip, tag="default"):
        if self.kind == "tank":
            return self.tank.pull_storage(vqip)
        out = min(frac(vqip["volume"]), self.acc[self.i % len(self.acc)])
        self.i += 1
        from wsimod.core.core import WSIObj
        return WSIObj().v_change_vqip(self.part.d(self.comp), Ex(out))

    def enc(self):
        if self.kind == "tank":
            return self.part.ev(self.tank.storage)
        return [self.i]


def rand_nb(r, part):
    if r.random() < 0.5:
        init = G.rand_vqip(r, part.na, part.nn, wet=True)
        return {"kind": "tank", "cap": r.choice([F(5), F(10), F(37, 3), F(100), UNBOUNDED]), "init": init}
    n = r.randint(1, 3)
    lim = [r.choice([F(0), F(2), F(5), F(25, 2), F(1000), UNBOUNDED]) for _ in range(n)]
    acc = [r.choice([F(0), F(1), F(3), F(7, 2), F(1000), UNBOUNDED]) for _ in range(n)]
    comp = (F(1), [F(r.randint(0, 5), r.choice([1, 2, 10])) for _ in range(part.na)],
            [F(r.randint(0, 25)) for _ in range(part.nn)])
    return {"kind": "script", "lim": lim, "acc": acc, "comp": comp}


def gen_arc_case(r, maxops, queue):
    adds, nons = G.rand_partition(r, 0, 3, 2)
    part = Part(adds, nons)
    if queue:
        cls = r.choice(["QueueArc", "QueueArc", "DecayArc"])
    else:
        cls = r.choice(["Arc", "Arc", "Arc", "PullArc", "PushArc"])
    cap = r.choice([F(0), F(3), F(8), F(25, 2), UNBOUNDED, UNBOUNDED])
    dec = rand_decays(r, part.na) if cls == "DecayArc" and part.na > 0 else []
    if cls == "DecayArc" and not dec:
        cls = "QueueArc"
    n = r.choice([0, 0, 1, 2, 3]) if queue else 0
    ops = []
    for _ in range(r.randint(1, maxops)):
        x = r.random()
        if x < 0.36:
            v = push_amount(r, part, cap)
            if queue and r.random() < 0.1:
                v = (EPS * r.choice([F(1, 2), F(1, 3)]), v[1], v[2])
            ops.append(("push", v, (r.random() < 0.06) and cls not in ("PullArc",), r.choice([0, 0, 0, 1, 2]) if queue else 0))
        elif x < 0.58:
            ops.append(("pull", G.rand_q(r), r.choice([0, 0, 0, 1, 2]) if queue else 0))
        elif x < 0.66:
            ops.append(("pushcheck", None if r.random() < 0.4 else G.rand_vqip(r, part.na, part.nn)))
        elif x < 0.74:
            ops.append(("pullcheck", None if r.random() < 0.4 else G.rand_q(r)))
        elif x < 0.9:
            ops.append(("end",))
        elif x < 0.95:
            ops.append(("ds",))
        else:
            ops.append(("setT", rand_T(r)))
    return {"kind": "qarc" if queue else "arc", "cls": cls, "adds": adds, "nons": nons, "cap": cap, "n": n,
            "dec": dec, "inp": rand_nb(r, part), "outp": rand_nb(r, part), "ops": ops}


def gen_altarc_case(r, maxops):
    c = gen_arc_case(r, maxops, True)
    c["kind"] = "altarc"
    c["cls"] = "DecayArcAlt" if c["cls"] == "DecayArc" else "AltQueueArc"
    # no pulls (unsupported by the class); no arc-level force (used nowhere in the library; a forced over-capacity
    # push makes later admitted volumes negative, where the dict-with-gaps and the dense model differ in qualities)
    c["ops"] = [((op[0], op[1], False, op[3]) if op[0] == "push" else op)
                for op in c["ops"] if op[0] not in ("pull", "pullcheck")] or [("end",)]
    # several timesteps without a request are what the alternative queue is sensitive to
    if r.random() < 0.5:
        c["ops"] = c["ops"] + [("end",)] * r.randint(1, 3) + [("push", push_amount(r, Part(c["adds"], c["nons"]), c["cap"]), False, 0)]
    return c


def enc_altarc_py(part, a):
    zero = part.d((F(0), [F(0)] * part.na, [F(0)] * part.nn))
    out = enc_arc_py(part, a)
    for k in range(BUCKETS):
        out += part.ev(a.queue.get(k, zero))
    out += [max(a.queue.keys()) + 1]
    out += part.ev(a.queue_storage) + part.ev(a.queue_storage_)
    out += part.ev(a.total_decayed if hasattr(a, "total_decayed") else zero)
    return out


def enc_qarc_py(part, a):
    out = enc_arc_py(part, a)
    out += [len(a.queue)]
    for rq in a.queue:
        out += [int(rq["time"])] + part.ev(rq["vqip"]) + C.encq(frac(rq["average_flow"])) + [1 if rq["direction"] == "push" else 0]
    zero = part.d((F(0), [F(0)] * part.na, [F(0)] * part.nn))
    out += part.ev(a.queue_storage) + part.ev(a.queue_storage_)
    out += part.ev(a.total_decayed if hasattr(a, "total_decayed") else zero)
    return out


def run_arc_impl(c):
    from wsimod.arcs import arcs
    part = Part(c["adds"], c["nons"])
    inp = FakeNode("in", part, c["inp"])
    outp = FakeNode("out", part, c["outp"])
    kw = dict(name="a", in_port=inp, out_port=outp, capacity=Ex(c["cap"]))
    cls = c["cls"]
    if cls in ("Arc", "PullArc", "PushArc"):
        a = getattr(arcs, cls)(**kw)
    elif cls == "QueueArc":
        a = arcs.QueueArc(number_of_timesteps=c["n"], **kw)
    elif cls == "AltQueueArc":
        a = arcs.AltQueueArc(number_of_timesteps=c["n"], **kw)
    elif cls == "DecayArcAlt":
        decs = {c["adds"][k]: {"constant": Ex(p[0]), "exponent": Ex(p[1])} for k, p in enumerate(c["dec"])}
        a = arcs.DecayArcAlt(decays=decs, parent=inp, number_of_timesteps=c["n"], **kw)
    else:
        decs = {c["adds"][k]: {"constant": Ex(p[0]), "exponent": Ex(p[1])} for k, p in enumerate(c["dec"])}
        a = arcs.DecayArc(decays=decs, number_of_timesteps=c["n"], **kw)
    queue = c["kind"] in ("qarc", "altarc")
    alt = c["kind"] == "altarc"
    out = []
    for op in c["ops"]:
        k = op[0]
        if k == "push":
            if queue:
                rep = a.send_push_request(part.d(op[1]), force=op[2], time=op[3])
            else:
                rep = a.send_push_request(part.d(op[1]), force=op[2])
            out += part.ev(rep)
        elif k == "pull":
            if queue:
                rep = a.send_pull_request({"volume": Ex(op[1])}, time=op[2])
            else:
                rep = a.send_pull_request({"volume": Ex(op[1])})
            out += part.ev(rep)
        elif k == "pushcheck":
            out += part.ev(a.send_push_check(None if op[1] is None else part.d(op[1])))
        elif k == "pullcheck":
            out += part.ev(a.send_pull_check(None if op[1] is None else {"volume": Ex(op[1])}))
        elif k == "end":
            a.end_timestep()
        elif k == "ds":
            if queue:
                out += part.ev(a.queue_arc_ds())
            else:
                out += part.ev(a.mass_balance_ds[0]())
        elif k == "setT":
            inp.data_input_dict[("temperature", 0)] = Ex(op[1])
        out += (enc_altarc_py(part, a) if alt else enc_qarc_py(part, a) if queue else enc_arc_py(part, a)) + inp.enc() + outp.enc()
    return out


def lit_nb(s):
    if s["kind"] == "tank":
        return f"(NT (t_init {C.qlit(s['cap'])} {C.vlit(s['init'])} [] (2#1)))"
    return f"(NS (mkS {C.veclit(s['lim'])} {C.veclit(s['acc'])} 0 {C.vlit(s['comp'])}))"


def arc_expr(c):
    ops = []
    for op in c["ops"]:
        k = op[0]
        if k == "push":
            ops.append(f"APush {C.vlit(op[1])} {lit_bool(op[2])} {op[3]}")
        elif k == "pull":
            ops.append(f"APull {C.qlit(op[1])} {op[2]}")
        elif k == "pushcheck":
            ops.append(f"APushCheck {lit_opt_v(op[1])}")
        elif k == "pullcheck":
            ops.append(f"APullCheck {lit_opt_q(op[1])}")
        elif k == "end":
            ops.append("AEnd")
        elif k == "ds":
            ops.append("ADs")
        elif k == "setT":
            ops.append(f"ASetT {C.qlit(op[1])}")
    na, nn = len(c["adds"]), len(c["nons"])
    st = f"({lit_nb(c['inp'])}, {lit_nb(c['outp'])})"
    if c["kind"] == "arc":
        k = {"Arc": "KArc", "PullArc": "KPullArc", "PushArc": "KPushArc"}[c["cls"]]
        return f"run_arc {na} {nn} {k} (a_init {C.qlit(c['cap'])}) {st} [{'; '.join(ops)}]"
    if c["kind"] == "altarc":
        return (f"run_altarc {na} {nn} {BUCKETS} (l_set_T (l_init {C.qlit(c['cap'])} {c['n']} {lit_dec(c['dec'])}) (20#1)) {st} "
                f"[{'; '.join(ops)}]")
    return (f"run_qarc {na} {nn} (q_set_T (q_init {C.qlit(c['cap'])} {c['n']} {lit_dec(c['dec'])}) (20#1)) {st} "
            f"[{'; '.join(ops)}]")


# ---------------------------------------------------------------------------
HEADER = ("From Coq Require Import QArith List ZArith.\nFrom WSI Require Import Vqip Enc Pow Tank Arc QTank Run.\n"
          "Import ListNotations.\nOpen Scope Q_scope.\n")

def add_imports(*names):
    """make the case files import these model modules too (inserted before Run, once, whatever the order in which the
    family modules are loaded)"""
    global HEADER
    lines = HEADER.split("\n")
    mods = lines[1][len("From WSI Require Import "):-1].split()
    for n in names:
        if n not in mods:
            mods.insert(len(mods) - 1, n)
    lines[1] = "From WSI Require Import " + " ".join(mods) + "."
    HEADER = "\n".join(lines)


FAMILIES = {
    "tank": (gen_tank_case, run_tank_impl, tank_expr),
    "qtank": (gen_qtank_case, run_qtank_impl, qtank_expr),
    "arc": (lambda r, m: gen_arc_case(r, m, False), run_arc_impl, arc_expr),
    "qarc": (lambda r, m: gen_arc_case(r, m, True), run_arc_impl, arc_expr),
    "altarc": (gen_altarc_case, run_arc_impl, arc_expr),
}


# decaying classes only (C11): the same generators, runners and model expressions, cases of other classes rejected
DECAYING = ("DecayTank", "DecayQueueTank", "DecayArc", "DecayArcAlt")


def _decaying(gen):
    def g(r, maxops):
        for _ in range(200):
            c = gen(r, maxops)
            if c["cls"] in DECAYING and any(op[0] == "end" for op in c["ops"]):
                return c
        return c
    return g


for _d, _b in (("dtank", "tank"), ("dqtank", "qtank"), ("dqarc", "qarc"), ("daltarc", "altarc")):
    FAMILIES[_d] = (_decaying(FAMILIES[_b][0]), FAMILIES[_b][1], FAMILIES[_b][2])


def case_json(c):
    def js(x):
        if isinstance(x, F):
            return str(x)
        if isinstance(x, (list, tuple)):
            return [js(y) for y in x]
        if isinstance(x, dict):
            return {k: js(v) for k, v in x.items()}
        return x
    return js(c)


def run_impl_guarded(runner, c):
    install_exact()
    G.set_partition(c["adds"], c["nons"])
    try:
        return runner(c), None
    except Exception as ex:          # the implementation raised: recorded, compared as a disagreement
        return None, repr(ex)
    finally:
        G.reset_partition()


_TooSlow = C.TooSlow
_time_limit = C.time_limit


def correspondence(rep, family, n, maxops, tag="", maxdigits=None):
    """returns (cases, impl_outputs) so that monitors can reuse the implementation runs.
    maxdigits: cases whose exact results contain integers longer than this are not sent to Coq
    (evaluating Qred on hundreds of digits with Coq's binary integers takes seconds per case)."""
    gen, runner, expr = FAMILIES[family]
    r = C.rng(f"corr_{family}_{tag}")
    cases, impl, skipped_big = [], [], 0
    tries = 0
    while len(cases) < n and tries < 4 * n:
        tries += 1
        c = gen(r, maxops)
        try:
            with _time_limit(20):
                o = run_impl_guarded(runner, c)
        except _TooSlow:
            # exact rationals whose size explodes (hundreds of digits after a few redistribution rounds) make a single
            # implementation run take minutes: such a case is of no use to the comparison either (see maxdigits)
            skipped_big += 1
            continue
        if maxdigits and o[0] is not None and any(abs(x) >= 10 ** maxdigits for x in o[0]):
            skipped_big += 1
            continue
        cases.append(c)
        impl.append(o)
    n = len(cases)
    exprs = [expr(c) for c in cases]
    res, log = C.eval_cases(f"{family}{tag}", HEADER, exprs, shard=150)
    mism, evald, raised = [], 0, 0
    opdist, clsdist = {}, {}
    for c, (out, err), got in zip(cases, impl, res):
        clsdist[c["cls"]] = clsdist.get(c["cls"], 0) + 1
        for op in c["ops"]:
            opdist[op[0]] = opdist.get(op[0], 0) + 1
        if err is not None:
            raised += 1
            mism.append((c, "implementation raised " + err, None, None))
            continue
        if got is None:
            continue
        evald += 1
        rep.add_eval((family, str(c)), nontrivial=len(c["ops"]) >= 3)
        if got != out:
            # first differing position
            pos = next((i for i, (x, y) in enumerate(zip(got, out)) if x != y), min(len(got), len(out)))
            mism.append((c, f"state differs at encoded position {pos} (model {len(got)} ints, impl {len(out)} ints)", got, out))
    rep.corr[f"{family}{tag}"] = {"cases": n, "skipped_results_too_long_for_coq": skipped_big, "evaluated_in_coq": evald, "mismatches": len(mism),
                                  "impl_raised": raised, "classes": clsdist, "ops": opdist, "coq_log": log[-400:]}
    if evald < n - raised:
        rep.violation("broken-correspondence", f"model evaluation failed for {family}: {log[-300:]}", {"log": log[-2000:]}, False)
    # the search for a failing input starts from the cases on which model and implementation part: the monitors of the
    # property are run on them first (mon_comp.monitor, cases_extra)
    MISMATCHED.setdefault(family, []).extend(c for c, why, got, out in mism[:25])
    for c, why, got, out in mism[:3]:
        c2 = shrink(family, c) if got is not None else c
        rep.violation("broken-correspondence", f"{c['cls']}: implementation and model disagree: {why}",
                      {"family": family, "case": case_json(c2), "original_ops": len(c["ops"])}, False)
    if cases:
        rep.samples.append({"family": family, "case": case_json(cases[0])})
    return cases, impl


MISMATCHED = {}


def disagree(family, c):
    gen, runner, expr = FAMILIES[family]
    out, err = run_impl_guarded(runner, c)
    if err is not None:
        return True
    res, _ = C.eval_cases(f"shrink_{family}", HEADER, [expr(c)])
    return res[0] is not None and res[0] != out


def shrink(family, c, budget=12):
    """greedy removal of operations while the disagreement persists"""
    cur = dict(c)
    ops = list(c["ops"])
    i = len(ops) - 1
    while i >= 0 and budget > 0:
        trial = dict(cur)
        trial["ops"] = ops[:i] + ops[i + 1:]
        budget -= 1
        if trial["ops"] and disagree(family, trial):
            ops = trial["ops"]
            cur = trial
        i -= 1
    cur["ops"] = ops
    return cur
