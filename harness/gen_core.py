#!/usr/bin/env python3
"""T1: translate the flux methods of wsimod/core/core.py (WSIObj, DecayObj) into
Gallina, from the *current* source, fail-closed.

For every supported method f it emits
    gen_f        : the value the method returns,
    gen_f_after  : the final contents of the VQIP *arguments* (alias tracking:
                   copy_vqip makes a new cell, `x = y` aliases, subscript
                   assignment updates the cell) -- purity is then a theorem,
    gen_f_divok  : bool, false iff some executed division has a zero denominator.

A `for p in constants.<LIST> (+ ["volume"])` loop becomes a point-wise vector
operation; this is sound because the translator checks that the body touches
other vectors only at the loop index and reads no volume that the loop writes.
Anything outside the supported statement forms raises Unsupported and the
method is reported as untranslated (the obligations about it then fail).

usage: gen_core.py <repo> <out.v> <status.json>
"""
import ast
import json
import sys
from fractions import Fraction

WANT = [
    "blend_vqip", "sum_vqip", "concentration_to_total", "total_to_concentration",
    "extract_vqip", "extract_vqip_c", "v_distill_vqip", "v_distill_vqip_c",
    "v_change_vqip", "v_change_vqip_c", "ds_vqip", "ds_vqip_c",
    "generic_temperature_decay", "generic_temperature_decay_c",
]


class Unsupported(Exception):
    pass


def qlit(x):
    if isinstance(x, bool):
        raise Unsupported("bool literal")
    fr = Fraction(x)
    if fr.denominator == 1 and fr.numerator >= 0:
        return f"({fr.numerator}#1)"
    return f"(({fr.numerator})#{fr.denominator})"


class Cell:
    def __init__(self, vol, adds, nons):
        self.vol, self.adds, self.nons = vol, adds, nons

    def copy(self):
        return Cell(self.vol, self.adds, self.nons)

    def rec(self):
        return f"(mkV {self.vol} {self.adds} {self.nons})"


def ite(c, a, b):
    return a if a == b else f"(if {c} then {a} else {b})"


def comps_of(node):
    """constants.ADDITIVE_POLLUTANTS (+ ["volume"]) etc. -> ordered component classes"""
    out = []

    def go(n):
        if isinstance(n, ast.BinOp) and isinstance(n.op, ast.Add):
            go(n.left)
            go(n.right)
        elif (isinstance(n, ast.Attribute) and isinstance(n.value, ast.Name)
              and n.value.id == "constants"):
            m = {"ADDITIVE_POLLUTANTS": "A", "NON_ADDITIVE_POLLUTANTS": "N", "POLLUTANTS": "AN"}
            if n.attr not in m:
                raise Unsupported("loop over constants." + n.attr)
            out.extend(m[n.attr])
        elif (isinstance(n, ast.List) and len(n.elts) == 1
              and isinstance(n.elts[0], ast.Constant) and n.elts[0].value == "volume"):
            out.append("V")
        else:
            raise Unsupported("loop iterable " + ast.dump(n)[:60])

    go(node)
    if len(set(out)) != len(out):
        raise Unsupported("component visited twice in a loop")
    return out


class Fn:
    def __init__(self, fdef, consts, known):
        self.f = fdef
        self.consts = consts
        self.known = known          # names of methods translated so far
        self.env = {}               # python name -> cell id
        self.cells = {}
        self.scal = {}              # python name -> scalar Gallina expr
        self.decs = set()           # names of decay-dict parameters
        self.params = []
        self.path = []              # path condition (list of bool exprs)
        self.divs = []              # (path, denominator)
        self.ret = None
        self.uses_pow = False

    # ---- expressions -------------------------------------------------------
    # value kinds: ('s', e) scalar, ('v', e) vector, ('p', e) expression over the
    # decay-parameter pair `p`
    def lift(self, kv, dname):
        k, e = kv
        if k == "p":
            return ("v", f"(map (fun p : Q * Q => {e}) {dname})")
        return kv

    def binop(self, op, a, b, dname):
        ka, ea = a
        kb, eb = b
        if op == "**":
            self.uses_pow = True
            fmt = "(pow {0} {1})"
        elif op in "+-*/":
            fmt = "({0} " + op + " {1})"
        elif op in ("Qmin", "Qmax"):
            fmt = "(" + op + " {0} {1})"
        else:
            raise Unsupported("operator " + op)
        if op == "/":
            if kb != "s":
                raise Unsupported("division by a per-pollutant value")
            self.divs.append((list(self.path), eb))
        if ka in "sp" and kb in "sp":
            return ("p" if "p" in (ka, kb) else "s", fmt.format(ea, eb))
        a = self.lift(a, dname)
        b = self.lift(b, dname)
        ka, ea = a
        kb, eb = b
        if ka == "v" and kb == "v":
            if op not in "+-*":
                raise Unsupported("vector op " + op)
            return ("v", f"(vmap2 (fun x y => {fmt.format('x', 'y')}) {ea} {eb})")
        if ka == "v" and kb == "s":
            if op not in "*/":
                raise Unsupported("vector-scalar op " + op + " does not preserve 0")
            return ("v", f"(map (fun x => {fmt.format('x', eb)}) {ea})")
        if ka == "s" and kb == "v":
            if op != "*":
                raise Unsupported("scalar-vector op " + op)
            return ("v", f"(map (fun x => {fmt.format(ea, 'x')}) {eb})")
        raise Unsupported("binop kinds")

    def expr(self, n, idx=None):
        """idx = (loopvar, comp, parsvar, dname) inside a pollutant loop"""
        dname = idx[3] if idx else None
        if isinstance(n, ast.Constant) and isinstance(n.value, (int, float)):
            return ("s", qlit(n.value))
        if isinstance(n, ast.Name):
            if n.id in self.scal:
                return ("s", self.scal[n.id])
            raise Unsupported("name " + n.id)
        if (isinstance(n, ast.Attribute) and isinstance(n.value, ast.Name)
                and n.value.id == "constants"):
            if n.attr not in self.consts or not isinstance(self.consts[n.attr], (int, float)):
                raise Unsupported("constants." + n.attr)
            return ("s", qlit(self.consts[n.attr]))
        if isinstance(n, ast.BinOp):
            op = {ast.Add: "+", ast.Sub: "-", ast.Mult: "*", ast.Div: "/", ast.Pow: "**"}.get(type(n.op))
            if not op:
                raise Unsupported("op")
            return self.binop(op, self.expr(n.left, idx), self.expr(n.right, idx), dname)
        if isinstance(n, ast.UnaryOp) and isinstance(n.op, ast.USub):
            k, e = self.expr(n.operand, idx)
            if k == "v":
                return ("v", f"(map (fun x => (- x)) {e})")
            return (k, f"(- {e})")
        if (isinstance(n, ast.Call) and isinstance(n.func, ast.Name)
                and n.func.id in ("min", "max") and len(n.args) == 2 and not n.keywords):
            a = self.expr(n.args[0], idx)
            b = self.expr(n.args[1], idx)
            if "v" in (a[0], b[0]):
                raise Unsupported("min/max over vectors")
            return self.binop("Qmin" if n.func.id == "min" else "Qmax", a, b, dname)
        if isinstance(n, ast.Subscript) and isinstance(n.value, ast.Name):
            k = n.slice
            nm = n.value.id
            if idx and nm == idx[2]:       # pars["constant"] / pars["exponent"]
                if isinstance(k, ast.Constant) and k.value == "constant":
                    return ("p", "(fst p)")
                if isinstance(k, ast.Constant) and k.value == "exponent":
                    return ("p", "(snd p)")
                raise Unsupported("decay parameter key")
            if nm not in self.env:
                raise Unsupported("subscript of non-vqip " + nm)
            cell = self.cells[self.env[nm]]
            if isinstance(k, ast.Constant) and k.value == "volume":
                if idx and idx[1] == "V!":
                    raise Unsupported("volume read in a loop that writes volume")
                return ("s", cell.vol)
            if isinstance(k, ast.Name) and idx and k.id == idx[0]:
                c = idx[1].rstrip("!")
                return {"A": ("v", cell.adds), "N": ("v", cell.nons), "V": ("s", cell.vol)}[c]
            raise Unsupported("subscript key")
        raise Unsupported(ast.dump(n)[:80])

    def cond(self, n):
        if isinstance(n, ast.Compare) and len(n.ops) == 1:
            l = self.expr(n.left)
            r = self.expr(n.comparators[0])
            if l[0] != "s" or r[0] != "s":
                raise Unsupported("non-scalar condition")
            if isinstance(n.ops[0], ast.Gt):
                return f"Qlt_le_dec {r[1]} {l[1]}"
            if isinstance(n.ops[0], ast.Lt):
                return f"Qlt_le_dec {l[1]} {r[1]}"
        raise Unsupported("condition " + ast.dump(n)[:60])

    # ---- cells -------------------------------------------------------------
    def new_cell(self, c):
        i = len(self.cells)
        self.cells[i] = c
        return i

    def cell_of_arg(self, a):
        if isinstance(a, ast.Name) and a.id in self.env:
            return self.cells[self.env[a.id]]
        raise Unsupported("vqip argument expression")

    def call_value(self, v):
        """self.m(args...) with m already translated -> Gallina application"""
        if not (isinstance(v, ast.Call) and isinstance(v.func, ast.Attribute)
                and isinstance(v.func.value, ast.Name) and v.func.value.id == "self"):
            return None
        m = v.func.attr
        if v.keywords:
            raise Unsupported("keyword call")
        if m == "copy_vqip":
            return self.cell_of_arg(v.args[0]).copy()
        if m == "empty_vqip":
            return Cell("0", "[]", "[]")
        if m not in self.known:
            raise Unsupported("call to untranslated method " + m)
        if self.known[m]["ret"] != "vqip":
            raise Unsupported("call of tuple-returning method")
        if self.known[m].get("pow"):
            self.uses_pow = True
        args = []
        for a, (pn, pt) in zip(v.args, self.known[m]["params"]):
            if pt == "vqip":
                args.append(self.cell_of_arg(a).rec())
            elif pt == "Q":
                k, e = self.expr(a)
                if k != "s":
                    raise Unsupported("non-scalar argument")
                args.append(e)
            else:
                raise Unsupported("argument type")
        app = f"(gen_{m} {' '.join(args)})"
        # the callee's own divisions are executed too
        self.divs.append((list(self.path), "CALL:" + f"gen_{m}_divok {' '.join(args)}"))
        return Cell(f"(vol {app})", f"(adds {app})", f"(nons {app})")

    def assign(self, tgt, key_kind, value):
        """tgt cell field := value (already the right kind)"""
        cell = self.cells[self.env[tgt]]
        k, e = value
        if key_kind == "V":
            if k != "s":
                raise Unsupported("volume := non-scalar")
            cell.vol = e
        else:
            if k == "s":
                raise Unsupported("per-pollutant := scalar constant")
            if key_kind == "A":
                cell.adds = e
            else:
                cell.nons = e

    @staticmethod
    def desugar_aug(st):
        load = ast.Subscript(value=st.target.value, slice=st.target.slice, ctx=ast.Load())
        new = ast.Assign(targets=[st.target], value=ast.BinOp(left=load, op=st.op, right=st.value))
        return ast.fix_missing_locations(new)

    # ---- statements --------------------------------------------------------
    def stmt(self, st):
        if isinstance(st, ast.Expr) and isinstance(st.value, ast.Constant):
            return
        if isinstance(st, ast.AugAssign) and isinstance(st.target, ast.Subscript):
            return self.stmt(self.desugar_aug(st))
        if isinstance(st, ast.Assign) and len(st.targets) == 1:
            t, v = st.targets[0], st.value
            if isinstance(t, ast.Name):
                c = self.call_value(v)
                if c is not None:
                    self.env[t.id] = self.new_cell(c)
                    self.scal.pop(t.id, None)
                    return
                if isinstance(v, ast.Name) and v.id in self.env:   # alias
                    self.env[t.id] = self.env[v.id]
                    return
                k, e = self.expr(v)
                if k != "s":
                    raise Unsupported("scalar assignment of non-scalar")
                self.scal[t.id] = e
                self.env.pop(t.id, None)
                return
            if (isinstance(t, ast.Subscript) and isinstance(t.value, ast.Name)
                    and isinstance(t.slice, ast.Constant) and t.slice.value == "volume"
                    and t.value.id in self.env):
                self.assign(t.value.id, "V", self.expr(v))
                return
            raise Unsupported("assignment target")
        if isinstance(st, ast.For) and not st.orelse:
            return self.loop(st)
        if isinstance(st, ast.If):
            return self.branch(st)
        if isinstance(st, ast.Return):
            v = st.value
            if isinstance(v, ast.Name) and v.id in self.env:
                self.ret = ("vqip", self.cells[self.env[v.id]].copy())
            elif isinstance(v, ast.Tuple) and all(isinstance(e, ast.Name) and e.id in self.env for e in v.elts):
                self.ret = ("tuple", [self.cells[self.env[e.id]].copy() for e in v.elts])
            else:
                raise Unsupported("return value")
            return
        raise Unsupported("statement " + ast.dump(st)[:80])

    def loop(self, st):
        parsvar = dname = None
        if isinstance(st.target, ast.Name):
            lv = st.target.id
            comps = comps_of(st.iter)
        elif (isinstance(st.target, ast.Tuple) and len(st.target.elts) == 2
              and isinstance(st.iter, ast.Call) and isinstance(st.iter.func, ast.Attribute)
              and st.iter.func.attr == "items" and isinstance(st.iter.func.value, ast.Name)
              and st.iter.func.value.id in self.decs):
            lv, parsvar = st.target.elts[0].id, st.target.elts[1].id
            dname = st.iter.func.value.id
            comps = ["A"]          # well-formedness: decay keys are additive pollutants
        else:
            raise Unsupported("loop form")
        writes_vol = "V" in comps
        body = []
        for b in st.body:
            if isinstance(b, ast.Expr) and isinstance(b.value, ast.Constant):
                continue
            if isinstance(b, ast.AugAssign) and isinstance(b.target, ast.Subscript):
                b = self.desugar_aug(b)
            if not (isinstance(b, ast.Assign) and len(b.targets) == 1):
                raise Unsupported("loop body statement")
            t = b.targets[0]
            if not (isinstance(t, ast.Subscript) and isinstance(t.value, ast.Name)
                    and isinstance(t.slice, ast.Name) and t.slice.id == lv
                    and t.value.id in self.env):
                raise Unsupported("loop body target")
            body.append((t.value.id, b.value))
        # each component class is an independent point-wise instantiation
        for comp in comps:
            for tgt, val in body:
                tag = comp + ("!" if writes_vol else "")
                self.assign(tgt, comp, self.lift(self.expr(val, (lv, tag, parsvar, dname)), dname))

    def branch(self, st):
        c = self.cond(st.test)
        snap = {i: cl.copy() for i, cl in self.cells.items()}
        senv, sscal, spath = dict(self.env), dict(self.scal), list(self.path)
        self.path = spath + [f"(if {c} then true else false)"]
        for b in st.body:
            self.stmt(b)
        tcells, tenv, tscal = self.cells, self.env, self.scal
        self.cells = {i: cl.copy() for i, cl in snap.items()}
        self.env, self.scal = dict(senv), dict(sscal)
        self.path = spath + [f"(if {c} then false else true)"]
        for b in st.orelse:
            self.stmt(b)
        self.path = spath
        if tenv != self.env or set(tcells) != set(self.cells):
            raise Unsupported("branches bind different objects")
        for i in self.cells:
            a, b_ = tcells[i], self.cells[i]
            self.cells[i] = Cell(ite(c, a.vol, b_.vol), ite(c, a.adds, b_.adds), ite(c, a.nons, b_.nons))
        self.scal = {k: ite(c, tscal[k], self.scal[k]) for k in self.scal if k in tscal}
        if self.ret is not None:
            raise Unsupported("return inside a branch")

    # ---- driver ------------------------------------------------------------
    def run(self):
        args = [a.arg for a in self.f.args.args][1:]
        subs = {n.value.id for n in ast.walk(self.f) if isinstance(n, ast.Subscript) and isinstance(n.value, ast.Name)}
        items = {n.func.value.id for n in ast.walk(self.f)
                 if isinstance(n, ast.Call) and isinstance(n.func, ast.Attribute)
                 and n.func.attr == "items" and isinstance(n.func.value, ast.Name)}
        vq_args = {a.id for n in ast.walk(self.f) if isinstance(n, ast.Call)
                   and isinstance(n.func, ast.Attribute) and n.func.attr in ("copy_vqip",)
                   for a in n.args if isinstance(a, ast.Name)}
        pcell = {}
        for a in args:
            if a in items:
                self.decs.add(a)
                self.params.append((a, "list (Q * Q)"))
            elif a in subs or a in vq_args:
                pcell[a] = self.new_cell(Cell(f"(vol {a})", f"(adds {a})", f"(nons {a})"))
                self.env[a] = pcell[a]
                self.params.append((a, "vqip"))
            else:
                self.scal[a] = a
                self.params.append((a, "Q"))
        for st in self.f.body:
            if self.ret is not None:
                raise Unsupported("statement after return")
            self.stmt(st)
        if self.ret is None:
            raise Unsupported("no return")
        ps = " ".join(f"({a} : {t})" for a, t in self.params)
        name = self.f.name
        if self.ret[0] == "vqip":
            body, rty = self.ret[1].rec(), "vqip"
        else:
            body, rty = "(" + ", ".join(c.rec() for c in self.ret[1]) + ")", " * ".join(["vqip"] * len(self.ret[1]))
        after = [self.cells[pcell[a]].rec() for a, t in self.params if t == "vqip"]
        aty = " * ".join(["vqip"] * len(after))
        after_e = after[0] if len(after) == 1 else "(" + ", ".join(after) + ")"
        dv = []
        for path, den in self.divs:
            g = " && ".join(path) if path else "true"
            ok = den[5:] if den.startswith("CALL:") else f"negb (Qeq_bool {den} 0)"
            dv.append(f"implb ({g}) ({ok})")
        divok = " && ".join(f"({d})" for d in dv) if dv else "true"
        out = (f"Definition gen_{name} {ps} : {rty} :=\n  {body}.\n"
               f"Definition gen_{name}_after {ps} : {aty} :=\n  {after_e}.\n"
               f"Definition gen_{name}_divok {ps} : bool :=\n  {divok}.\n")
        info = {"params": self.params, "ret": "vqip" if self.ret[0] == "vqip" else "tuple",
                "pow": self.uses_pow, "nvq": len(after)}
        return out, info


def main(repo, outv, outj):
    src = open(f"{repo}/wsimod/core/core.py").read()
    tree = ast.parse(src)
    # numeric module-level constants of constants.py, read syntactically
    consts = {}
    ctree = ast.parse(open(f"{repo}/wsimod/core/constants.py").read())
    for st in ctree.body:
        if isinstance(st, ast.Assign) and len(st.targets) == 1 and isinstance(st.targets[0], ast.Name):
            try:
                consts[st.targets[0].id] = eval(compile(ast.Expression(st.value), "c", "eval"), {}, dict(consts))
            except Exception:
                pass
    known, chunks, status = {}, [], {}
    fdefs = {}
    for cls in tree.body:
        if isinstance(cls, ast.ClassDef) and cls.name in ("WSIObj", "DecayObj"):
            for f in cls.body:
                if isinstance(f, ast.FunctionDef):
                    fdefs[f.name] = f
    # translate in dependency order: repeat until no progress
    todo = [n for n in WANT]
    progress = True
    errors = {}
    while todo and progress:
        progress = False
        for n in list(todo):
            if n not in fdefs:
                errors[n] = "method not found in core.py"
                todo.remove(n)
                continue
            try:
                text, info = Fn(fdefs[n], consts, known).run()
            except Unsupported as e:
                errors[n] = str(e)
                continue
            known[n] = info
            chunks.append((n, text, info))
            todo.remove(n)
            errors.pop(n, None)
            progress = True
    for n in WANT:
        status[n] = {"translated": n in known, "error": errors.get(n)}
    hdr = ("(* GENERATED by harness/gen_core.py from wsimod/core/core.py -- do not edit *)\n"
           "From Coq Require Import QArith Qminmax List Bool.\nFrom WSI Require Import Vqip.\n"
           "Import ListNotations.\nOpen Scope Q_scope.\n\nSection Gen.\nVariable pow : Q -> Q -> Q.\n\n")
    body = "\n".join(t for _, t, _ in chunks)
    missing = "".join(f"(* UNSUPPORTED {n}: {errors[n]} *)\n" for n in WANT if n not in known)
    text = hdr + body + "\n" + missing + "End Gen.\n"
    try:
        old = open(outv).read()
    except OSError:
        old = None
    if old != text:
        open(outv, "w").write(text)
    json.dump(status, open(outj, "w"), indent=1)
    return 0


if __name__ == "__main__":
    sys.exit(main(*sys.argv[1:4]))
