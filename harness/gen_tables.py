#!/usr/bin/env python3
"""T2: regenerate coq/gen/GenHandlers.v from the tree under test.

 * handler tables: every registered node class is instantiated and the keys of its four
   handler dictionaries are dumped under the class name its NEIGHBOURS see
   (`obj.__class__.__name__` after construction - several classes relabel themselves);
 * emissions: an `ast` scan of wsimod/nodes/*.py for literal `tag=` / `of_type=` arguments at
   push_distributed / pull_distributed / get_connected call sites, with the enclosing class.

usage: gen_tables.py <repo> <coq/gen dir> <work dir>"""
import ast
import contextlib
import io
import json
import os
import sys

repo, gendir, work = sys.argv[1], sys.argv[2], sys.argv[3]
sys.path.insert(0, repo)


def tagstr(t):
    return "/".join(t) if isinstance(t, tuple) else str(t)


def instantiate():
    from wsimod.core import constants
    constants.set_default_pollutants()
    import wsimod.nodes.catchment
    import wsimod.nodes.demand
    import wsimod.nodes.distribution
    import wsimod.nodes.land
    import wsimod.nodes.sewer
    import wsimod.nodes.storage
    import wsimod.nodes.waste
    import wsimod.nodes.wtw
    from wsimod.nodes.nodes import NODES_REGISTRY
    tables = {}
    failed = {}
    for name, cls in sorted(NODES_REGISTRY.items()):
        if not cls.__module__.startswith("wsimod."):
            continue
        try:
            with contextlib.redirect_stdout(io.StringIO()), contextlib.redirect_stderr(io.StringIO()):
                obj = cls(name="x")
        except Exception as ex:
            failed[name] = repr(ex)
            continue
        seen_as = obj.__class__.__name__
        tables[name] = {
            "seen_as": seen_as,
            "push_set": sorted(tagstr(k) for k in obj.push_set_handler),
            "push_check": sorted(tagstr(k) for k in obj.push_check_handler),
            "pull_set": sorted(tagstr(k) for k in obj.pull_set_handler),
            "pull_check": sorted(tagstr(k) for k in obj.pull_check_handler),
        }
        # relabelling mutates the class object itself: restore, so that later classes are not affected
        cls.__name__ = name
    return tables, failed


def lit(node):
    try:
        return ast.literal_eval(node)
    except Exception:
        return "<dynamic>"


def scan_emissions():
    out = []
    ndir = os.path.join(repo, "wsimod", "nodes")
    for fn in sorted(os.listdir(ndir)):
        if not fn.endswith(".py"):
            continue
        tree = ast.parse(open(os.path.join(ndir, fn)).read())
        for cls in [n for n in ast.walk(tree) if isinstance(n, ast.ClassDef)]:
            # module-level decorator functions (distribution.py) are handled below
            for call in [n for n in ast.walk(cls) if isinstance(n, ast.Call)]:
                add_call(out, call, cls.name, fn)
        for fdef in [n for n in tree.body if isinstance(n, ast.FunctionDef)]:
            for call in [n for n in ast.walk(fdef) if isinstance(n, ast.Call)]:
                add_call(out, call, f"<function {fdef.name}>", fn)
    return out


def add_call(out, call, owner, fn):
    f = call.func
    name = f.attr if isinstance(f, ast.Attribute) else (f.id if isinstance(f, ast.Name) else None)
    if name not in ("push_distributed", "pull_distributed", "get_connected", "push_check_basic", "pull_check_basic"):
        return
    kw = {k.arg: lit(k.value) for k in call.keywords if k.arg}
    direction = "push" if "push" in name else "pull"
    if name == "get_connected":
        direction = kw.get("direction", "pull")
    tag = kw.get("tag", "default")
    of_type = kw.get("of_type", None)
    if isinstance(of_type, str):
        of_type = [of_type]
    out.append({"owner": owner, "file": fn, "line": call.lineno, "call": name, "direction": direction,
                "of_type": of_type, "tag": tagstr(tag) if tag != "<dynamic>" else tag})


def cstr(s):
    return '"' + s.replace('"', "'") + '"'


def clist(xs):
    return "[" + "; ".join(cstr(x) for x in xs) + "]"


def main():
    tables, failed = instantiate()
    emissions = scan_emissions()
    # Demand.create_demand emits through a table of directions (tag/of_type pairs held in a dict literal)
    for fn in ("demand.py",):
        tree = ast.parse(open(os.path.join(repo, "wsimod", "nodes", fn)).read())
        for d in [n for n in ast.walk(tree) if isinstance(n, ast.Dict)]:
            try:
                v = ast.literal_eval(d)
            except Exception:
                continue
            if isinstance(v, dict) and v and all(isinstance(x, dict) and set(x) == {"tag", "of_type"} for x in v.values()):
                for key, x in v.items():
                    ot = x["of_type"]
                    emissions.append({"owner": "Demand", "file": fn, "line": d.lineno, "call": "push_distributed(directions)",
                                      "direction": "push", "of_type": [ot] if isinstance(ot, str) else ot, "tag": tagstr(x["tag"])})
    emissions = [e for e in emissions if not (e["tag"] == "<dynamic>" or e["of_type"] == "<dynamic>")]
    emissions.sort(key=lambda e: (e["file"], e["line"], e["tag"]))
    lines = ["(* GENERATED by harness/gen_tables.py from the tree under test - do not edit. *)",
             "From Coq Require Import String List.", "Import ListNotations.", "Open Scope string_scope.", "",
             "(* (class, name neighbours see, push set tags, push check tags, pull set tags, pull check tags) *)",
             "Definition handlers : list (string * string * list string * list string * list string * list string) := ["]
    rows = []
    for name, t in sorted(tables.items()):
        rows.append(f"  ({cstr(name)}, {cstr(t['seen_as'])}, {clist(t['push_set'])}, {clist(t['push_check'])}, "
                    f"{clist(t['pull_set'])}, {clist(t['pull_check'])})")
    lines.append(";\n".join(rows))
    lines += ["].", "", "(* (emitting class, push?, neighbour types named (empty = unfiltered), tag) *)",
              "Definition emissions : list (string * bool * list string * string) := ["]
    rows = []
    for e in emissions:
        rows.append(f"  ({cstr(e['owner'])}, {'true' if e['direction'] == 'push' else 'false'}, "
                    f"{clist(e['of_type'] or [])}, {cstr(e['tag'])})")
    lines.append(";\n".join(rows))
    lines += ["].", ""]
    text = "\n".join(lines) + "\n"
    path = os.path.join(gendir, "GenHandlers.v")
    old = open(path).read() if os.path.exists(path) else None
    if old != text:
        open(path, "w").write(text)
    json.dump({"tables": tables, "failed": failed, "emissions": emissions}, open(os.path.join(work, "gen_tables.json"), "w"), indent=1)
    print(f"classes {len(tables)} (not instantiable: {sorted(failed)}), emissions {len(emissions)}")


if __name__ == "__main__":
    main()
