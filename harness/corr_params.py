"""Exact correspondence for coq/Params.v (C14, C15): the real Tank, Arc, Surface, ImperviousSurface,
PerviousSurface, Storage, River and WTW are constructed from random arguments, taken through random
sequences of apply_overrides calls (any subset of keys, including the ignored / deprecated ones) and
of Model.save + Model.load round trips (the component is put into a Model, written to a temporary
directory, read back into a fresh Model, and the reloaded component takes its place); after every
step all parameters and derived quantities are compared exactly with the model's, and for a
save/load also the constructor arguments found in the written config.yml.  Values are dyadic
rationals with few bits, so that the float() conversion of Model.save is exact.
Family 'world' drives the ownership model: instances of Demand / Surface / NutrientPool are
constructed (default or given dictionaries) and overridden; the dictionary of every instance and the
default argument object of the constructor are compared after every step."""
import contextlib
import inspect
import io
import os
import shutil
import tempfile
from fractions import Fraction as F

import common as C
import corr_comp as K
from exnum import UNBOUNDED, Ex, frac

KEYS = ["phosphate", "ammonia", "solids"]
KINDS = ["ptank", "parc", "psurf", "pimp", "pperv", "pstore", "priver", "pwtw", "world"]
WORLD_CLASSES = ["Demand", "Surface", "NutrientPool"]
SCRATCH = os.environ.get("VERIF_SCRATCH", "/var/tmp")


def dy(r, top=40):
    return F(r.randint(0, top), r.choice([1, 2, 4, 8]))


def pos(r, top=40):
    return F(r.randint(1, top), r.choice([1, 2, 4, 8]))


def rdict(r, n, p=0.5):
    return [dy(r, 20) if r.random() < p else None for _ in range(n)]


def opt(r, f, p=0.5):
    return f(r) if r.random() < p else None


TP = [F(1, 4), F(3, 8), F(1, 2), F(3, 4), F(1)]

# (args generator, override generator) per kind; overrides are dicts key -> value / None (absent)
ARGS = {
    "ptank": lambda r, n: {"capacity": dy(r), "area": dy(r), "datum": dy(r, 8)},
    "parc": lambda r, n: {"capacity": dy(r), "preference": pos(r, 8)},
    "psurf": lambda r, n: {"area": dy(r), "depth": dy(r, 8), "pollutant_load": rdict(r, n)},
    "pimp": lambda r, n: {"area": dy(r), "pore_depth": dy(r, 8), "et0_to_e": dy(r, 8), "pollutant_load": rdict(r, n)},
    "pperv": lambda r, n: {"area": dy(r), "depth": dy(r, 8), "total_porosity": r.choice(TP), "field_capacity": F(r.randint(2, 7), 8),
                           "wilting_point": F(r.randint(0, 2), 8), "percolation_coefficient": F(r.randint(0, 8), 8),
                           "infiltration_capacity": dy(r, 8), "pollutant_load": rdict(r, n)},
    "pstore": lambda r, n: {"capacity": dy(r), "area": dy(r), "datum": dy(r, 8)},
    "priver": lambda r, n: {"length": pos(r, 400), "width": pos(r, 20), "velocity": pos(r, 40), "damp": dy(r, 4), "mrf": dy(r, 8),
                            "datum": dy(r, 8)},
    "pwtw": lambda r, n: {"percent_solids": F(r.randint(0, 3), 8), "liquor": F(r.randint(0, 3), 16), "throughput": dy(r, 80)},
}
OVER = {
    "ptank": lambda r, n: {"capacity": opt(r, dy), "area": opt(r, dy), "datum": opt(r, dy, 0.3)},
    "parc": lambda r, n: {"capacity": opt(r, dy), "preference": opt(r, pos)},
    "psurf": lambda r, n: {"area": opt(r, dy), "depth": opt(r, dy), "capacity": opt(r, dy, 0.2), "pollutant_load": rdict(r, n, 0.3)},
    "pimp": lambda r, n: {"area": opt(r, dy), "pore_depth": opt(r, dy), "et0_to_e": opt(r, dy), "depth": opt(r, dy, 0.2),
                          "capacity": opt(r, dy, 0.2), "pollutant_load": rdict(r, n, 0.3)},
    "pperv": lambda r, n: {"area": opt(r, dy), "depth": opt(r, dy, 0.4), "total_porosity": opt(r, lambda q: q.choice(TP + ([F(0)] if q.random() < 0.08 else []))),
                           "field_capacity": opt(r, lambda q: F(q.randint(2, 7), 8), 0.3), "wilting_point": opt(r, lambda q: F(q.randint(0, 2), 8), 0.3),
                           "percolation_coefficient": opt(r, lambda q: F(q.randint(0, 8), 8), 0.3), "infiltration_capacity": opt(r, dy, 0.3),
                           "capacity": opt(r, dy, 0.2), "pollutant_load": rdict(r, n, 0.3)},
    "pstore": lambda r, n: {"capacity": opt(r, dy), "area": opt(r, dy), "datum": opt(r, dy, 0.3)},
    "priver": lambda r, n: {"length": opt(r, pos, 0.4), "width": opt(r, pos, 0.4), "velocity": opt(r, pos, 0.3), "damp": opt(r, dy, 0.3),
                            "mrf": opt(r, dy, 0.3), "datum": opt(r, dy, 0.3), "area": opt(r, dy, 0.25), "capacity": opt(r, dy, 0.25)},
    "pwtw": lambda r, n: {"percent_solids": opt(r, lambda q: F(q.randint(0, 3), 8)), "liquor": opt(r, lambda q: F(q.randint(0, 3), 16)),
                          "throughput": opt(r, dy)},
}


def gen_params_case(r, maxops):
    kind = r.choice(KINDS)
    n = r.randint(0, 3)
    c = {"kind": "params", "cls": kind, "adds": KEYS[:max(n, 1)], "nons": [], "n": n}
    if kind == "world":
        c["wcls"] = r.choice(WORLD_CLASSES)
        c["n"] = n = 2 if c["wcls"] == "NutrientPool" else max(n, 1)
        ops, live = [], 0
        for _ in range(r.randint(2, maxops + 2)):
            if live == 0 or r.random() < 0.45:
                ops.append(("new", None if r.random() < 0.6 else rdict(r, n)))
                live += 1
            else:
                ops.append(("override", r.randrange(live) if r.random() < 0.95 else live + 1, rdict(r, n)))
        c["ops"] = ops
        return c
    c["args"] = ARGS[kind](r, n)
    ops = []
    for _ in range(r.randint(1, maxops)):
        if kind != "ptank" and r.random() < 0.3:
            ops.append(("saveload",))
        else:
            ops.append(("override", OVER[kind](r, n)))
            if r.random() < 0.25:       # the same override once more
                ops.append(("override", dict(ops[-1][1])))
    c["ops"] = ops
    return c


# ----------------------------------------------------------------------------- implementation side
def pydict(d, n):
    return {KEYS[k]: Ex(v) for k, v in enumerate(d[:n]) if v is not None}


def encq_py(x):
    fr = frac(x)
    return [fr.numerator, fr.denominator]


def encd(d, n):
    out = []
    for k in range(n):
        if KEYS[k] in d:
            out += [1] + encq_py(d[KEYS[k]])
        else:
            out.append(0)
    return out


def q(x):
    return encq_py(x)


class Holder:
    """the component under test inside whatever it needs around it to be saved by Model.save"""

    def __init__(self, c):
        from wsimod.arcs.arcs import Arc
        from wsimod.nodes.land import Land
        from wsimod.nodes.nodes import Node
        from wsimod.nodes.storage import River, Storage
        from wsimod.nodes.tanks import Tank
        from wsimod.nodes.wtw import WTW
        self.kind, self.n = c["cls"], c["n"]
        a, n = c["args"], c["n"]
        self.model = None
        k = self.kind
        E = lambda key: Ex(a[key])
        if k == "ptank":
            self.obj = Tank(capacity=E("capacity"), area=E("area"), datum=E("datum"))
        elif k == "parc":
            from wsimod.nodes.waste import Waste
            # (an outlet: Model.add_instantiated_arcs raises KeyError('Waste') on a river-type arc in a model without one)
            self.ends = [Node(name="u"), Waste(name="v")]
            self.obj = Arc(name="a", in_port=self.ends[0], out_port=self.ends[1], capacity=E("capacity"), preference=E("preference"))
        elif k in ("psurf", "pimp", "pperv"):
            sd = {"type_": {"psurf": "Surface", "pimp": "ImperviousSurface", "pperv": "PerviousSurface"}[k], "surface": "s",
                  "pollutant_load": pydict(a["pollutant_load"], n)}
            for key, v in a.items():
                if key != "pollutant_load":
                    sd[key] = Ex(v)
            self.land = Land(name="land", surfaces=[sd])
            self.obj = self.land.surfaces[0]
        elif k == "pstore":
            self.obj = Storage(name="st", capacity=E("capacity"), area=E("area"), datum=E("datum"))
        elif k == "priver":
            self.obj = River(name="rv", length=E("length"), width=E("width"), velocity=E("velocity"), damp=E("damp"), mrf=E("mrf"),
                             datum=E("datum"))
        elif k == "pwtw":
            lm = {x: Ex(F(1, 2)) for x in KEYS[:max(n, 1)]}
            lm["volume"] = E("liquor")
            self.obj = WTW(name="w", percent_solids=E("percent_solids"), liquor_multiplier=lm, treatment_throughput_capacity=E("throughput"))

    def override(self, o):
        d = {}
        for key, v in o.items():
            if v is None:
                continue
            if key == "pollutant_load":
                if any(x is not None for x in v):
                    d[key] = pydict(v, self.n)
            elif key == "liquor":
                d["liquor_multiplier"] = {"volume": Ex(v)}
            elif key == "throughput":
                d["treatment_throughput_capacity"] = Ex(v)
            else:
                d[key] = Ex(v)
        self.obj.apply_overrides(d)

    def state(self):
        o, n, k = self.obj, self.n, self.kind
        if k == "ptank":
            return q(o.capacity) + q(o.area) + q(o.datum)
        if k == "parc":
            return q(o.capacity) + q(o.preference)
        if k == "psurf":
            return q(o.area) + q(o.depth) + q(o.capacity) + encd(o.pollutant_load, n)
        if k == "pimp":
            return q(o.area) + q(o.pore_depth) + q(o.depth) + q(o.capacity) + q(o.et0_to_e) + encd(o.pollutant_load, n)
        if k == "pperv":
            return (q(o.area) + q(o.depth) + q(o.capacity) + q(o.total_porosity) + q(o.field_capacity) + q(o.field_capacity_m)
                    + q(o.wilting_point) + q(o.wilting_point_m) + q(o.percolation_coefficient) + q(o.subsurface_coefficient)
                    + q(o.infiltration_capacity) + encd(o.pollutant_load, n))
        if k == "pstore":
            return q(o.capacity) + q(o.area) + q(o.datum) + q(o.tank.capacity) + q(o.tank.area) + q(o.tank.datum)
        if k == "priver":
            return (q(o.length) + q(o.width) + q(o.velocity) + q(o.damp) + q(o.mrf)
                    + q(o.capacity) + q(o.area) + q(o.datum) + q(o.tank.capacity) + q(o.tank.area) + q(o.tank.datum))
        if k == "pwtw":
            return (q(o.percent_solids) + q(o.liquor_multiplier["volume"]) + q(o.treatment_throughput_capacity)
                    + q(o.process_parameters["volume"]["constant"]))
        raise KeyError(k)

    def saveload(self):
        """Model.save + Model.load; returns the encoded constructor arguments found in config.yml"""
        import yaml
        from wsimod.orchestration.model import Model
        k, n = self.kind, self.n
        m = Model()
        if k == "parc":
            m.add_instantiated_nodes(self.ends)
            m.add_instantiated_arcs([self.obj])
        elif k in ("psurf", "pimp", "pperv"):
            m.add_instantiated_nodes([self.land])
        else:
            m.add_instantiated_nodes([self.obj])
        d = tempfile.mkdtemp(prefix="wsi_params_", dir=SCRATCH)
        try:
            m.save(d)
            y = yaml.safe_load(open(os.path.join(d, "config.yml")))
            m2 = Model()
            m2.load(d)
        finally:
            shutil.rmtree(d, ignore_errors=True)
        if k == "parc":
            a = y["arcs"]["a"]
            enc = q(a["capacity"]) + q(a["preference"])
            self.obj = m2.arcs["a"]
            self.ends = [m2.nodes["u"], m2.nodes["v"]]
        elif k in ("psurf", "pimp", "pperv"):
            a = y["nodes"]["land"]["surfaces"]["s"]
            if k == "psurf":
                enc = q(a["area"]) + q(a["depth"])
            elif k == "pimp":
                enc = q(a["area"]) + q(a["pore_depth"]) + q(a["et0_to_e"])
            else:
                enc = (q(a["area"]) + q(a["depth"]) + q(a["total_porosity"]) + q(a["field_capacity"]) + q(a["wilting_point"])
                       + q(a["percolation_coefficient"]) + q(a["infiltration_capacity"]))
            enc += encd(a["pollutant_load"], n)
            self.land = m2.nodes["land"]
            self.obj = self.land.surfaces[0]
        elif k == "pstore":
            a = y["nodes"]["st"]
            enc = q(a["capacity"]) + q(a["area"]) + q(a["datum"])
            self.obj = m2.nodes["st"]
        elif k == "priver":
            a = y["nodes"]["rv"]
            enc = q(a["length"]) + q(a["width"]) + q(a["velocity"]) + q(a["damp"]) + q(a["mrf"]) + q(a["datum"])
            self.obj = m2.nodes["rv"]
        else:
            a = y["nodes"]["w"]
            enc = q(a["percent_solids"]) + q(a["liquor_multiplier"]["volume"]) + q(a["treatment_throughput_capacity"])
            self.obj = m2.nodes["w"]
        return enc


WKEYS = {"Demand": ("pollutant_load", KEYS), "Surface": ("pollutant_load", KEYS), "NutrientPool": ("degrhpar", ["N", "P"])}


def world_default(wcls):
    import wsimod.nodes.demand as dm
    import wsimod.nodes.land as ld
    import wsimod.nodes.nutrient_pool as npm
    cls = {"Demand": dm.Demand, "Surface": ld.Surface, "NutrientPool": npm.NutrientPool}[wcls]
    attr, keys = WKEYS[wcls]
    return cls, attr, keys, inspect.signature(cls.__init__).parameters[attr].default


def encw(d, keys, n):
    out = []
    for k in keys[:n]:
        if k in d:
            out += [1] + encq_py(d[k])
        else:
            out.append(0)
    return out


def run_world_impl(c):
    cls, attr, keys, default = world_default(c["wcls"])
    n = c["n"]
    insts, out = [], []
    for op in c["ops"]:
        if op[0] == "new":
            kw = {} if op[1] is None else {attr: {keys[k]: Ex(v) for k, v in enumerate(op[1][:n]) if v is not None}}
            if c["wcls"] == "Demand":
                kw["name"] = f"d{len(insts)}"
            insts.append(cls(**kw))
        elif op[1] < len(insts):
            upd = {keys[k]: Ex(v) for k, v in enumerate(op[2][:n]) if v is not None}
            insts[op[1]].apply_overrides({attr: upd})
        out += encw(default, keys, n)
        for i in insts:
            out += encw(getattr(i, attr), keys, n)
    return out


def run_params_impl(c):
    with contextlib.redirect_stdout(io.StringIO()):
        if c["cls"] == "world":
            return run_world_impl(c)
        import warnings
        with warnings.catch_warnings():
            warnings.simplefilter("ignore")
            h = Holder(c)
            out = h.state()
            for op in c["ops"]:
                try:
                    if op[0] == "override":
                        h.override(op[1])
                        out += h.state()
                    else:
                        out += h.saveload()
                        out += h.state()
                except ZeroDivisionError:
                    return out + [-999]
            return out


# ------------------------------------------------------------------------------------ model side
def oq(x):
    return C.optlit(x, C.qlit)


def dlit(d):
    return "[" + "; ".join(oq(x) for x in d) + "]"


def params_expr(c):
    k, n = c["cls"], c["n"]
    if k == "world":
        _, attr, keys, default = world_default(c["wcls"])
        d0 = [frac(default[x]) if x in default else None for x in keys[:n]]
        ops = []
        for op in c["ops"]:
            if op[0] == "new":
                ops.append(f"WNew {C.optlit(op[1], dlit)}")
            else:
                ops.append(f"WOverride {op[1]}%nat {dlit(op[2])}")
        return f"run_world {n} {dlit(d0)} [{'; '.join(ops)}]"
    a = c["args"]
    A = lambda key: C.qlit(a[key])

    def O(o, key):
        return oq(o.get(key))
    if k == "ptank":
        args, mk = f"(mkPT {A('capacity')} {A('area')} {A('datum')})", lambda o: f"(mkOT {O(o, 'capacity')} {O(o, 'area')} {O(o, 'datum')})"
        fn = "run_ptank"
    elif k == "parc":
        args, mk = f"(mkPA {A('capacity')} {A('preference')})", lambda o: f"(mkOA {O(o, 'capacity')} {O(o, 'preference')})"
        fn = "run_parc"
    elif k == "psurf":
        args = f"(mkAS {A('area')} {A('depth')} {dlit(a['pollutant_load'][:n])})"
        mk = lambda o: f"(mkOS {O(o, 'area')} {O(o, 'depth')} {O(o, 'capacity')} {dlit(o['pollutant_load'][:n])})"
        fn = f"run_psurf {n}"
    elif k == "pimp":
        args = f"(mkAI {A('area')} {A('pore_depth')} {A('et0_to_e')} {dlit(a['pollutant_load'][:n])})"
        mk = lambda o: (f"(mkOI {O(o, 'area')} {O(o, 'pore_depth')} {O(o, 'et0_to_e')} {O(o, 'depth')} {O(o, 'capacity')} "
                        f"{dlit(o['pollutant_load'][:n])})")
        fn = f"run_pimp {n}"
    elif k == "pperv":
        args = (f"(mkAP {A('area')} {A('depth')} {A('total_porosity')} {A('field_capacity')} {A('wilting_point')} "
                f"{A('percolation_coefficient')} {A('infiltration_capacity')} {dlit(a['pollutant_load'][:n])})")
        mk = lambda o: (f"(mkOP {O(o, 'area')} {O(o, 'depth')} {O(o, 'total_porosity')} {O(o, 'field_capacity')} {O(o, 'wilting_point')} "
                        f"{O(o, 'percolation_coefficient')} {O(o, 'infiltration_capacity')} {O(o, 'capacity')} {dlit(o['pollutant_load'][:n])})")
        fn = f"run_pperv {n}"
    elif k == "pstore":
        args, mk = f"(mkPT {A('capacity')} {A('area')} {A('datum')})", lambda o: f"(mkOT {O(o, 'capacity')} {O(o, 'area')} {O(o, 'datum')})"
        fn = "run_pstore"
    elif k == "priver":
        args = f"(mkAR {A('length')} {A('width')} {A('velocity')} {A('damp')} {A('mrf')} {A('datum')})"
        mk = lambda o: (f"(mkOR {O(o, 'length')} {O(o, 'width')} {O(o, 'velocity')} {O(o, 'damp')} {O(o, 'mrf')} {O(o, 'datum')} "
                        f"{O(o, 'area')} {O(o, 'capacity')})")
        fn = f"run_priver {C.qlit(UNBOUNDED)}"
    else:
        args = f"(mkAW {A('percent_solids')} {A('liquor')} {A('throughput')})"
        mk = lambda o: f"(mkOW {O(o, 'percent_solids')} {O(o, 'liquor')} {O(o, 'throughput')})"
        fn = "run_pwtw"
    ops = [f"POv {mk(op[1])}" if op[0] == "override" else "PSaveLoad" for op in c["ops"]]
    return f"{fn} {args} [{'; '.join(ops)}]"


K.FAMILIES["params"] = (gen_params_case, run_params_impl, params_expr)
K.add_imports("Params", "RunParams")
