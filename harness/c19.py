"""C19 — environmental safeguards: theorems (coq/props/C19.v), exact correspondence of the River / RiverReservoir
models, implementation monitor."""
import json
import os
import sys

import common as C
import comp_check
import corr_comp as K
import corr_star
import corr_kinds as KD

PID = "C19"
RULE = ("correspondence: the real Storage / Groundwater / River / Reservoir / RiverReservoir classes as hub of a star of "
        "typed neighbours (tank-backed or scripted) under random sequences of pushes, pulls, checks, distribute, infiltrate, "
        "make_abstractions, satisfy_environmental and timestep ends, compared exactly with coq/Kinds.v. monitor: rivers with "
        "tank-backed upstream neighbours under sequences of abstractions (W = own store + upstream availability; nothing taken "
        "at or below mrf/riverrc, never drawn below it from above), river reservoirs under spill / release / abstraction / end "
        "sequences (delivered <= outstanding, delivered = counted = lost, shortfall only when downstream refuses). "
        "non-trivial = distinct case with >= 2 operations")


def main():
    rep = C.Report(PID)
    rep.trusted = list(C.BASE_TRUST) + comp_check.TRUST_COMP + [
        "riverrc = 1 - kt + kt*exp(-1/kt) is evaluated with the rational surrogate exp_s on both sides; the theorems hold for any value of it"]
    thorough = C.tier() == "thorough"
    replay = os.environ.get("VERIF_REPLAY")
    if replay:
        body = json.load(open(replay))
        if "case" in body:
            import mon_comp as M
            c = M.case_from_json(body["case"])
            if K.disagree(body.get("family", "kind"), c):
                rep.violation("broken-correspondence", "recorded case still disagrees with the model", {"family": "kind", "case": body["case"]}, False)
            rep.add_eval(("replay", str(body["case"])), True)
            return rep.finish("replay of one recorded case", [])
    C.proof_stage(rep, "props/C19.v")
    K.correspondence(rep, "kind", 1500 if thorough else 250, 8, tag="c19", maxdigits=30)
    KD.monitor_c19(rep, 2000 if thorough else 300)
    C.apply_known(rep, PID, {})
    return rep.finish(RULE, ["upstream neighbours are honest and their availability shrinks by what is taken (tank-backed in the monitor)",
                             "mrf >= 0, riverrc in (0, 1]"])


if __name__ == "__main__":
    sys.exit(main())
