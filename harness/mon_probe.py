"""C07 monitor: check -> request probes on whole models.  A random model is run for a few timesteps (so that
stores, queues and arc records are in states reached by real requests); then, for every arc of the model, a
check is followed immediately by a request and the two are compared: a pull of y after a pull check of X must
return min(y, X); a push of volume y after a push check of X must leave max(y - X, 0) unplaced."""
import contextlib
import io
import random
from fractions import Fraction as F

import common as C
import mon_net as MN
import net_check
import netgen as NG
from exnum import EPS, Ex, frac

DUST = F(1, 10 ** 9)


def probes_on(model, r, names, stats, report):
    from wsimod.arcs import arcs as A
    arcs = list(model.arcs.values())
    if r.random() < 0.5:
        # in creation order the probes over upstream arcs drain what the later ones ask for; in random order other states
        # are met: half of the models each way
        r.shuffle(arcs)
    for arc in arcs:
        kind = type(arc).__name__
        src, dst = type(arc.in_port).__name__, type(arc.out_port).__name__
        for direction in ("pull", "push"):
            for _ in range(2):
                buf = io.StringIO()
                with contextlib.redirect_stdout(buf):
                    try:
                        store_end = arc.in_port if direction == "pull" else arc.out_port
                        plain = kind in ("Arc", "PullArc", "PushArc", "SewerArc", "WeirArc")
                        watch = plain and type(store_end).__qualname__ in STORE_CLASSES
                        s0 = declared_stock(store_end, names) if watch else None
                        rec0 = MN.cvec(arc.vqip_in, names) if watch else None
                        if direction == "pull":
                            lk0 = leak_books(arc.in_port)
                            X = frac(arc.send_pull_check()["volume"])
                            y = r.choice([X / 2, X, X * 2 + 1, F(1, 3)])
                            if kind in ("QueueArc", "DecayArc", "AltQueueArc", "DecayArcAlt") and arc.queue:
                                continue        # travel-time arcs are in the quantifier only when nothing is due
                            rep_v = arc.send_pull_request({"volume": Ex(y)})
                            got = frac(rep_v["volume"])
                            want = min(y, X)
                            if watch:
                                lost = MN.vsub(s0, declared_stock(store_end, names))
                                recd = MN.vsub(MN.cvec(arc.vqip_in, names), rec0)
                                handed = MN.cvec(rep_v, names)
                                if not (close_v(lost, recd) and close_v(recd, handed)):
                                    report(f"pull of {y} over {kind} {src}->{dst}: the supplier's stores lost {MN.fmt(lost)}, the arc recorded "
                                           f"{MN.fmt(recd)}, the requester was handed {MN.fmt(handed)}", (direction, kind, src, dst, "moved"), "C04")
                        else:
                            X = frac(arc.send_push_check()["volume"])
                            y = r.choice([X / 2, X, X * 2 + 1, F(1, 3)]) if X < 10 ** 12 else r.choice([F(1, 3), F(7), F(1000)])
                            offer = {"volume": Ex(y)}
                            for n in names[1:]:
                                offer[n] = Ex(y * F(1, 100))
                            from wsimod.core import constants
                            for n in constants.NON_ADDITIVE_POLLUTANTS:
                                offer[n] = Ex(11)
                            if kind in ("QueueArc", "DecayArc", "AltQueueArc", "DecayArcAlt"):
                                if arc.queue or y < EPS:
                                    continue
                            rep_v = arc.send_push_request(offer)
                            got = frac(rep_v["volume"])
                            want = max(y - X, 0)
                            if watch:
                                gained = MN.vsub(declared_stock(store_end, names), s0)
                                recd = MN.vsub(MN.cvec(arc.vqip_in, names), rec0)
                                gave = MN.vsub(MN.cvec(offer, names), MN.cvec(rep_v, names))
                                if not (close_v(gained, recd) and close_v(recd, gave)):
                                    report(f"push of {y} over {kind} {src}->{dst}: the sender gave up {MN.fmt(gave)}, the arc recorded "
                                           f"{MN.fmt(recd)}, the receiver's stores gained {MN.fmt(gained)}", (direction, kind, src, dst, "moved"), "C04")
                        for gap in MN.queue_ledger_gaps(store_end, names, close_v):
                            for pid_ in ("C03", "C11"):
                                report(f"after a {direction} of {y} over {kind} {src}->{dst}: {gap}", (direction, kind, src, dst, "ledger"), pid_)
                    except Exception as ex:
                        report(f"{direction} probe over {kind} {src}->{dst} raised {type(ex).__name__}: {ex}", (direction, kind, src, dst, "raised"), "C07")
                        continue
                stats["probes"] += 1
                key = f"{direction}:{src if direction == 'pull' else dst}"
                stats["by_class"][key] = stats["by_class"].get(key, 0) + 1
                if abs(got - want) > DUST:
                    what = (f"pull check over {kind} {src}->{dst} offered {X}, a request for {y} returned {got} (expected {want})" if direction == "pull"
                            else f"push check over {kind} {src}->{dst} reported room for {X}, a push of {y} left {got} unplaced (expected {want})")
                    sig = (direction, kind, src, dst)
                    if direction == "pull" and leak_bounced(arc.in_port, lk0, y, got, want):
                        sig = sig + ("leak-bounced",)
                    report(what, sig, "C07")
                # C08: an arc that is a pull-only (push-only) arc never carries a push (pull): nothing admitted, offer handed
                # back whole - whatever else was done to the arc (overrides) after it was built
                one_way = (isinstance(arc, A.PullArc) and direction == "push") or (isinstance(arc, A.PushArc) and direction == "pull")
                if one_way and (X != 0 or (direction == "push" and abs(got - y) > DUST) or (direction == "pull" and got != 0)):
                    report(f"{kind} {src}->{dst} is a {'pull' if direction == 'push' else 'push'}-only arc but its {direction} check offers {X} "
                           f"and a {direction} of {y} {'left ' + str(got) + ' unplaced' if direction == 'push' else 'returned ' + str(got)}",
                           (direction, kind, src, dst, "one-way"), "C08")
                if direction == "pull" and got > y + DUST:
                    sig = (direction, kind, src, dst) + (("leak-bounced",) if leak_bounced(arc.in_port, lk0, y, got, min(y, X)) else ("over-asked",))
                    report(f"a pull of {y} over {kind} {src}->{dst} returned {got}: more than was asked", sig, "C18")
                    # ("a pull returns at most what was asked" is a clause of C04 as well)
                    report(f"a pull of {y} over {kind} {src}->{dst} returned {got}: more than was asked", sig, "C04")


def leak_books(node):
    """(drawn from upstream, sent on to groundwater) so far in this timestep, for a Distribution with leakage"""
    if not getattr(node, "leakage", 0):
        return None
    drawn = sum(frac(a.vqip_in["volume"]) for a in node.in_arcs.values())
    leaked = sum(frac(a.vqip_in["volume"]) for a in node.out_arcs.values() if type(a.out_port).__name__ == "Groundwater")
    return drawn, leaked


def leak_bounced(node, before, asked, got, want):
    """the recorded known finding, by mechanism: a Distribution with leakage drew no more than request / (1 - leakage) from
    upstream, groundwater did not take all of the leaked share of that, and the consumer was handed exactly the rest on top"""
    if before is None:
        return False
    now = leak_books(node)
    l = frac(node.leakage)
    drawn, leaked = now[0] - before[0], now[1] - before[1]
    refused = l * drawn - leaked
    return drawn <= asked / (1 - l) + DUST and refused > DUST and abs((got - want) - refused) <= DUST and got > want


STORE_CLASSES = ("Reservoir", "Storage", "Groundwater", "QueueGroundwater")   # (by __qualname__: a RiverReservoir, which passes spill on, calls itself "Reservoir")
# nodes whose answer comes out of / goes into their own stores


def declared_stock(node, names):
    """what the node's stores declare to hold (Tank.storage: for a queue tank this includes water in transit inside it
    and, until close-out, mass its internal arc has already decayed)"""
    s = MN.zeros(len(names))
    for k, t in MN.tanks_of(node):
        s = MN.vadd(s, MN.cvec(t.storage, names))
    return s


def close_v(a, b):
    return all(abs(x - y) <= DUST for x, y in zip(a, b))


def run(rep, thorough, pid="C07"):
    n = 400 if thorough else (150 if pid in ("C03", "C04", "C08", "C11", "C18") else 100)
    stats = {"models": 0, "probes": 0, "by_class": {}, "violations": 0}
    seen = {}
    stats["after_reinit"] = 0
    for idx, (seed, size) in enumerate(net_check.gen_cases(f"net_{pid}_probe", n, 3)):
        r = random.Random(seed)
        o = {}
        if idx % 4 == 2:
            o["overrides"] = True           # parameters changed through overrides between building and running
        if idx % 5 == 3 and pid == "C08":
            # travel-time, decaying and one-way arc classes - for the one-way clause only: a pull probed through a chain
            # with an AltQueueArc is outside what that class supports (it queues pulled water as if it had been pushed)
            o["arc_mix"] = 0.4
        cfg = NG.gen_model(random.Random(seed), ndates=3, size=size, opts=o)
        mon, model, err, out = MN.run_cfg(cfg, "exact", pids=())
        if err or model is None:
            continue
        if idx % 3 == 1:
            # the state a check must reflect is the current one also after Model.reinit() and another run
            try:
                with contextlib.redirect_stdout(io.StringIO()):
                    NG.set_pollutants(cfg["polset"])
                    model.reinit()
                    model.run(dates=model.dates, verbose=False)
                stats["after_reinit"] += 1
            except Exception as ex:
                rep.notes.append(f"{pid} probes: run after Model.reinit() raised {type(ex).__name__}: {ex} (totality is C12)")
                continue
            finally:
                NG.set_pollutants("default")
        NG.set_pollutants(cfg["polset"])
        names = MN._names()
        viols = []

        def report(msg, sig, clause="C07"):
            if clause == pid:
                viols.append((msg, sig))
        # give the nodes a date for handlers that read data
        try:
            probes_on(model, r, names, stats, report)
        finally:
            NG.set_pollutants("default")
        stats["models"] += 1
        rep.add_eval(("probe", seed), nontrivial=len(cfg["nodes"]) >= 4)
        for msg, sig in viols:
            k = known_signature(sig, msg)
            if k:
                seen.setdefault(k, msg)
                continue
            stats["violations"] += 1
            if stats["violations"] <= 3:
                rep.violation("counterexample", f"{pid} monitor: {msg}", {"seed": seed, "size": size, "config": NG.cfg_json(cfg), "probe": list(sig)}, True)
    rep.monitor[f"{pid}_probes"] = stats
    return seen


def known_signature(sig, msg):
    if len(sig) == 5 and sig[4] == "leak-bounced":
        return "distribution-leakage-bounced-to-consumer"
    return None
