"""C07 monitor: check -> request probes on whole models.  A random model is run for a few timesteps (so that
stores, queues and arc records are in states reached by real requests); then, for every arc of the model, a
check is followed immediately by a request and the two are compared: a pull of y after a pull check of X must
return min(y, X); a push of volume y after a push check of X must leave max(y - X, 0) unplaced."""
import contextlib
import io
import random
from fractions import Fraction as F

import common as C
import mon_net as MN
import net_check
import netgen as NG
from exnum import EPS, Ex, frac

DUST = F(1, 10 ** 9)


def probes_on(model, r, names, stats, report):
    from wsimod.arcs import arcs as A
    for arc in list(model.arcs.values()):
        kind = type(arc).__name__
        src, dst = type(arc.in_port).__name__, type(arc.out_port).__name__
        for direction in ("pull", "push"):
            for _ in range(2):
                buf = io.StringIO()
                with contextlib.redirect_stdout(buf):
                    try:
                        if direction == "pull":
                            X = frac(arc.send_pull_check()["volume"])
                            y = r.choice([X / 2, X, X * 2 + 1, F(1, 3)])
                            if kind in ("QueueArc", "DecayArc", "AltQueueArc", "DecayArcAlt") and arc.queue:
                                continue        # travel-time arcs are in the quantifier only when nothing is due
                            got = frac(arc.send_pull_request({"volume": Ex(y)})["volume"])
                            want = min(y, X)
                        else:
                            X = frac(arc.send_push_check()["volume"])
                            y = r.choice([X / 2, X, X * 2 + 1, F(1, 3)]) if X < 10 ** 12 else r.choice([F(1, 3), F(7), F(1000)])
                            offer = {"volume": Ex(y)}
                            for n in names[1:]:
                                offer[n] = Ex(y * F(1, 100))
                            from wsimod.core import constants
                            for n in constants.NON_ADDITIVE_POLLUTANTS:
                                offer[n] = Ex(11)
                            if kind in ("QueueArc", "DecayArc", "AltQueueArc", "DecayArcAlt"):
                                if arc.queue or y < EPS:
                                    continue
                            got = frac(arc.send_push_request(offer)["volume"])
                            want = max(y - X, 0)
                    except Exception as ex:
                        report(f"{direction} probe over {kind} {src}->{dst} raised {type(ex).__name__}: {ex}", (direction, kind, src, dst, "raised"))
                        continue
                stats["probes"] += 1
                key = f"{direction}:{src if direction == 'pull' else dst}"
                stats["by_class"][key] = stats["by_class"].get(key, 0) + 1
                if abs(got - want) > DUST:
                    what = (f"pull check over {kind} {src}->{dst} offered {X}, a request for {y} returned {got} (expected {want})" if direction == "pull"
                            else f"push check over {kind} {src}->{dst} reported room for {X}, a push of {y} left {got} unplaced (expected {want})")
                    sig = (direction, kind, src, dst)
                    leak = getattr(arc.in_port, "leakage", 0) if direction == "pull" else 0
                    if leak and frac(leak) > 0 and want < got <= want / (1 - frac(leak)) + DUST:
                        # recorded known finding, by mechanism: a Distribution with leakage pulled request / (1 - leakage)
                        # from upstream and the leaked part was not (fully) taken by groundwater: it is handed to the
                        # consumer on top of what was asked for
                        sig = sig + ("leak-bounced",)
                    report(what, sig)


def run(rep, thorough, pid="C07"):
    n = 400 if thorough else 60
    stats = {"models": 0, "probes": 0, "by_class": {}, "violations": 0}
    seen = {}
    for seed, size in net_check.gen_cases("net_C07_probe", n, 3):
        r = random.Random(seed)
        cfg = NG.gen_model(random.Random(seed), ndates=3, size=size)
        mon, model, err, out = MN.run_cfg(cfg, "exact", pids=())
        if err or model is None:
            continue
        NG.set_pollutants(cfg["polset"])
        names = MN._names()
        viols = []

        def report(msg, sig):
            viols.append((msg, sig))
        # give the nodes a date for handlers that read data
        try:
            probes_on(model, r, names, stats, report)
        finally:
            NG.set_pollutants("default")
        stats["models"] += 1
        rep.add_eval(("probe", seed), nontrivial=len(cfg["nodes"]) >= 4)
        for msg, sig in viols:
            k = known_signature(sig, msg)
            if k:
                seen.setdefault(k, msg)
                continue
            stats["violations"] += 1
            if stats["violations"] <= 3:
                rep.violation("counterexample", f"{pid} monitor: {msg}", {"seed": seed, "size": size, "config": NG.cfg_json(cfg), "probe": list(sig)}, True)
    rep.monitor[f"{pid}_probes"] = stats
    return seen


def known_signature(sig, msg):
    if len(sig) == 5 and sig[4] == "leak-bounced":
        return "distribution-leakage-bounced-to-consumer"
    return None
