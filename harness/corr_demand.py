"""Exact correspondence for coq/Demand.v: the real Demand and ResidentialDemand between suppliers (in-arcs) and
receivers (out-arcs to neighbours filed as Sewer, Land, Node, ...) that are tank-backed or scripted nodes.  Operations:
create_demand (with the parameters as they stand: constant demand and load / population, per-capita use, load,
gardening efficiency, temperature weighting - changed in between through apply_overrides), close-outs.  After every
operation the three accounts a demand node declares (total_demand, total_backup, total_received) and every arc record
and neighbour state are compared."""
import contextlib
import io
from fractions import Fraction as F

import common as C
import corr_comp as K
import corr_kinds as KD
import corr_tarea as KT
import gens as G
from exnum import Ex


def gen_case(r, maxops):
    adds = r.sample(["phosphate", "ammonia", "solids", "salt"], r.randint(0, 2))
    nons = ["temperature"] + r.sample(["ph", "do"], r.randint(0, 1))
    part = K.Part(adds, nons)
    res = r.random() < 0.6
    c = {"kind": "demand", "cls": "ResidentialDemand" if res else "Demand", "adds": adds, "nons": nons,
         "cd": r.choice([F(0), F(3), F(7, 2), F(12)]), "load": [r.choice([F(0), F(1, 100), F(1, 8)]) for _ in adds],
         "pop": r.choice([F(0), F(10), F(35), F(100)]), "pc": r.choice([F(0), F(1, 8), F(3, 20)]),
         "eff": r.choice([F(21, 50), F(1), F(1, 2)]), "ctemp": F(r.choice([15, 30])), "w": r.choice([F(1, 5), F(0), F(1, 2)]),
         "ins": KD.gen_star(r, part, r.choice([0, 1, 1, 2]), [0, 3, 3]),
         "outs": KD.gen_star(r, part, r.choice([0, 1, 2, 3]), [4, 4, 6, 6, 0] if res else [4, 0, 1, 2, 6])}
    ops = []
    for _ in range(r.randint(1, maxops)):
        x = r.random()
        if x < 0.6:
            ops.append(("create", F(r.randint(2, 25))))
        elif x < 0.8:
            ops.append(("end",))
        else:
            if res:
                ops.append(("override", r.choice([{"pop": F(25)}, {"pc": F(1, 5)}, {"eff": F(3, 4)}, {"pop": F(60), "pc": F(1, 10)}, {"w": F(1, 4), "ctemp": F(20)},
                                                  {"load": [F(1, 50) for _ in adds]}])))
            else:
                ops.append(("override", r.choice([{"cd": F(5)}, {"cd": F(0)}, {"load": [F(1, 50) for _ in adds]}, {"cd": F(9, 2), "load": [F(1, 4) for _ in adds]}])))
    c["ops"] = ops
    return c


class Run:
    def __init__(self, c):
        from wsimod.arcs import arcs
        from wsimod.nodes.demand import Demand, ResidentialDemand
        self.c = c
        self.part = part = K.Part(c["adds"], c["nons"])
        self.data = {}
        load = {n: Ex(v) for n, v in zip(c["adds"], c["load"])}
        with contextlib.redirect_stdout(io.StringIO()):
            if c["cls"] == "Demand":
                self.hub = Demand(name="hub", constant_demand=Ex(c["cd"]), pollutant_load=load, data_input_dict=self.data)
            else:
                load.update({n: Ex(7) for n in c["nons"]})
                self.hub = ResidentialDemand(name="hub", population=Ex(c["pop"]), per_capita=Ex(c["pc"]), pollutant_load=load,
                                             gardening_efficiency=Ex(c["eff"]), data_input_dict=self.data,
                                             constant_temp=Ex(c["ctemp"]), constant_weighting=Ex(c["w"]))
        self.hub.t = 0
        self.outs, self.ins = [], []
        for i, a in enumerate(c["ins"]):
            nb = KT.FAKE[a["ty"]](f"i{i}", part, a["nb"])
            self.ins.append((arcs.Arc(name=f"ai{i}", in_port=nb, out_port=self.hub, capacity=Ex(a["cap"]), preference=Ex(a["pref"])), nb))
        for i, a in enumerate(c["outs"]):
            nb = KT.FAKE[a["ty"]](f"o{i}", part, a["nb"])
            self.outs.append((arcs.Arc(name=f"ao{i}", in_port=self.hub, out_port=nb, capacity=Ex(a["cap"]), preference=Ex(a["pref"])), nb))
        for arc, nb in self.outs + self.ins:
            # the fake neighbours serve the tags a demand node sends as they serve the default one
            for tab in (nb.push_set_handler, nb.push_check_handler):
                tab["Demand"] = tab["default"]
                tab[("Demand", "Garden")] = tab["default"]

    def do(self, op):
        h, k = self.hub, op[0]
        with contextlib.redirect_stdout(io.StringIO()):
            if k == "create":
                self.data[("temperature", 0)] = Ex(op[1])
                h.create_demand()
            elif k == "end":
                h.end_timestep()
                for arc, nb in self.ins + self.outs:
                    arc.end_timestep()
            else:
                ov = {}
                names = {"cd": "constant_demand", "pop": "population", "pc": "per_capita", "eff": "gardening_efficiency",
                         "w": "constant_weighting", "ctemp": "constant_temp"}
                for key, v in op[1].items():
                    if key == "load":
                        ov["pollutant_load"] = {n: Ex(x) for n, x in zip(self.c["adds"], v)}
                    else:
                        ov[names[key]] = Ex(v)
                try:
                    h.apply_overrides(ov)
                except RuntimeError as ex:      # recorded known finding C15 node-data-input-dict-runtimeerror (raised after every value is set)
                    if "data_input_dict" not in str(ex):
                        raise

    def enc(self):
        p, h = self.part, self.hub
        out = []
        for arc, nb in self.ins:
            out += K.enc_arc_py(p, arc) + nb.fk.enc() + [0]
        for arc, nb in self.outs:
            out += K.enc_arc_py(p, arc) + [0] + nb.fk.enc()
        return out + p.ev(h.total_demand) + p.ev(h.total_backup) + p.ev(h.total_received)


def run_impl(c):
    R = Run(c)
    out = []
    for op in c["ops"]:
        try:
            R.do(op)
        except ZeroDivisionError:
            return out + [-999]
        if op[0] != "override":
            out += R.enc()
    return out


def expr(c):
    from wsimod.core import constants
    na, nn = len(c["adds"]), len(c["nons"])
    cur = {k: c[k] for k in ("cd", "load", "pop", "pc", "eff", "ctemp", "w")}
    others = "[" + "; ".join(["(7#1)"] * (nn - 1)) + "]"
    ops = []
    for op in c["ops"]:
        if op[0] == "create":
            if c["cls"] == "Demand":
                ops.append(f"MCreatePlain {C.qlit(cur['cd'])} {C.veclit(cur['load'])}")
            else:
                ops.append(f"MCreateRes {C.qlit(cur['eff'])} {C.qlit(cur['pop'])} {C.qlit(cur['pc'])} {C.veclit(cur['load'])} "
                           f"{C.qlit(op[1])} {C.qlit(cur['ctemp'])} {C.qlit(cur['w'])} {others}")
        elif op[0] == "end":
            ops.append("MEnd")
        else:
            cur.update(op[1])
    zero = "(mkV 0 [] [])"
    node = f"(mkDM _ {KD.star_lit(c['ins'], False)} {KD.star_lit(c['outs'], True)} {zero} {zero} {zero})"
    return f"run_mnode {na} {nn} {int(constants.MAXITER)} {node} [{'; '.join(ops)}]"


K.FAMILIES["demand"] = (gen_case, run_impl, expr)
K.add_imports("Distrib", "Kinds", "TimeArea", "Boundary", "Demand")
