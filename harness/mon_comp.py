"""Component-level property monitors: direct statements of C02, C04, C05, C06, C09
evaluated on the IMPLEMENTATION (exact arithmetic) after every operation of random
operation sequences on tanks, queue tanks and arcs.  They are written from the
property text, not from the Coq model, and serve as the search for a concrete
failing input when a proof obligation or the correspondence breaks (and as a
safety net on their own)."""
from fractions import Fraction as F

import common as C
import corr_comp as K
import gens as G
from exnum import EPS, UNBOUNDED, Ex, frac, install_exact

ZERO = F(0)


# ---------------------------------------------------------------------------
# snapshots (conserved components only: volume + additive pollutants)
# ---------------------------------------------------------------------------
def cv(part, d):
    """conserved components of a vqip dict as a tuple of Fractions (volume first)"""
    return (frac(d["volume"]),) + tuple(frac(d[n]) for n in part.adds)


def vadd(a, b):
    return tuple(x + y for x, y in zip(a, b))


def vsubt(a, b):
    return tuple(x - y for x, y in zip(a, b))


def vle(a, b):
    return all(x <= y for x, y in zip(a, b))


def vnonneg(a):
    return all(x >= 0 for x in a)


def vzero(part):
    return (ZERO,) * (1 + part.na)


def is_wet(v):
    return v[0] >= 0 and all(x >= 0 for x in v[1]) and (v[0] > 0 or all(x == 0 for x in v[1]))


def coarse(x):
    """values for monitor cases: no sub-eps non-zero quantities"""
    return x == 0 or x >= F(1, 1024)


class TankRun:
    family = "tank"

    def __init__(self, c):
        from wsimod.nodes import tanks
        self.c = c
        self.part = K.Part(c["adds"], c["nons"])
        self.parent = K.FakeParent()
        kw = dict(capacity=Ex(c["cap"]), initial_storage=self.part.d(c["init"]))
        if c["cls"] == "Tank":
            self.t = tanks.Tank(**kw)
        elif c["cls"] == "ResidenceTank":
            self.t = tanks.ResidenceTank(residence_time=Ex(c["res"]), **kw)
        else:
            decs = {c["adds"][k]: {"constant": Ex(p[0]), "exponent": Ex(p[1])} for k, p in enumerate(c["dec"])}
            self.t = tanks.DecayTank(decays=decs, parent=self.parent, **kw)

    def snap(self):
        p, t = self.part, self.t
        return {"sto": cv(p, t.storage), "sto_": cv(p, t.storage_), "cap": frac(t.capacity),
                "decayed": cv(p, t.total_decayed) if hasattr(t, "total_decayed") else vzero(p)}

    def do(self, op):
        p, t, k = self.part, self.t, op[0]
        if k == "push":
            return cv(p, t.push_storage(p.d(op[1]), force=op[2]))
        if k == "pull":
            return cv(p, t.pull_storage({"volume": Ex(op[1])}))
        if k == "pullpol":
            return cv(p, t.pull_pollutants(p.d(op[1])))
        if k == "evap":
            return (frac(t.evaporate(Ex(op[1]))),)
        if k == "ponded":
            return cv(p, t.pull_ponded())
        if k == "avail":
            return own(p, t.get_avail(None if op[1] is None else {"volume": Ex(op[1])}))
        if k == "excess":
            return own(p, t.get_excess(None if op[1] is None else {"volume": Ex(op[1])}))
        if k == "end":
            self.parent.set_T(op[1])
            t.end_timestep()
            return None
        if k == "ds":
            return cv(p, t.ds())
        if k == "outflow":
            return cv(p, t.pull_outflow())


def own(p, d):
    """the answer to a query is the caller's to keep (River.pull_check_river, for one, adds to what get_avail returned):
    read it, then write on it - a store that handed out its own record shows up as 'query changed the state'"""
    out = cv(p, d)
    for key in list(d):
        d[key] = d[key] + Ex(1)
    return out


class QTankRun:
    family = "qtank"

    def __init__(self, c):
        from wsimod.nodes import tanks
        self.c = c
        self.part = K.Part(c["adds"], c["nons"])
        self.parent = K.FakeParent()
        kw = dict(capacity=Ex(c["cap"]), initial_storage=self.part.d(c["init"]), number_of_timesteps=c["n"])
        if c["cls"] == "QueueTank":
            self.t = tanks.QueueTank(**kw)
        else:
            decs = {c["adds"][k]: {"constant": Ex(p[0]), "exponent": Ex(p[1])} for k, p in enumerate(c["dec"])}
            self.t = tanks.DecayQueueTank(decays=decs, parent=self.parent, **kw)
        self.t.internal_arc.capacity = Ex(UNBOUNDED)

    def snap(self):
        p, t = self.part, self.t
        a = t.internal_arc
        return {"sto": cv(p, t.storage), "sto_": cv(p, t.storage_), "act": cv(p, t.active_storage),
                "cap": frac(t.capacity), "buckets": {int(k): cv(p, v) for k, v in a.queue.items()},
                "decayed": cv(p, a.total_decayed) if hasattr(a, "total_decayed") else vzero(p),
                "fin": frac(a.flow_in), "acap": frac(a.capacity)}

    def do(self, op):
        p, t, k = self.part, self.t, op[0]
        if k == "push":
            return cv(p, t.push_storage(p.d(op[1]), time=op[2], force=op[3]))
        if k == "pull":
            return cv(p, t.pull_storage({"volume": Ex(op[1])}))
        if k == "pullexact":
            return cv(p, t.pull_storage_exact(p.d(op[1])))
        if k == "check":
            return own(p, t.push_check(None if op[1] is None else p.d(op[1])))
        if k == "avail":
            return own(p, t.get_avail())
        if k == "end":
            self.parent.set_T(op[1])
            t.end_timestep()
            return None
        if k == "setT":
            self.parent.set_T(op[1])
            return None
        if k == "ds":
            return cv(p, t.ds())
        if k == "reinit":
            t.reinit()
            return None


class ArcRun:
    def __init__(self, c):
        from wsimod.arcs import arcs
        self.c = c
        self.family = c["kind"]
        self.queue = c["kind"] == "qarc"
        self.alt = c["kind"] == "altarc"
        self.part = part = K.Part(c["adds"], c["nons"])
        self.inp = K.FakeNode("in", part, c["inp"])
        self.outp = K.FakeNode("out", part, c["outp"])
        kw = dict(name="a", in_port=self.inp, out_port=self.outp, capacity=Ex(c["cap"]))
        cls = c["cls"]
        if cls in ("Arc", "PullArc", "PushArc"):
            self.a = getattr(arcs, cls)(**kw)
        elif cls == "QueueArc":
            self.a = arcs.QueueArc(number_of_timesteps=c["n"], **kw)
        elif cls == "AltQueueArc":
            self.a = arcs.AltQueueArc(number_of_timesteps=c["n"], **kw)
        elif cls == "DecayArcAlt":
            decs = {c["adds"][k]: {"constant": Ex(p[0]), "exponent": Ex(p[1])} for k, p in enumerate(c["dec"])}
            self.a = arcs.DecayArcAlt(decays=decs, parent=self.inp, number_of_timesteps=c["n"], **kw)
        else:
            decs = {c["adds"][k]: {"constant": Ex(p[0]), "exponent": Ex(p[1])} for k, p in enumerate(c["dec"])}
            self.a = arcs.DecayArc(decays=decs, number_of_timesteps=c["n"], **kw)

    def nbsnap(self, n):
        return cv(self.part, n.tank.storage) if n.kind == "tank" else None

    def snap(self):
        p, a = self.part, self.a
        s = {"fin": frac(a.flow_in), "fout": frac(a.flow_out), "vin": cv(p, a.vqip_in), "vout": cv(p, a.vqip_out),
             "cap": frac(a.capacity), "in": self.nbsnap(self.inp), "out": self.nbsnap(self.outp)}
        if self.queue:
            s["queue"] = [(int(r["time"]), cv(p, r["vqip"]), r["direction"]) for r in a.queue]
            s["decayed"] = cv(p, a.total_decayed) if hasattr(a, "total_decayed") else vzero(p)
        if self.alt:
            s["buckets"] = {int(k): cv(p, v) for k, v in a.queue.items()}
            s["decayed"] = cv(p, a.total_decayed) if hasattr(a, "total_decayed") else vzero(p)
        return s

    def do(self, op):
        p, a, k = self.part, self.a, op[0]
        if k == "push":
            if self.queue or self.alt:
                return cv(p, a.send_push_request(p.d(op[1]), force=op[2], time=op[3]))
            return cv(p, a.send_push_request(p.d(op[1]), force=op[2]))
        if k == "pull":
            if self.queue:
                return cv(p, a.send_pull_request({"volume": Ex(op[1])}, time=op[2]))
            return cv(p, a.send_pull_request({"volume": Ex(op[1])}))
        if k == "pushcheck":
            return cv(p, a.send_push_check(None if op[1] is None else p.d(op[1])))
        if k == "pullcheck":
            return cv(p, a.send_pull_check(None if op[1] is None else {"volume": Ex(op[1])}))
        if k == "end":
            a.end_timestep()
            return None
        if k == "ds":
            if self.queue or self.alt:
                return cv(p, a.queue_arc_ds())
            return cv(p, a.mass_balance_ds[0]())
        if k == "setT":
            self.inp.data_input_dict[("temperature", 0)] = Ex(op[1])
            return None


RUNNERS = {"tank": TankRun, "qtank": QTankRun, "arc": ArcRun, "qarc": ArcRun, "altarc": ArcRun}
FAMILY_OF = {"dtank": "tank", "dqtank": "qtank", "dqarc": "qarc", "daltarc": "altarc"}


def offer_cv(v):
    return (v[0],) + tuple(v[1])


# ---------------------------------------------------------------------------
# the property predicates: (family, cls, op, before, reply, after, hist) -> [(pid, message, known_tag)]
# ---------------------------------------------------------------------------
def predicates(fam, cls, op, b, r, a, hist):
    out = []
    k = op[0]

    def bad(pid, msg, known=None):
        out.append((pid, msg, known))

    # ---- C11: decay in stores and arcs (decaying classes only; `held` = what the component physically holds)
    if cls in ("DecayTank", "DecayQueueTank", "DecayArc", "DecayArcAlt") and not hist.get("tiny"):
        def held(s_):
            if fam == "tank":
                return s_["sto"]
            t = s_["act"] if fam == "qtank" else vzero_like(s_["decayed"])
            if fam == "qarc":
                for q in s_["queue"]:
                    t = vadd(t, q[1])
            else:
                for vv in s_["buckets"].values():
                    t = vadd(t, vv)
            return t
        hb, ha, db, da = held(b), held(a), b["decayed"], a["decayed"]
        dec = hist.get("dec") or []
        if da[0] != 0:
            bad("C11", f"{cls}: decay reports a removed VOLUME {da[0]} after {k}")
        if k == "end":
            if vadd(ha, da) != hb:
                bad("C11", f"{cls}: close-out: remaining {strs(ha)} + reported {strs(da)} != held before {strs(hb)}")
            if vnonneg(hb):
                if not vle(ha, hb):
                    bad("C11", f"{cls}: close-out increased a pollutant: {strs(hb)} -> {strs(ha)}")
                if not (vnonneg(da) and vle(da, hb)):
                    bad("C11", f"{cls}: close-out reports removing {strs(da)} of {strs(hb)} (negative or more than present)")
            for i_, pr in enumerate(dec):
                if pr[0] == 0 and ha[1 + i_] != hb[1 + i_]:
                    bad("C11", f"{cls}: pollutant {i_} has decay constant 0 but changed at close-out: {hb[1 + i_]} -> {ha[1 + i_]}")
        elif k == "push" and hist.get("wet_op") and not hist.get("tiny_op") and fam in ("qarc", "altarc", "qtank"):
            if fam == "qtank":
                entered = vsubt(offer_cv(op[1]), r)
                moved = vzero_like(hb)
            else:
                entered = vsubt(a["vin"], b["vin"])
                moved = vsubt(a["vout"], b["vout"])
            grown = vadd(vsubt(ha, hb), vsubt(da, db))
            if vadd(grown, moved) != entered and not hist.get("forced"):
                bad("C11", f"{cls}: push: entered {strs(entered)} != growth of what is held {strs(vsubt(ha, hb))} + delivered {strs(moved)} "
                           f"+ growth of reported decay {strs(vsubt(da, db))}")
            if not vle(db, da):
                bad("C11", f"{cls}: push lowered the reported decay {strs(db)} -> {strs(da)}")
        elif k not in ("push", "end", "pull", "pullexact", "reinit") and da != db:
            bad("C11", f"{cls}: {k} changed the reported decay {strs(db)} -> {strs(da)}")

    # ---- C06: nothing negative
    for name, val in a.items():
        vals = []
        if isinstance(val, tuple) and val and isinstance(val[0], F):
            vals = [(name, val)]
        elif name == "buckets":
            vals = [(f"bucket[{kk}]", vv) for kk, vv in val.items()]
        elif name == "queue":
            vals = [(f"queue[{i}]", q[1]) for i, q in enumerate(val)]
        elif isinstance(val, F) and name in ("fin", "fout"):
            vals = [(name, (val,))]
        for nm, vv in vals:
            if not vnonneg(vv):
                known = None
                if fam in ("qarc", "altarc") and nm == "vin" and ((k == "push" and hist.get("carried_push")) or hist.get("neg_known")):
                    known = "late-bounce"
                    hist["neg_known"] = True
                bad("C06", f"{cls}.{nm} negative after {k}: {[str(x) for x in vv]}", known)
    if r is not None and k != "ds" and not vnonneg(r):
        bad("C06", f"{cls}: reply to {k} negative: {[str(x) for x in r]}")

    if fam == "tank":
        if k == "push":
            offer = offer_cv(op[1])
            if not op[2] and hist.get("wet_op"):
                if a["sto"][0] > max(b["cap"], b["sto"][0]):
                    bad("C05", f"{cls}: unforced push raised the store to {a['sto'][0]} above max(capacity {b['cap']}, level before {b['sto'][0]})")
                if not (vle(vzero_like(r), r) and vle(r, offer)):
                    bad("C04", f"{cls}: push remainder {strs(r)} not between nothing and the offer {strs(offer)}")
                if r[0] > 0 and offer[0] > 0 and any(r[i] * offer[0] != offer[i] * r[0] for i in range(len(r))):
                    bad("C04", f"{cls}: push remainder {strs(r)} does not have the offer's composition {strs(offer)}")
            if hist.get("wet_op") and vadd(vsubt(a["sto"], b["sto"]), r) != offer:
                bad("C05", f"{cls}: entered {strs(vsubt(a['sto'], b['sto']))} + returned {strs(r)} != offer {strs(offer)}")
        elif k in ("pull", "ponded", "outflow", "pullpol"):
            if not vle(r, b["sto"]):
                bad("C05", f"{cls}: {k} took {strs(r)} from a store holding {strs(b['sto'])}")
            if k == "pull" and r[0] > op[1]:
                bad("C05", f"{cls}: pull returned {r[0]} > asked {op[1]}")
            if vsubt(b["sto"], a["sto"]) != r:
                bad("C04", f"{cls}: {k} reported {strs(r)} but the store lost {strs(vsubt(b['sto'], a['sto']))}")
        elif k == "evap":
            if r[0] > op[1] or r[0] > b["sto"][0] or b["sto"][0] - a["sto"][0] != r[0] or a["sto"][1:] != b["sto"][1:]:
                bad("C05", f"{cls}: evaporate({op[1]}) reported {r[0]}, level {b['sto'][0]} -> {a['sto'][0]}")
        elif k in ("avail", "excess", "ds"):
            if a != b:
                bad("C05", f"{cls}: query {k} changed the state")

    if fam == "qtank":
        tot = vzero_like(a["act"])
        for vv in a["buckets"].values():
            tot = vadd(tot, vv)
        expect = vadd(a["act"], tot)
        if cls == "DecayQueueTank":
            expect = vadd(expect, a["decayed"])
        if not hist.get("tiny") and a["sto"] != expect:
            bad("C09", f"{cls}: contents {strs(a['sto'])} != arrived + in transit{' + decayed' if cls != 'QueueTank' else ''} {strs(expect)} after {k}")
        if k == "push" and not op[3] and hist.get("wet_op") and not hist.get("tiny_op"):
            offer = offer_cv(op[1])
            if a["sto"][0] > max(b["cap"], b["sto"][0]):
                bad("C05", f"{cls}: unforced push raised contents (incl. queued) to {a['sto'][0]} above max(capacity {b['cap']}, {b['sto'][0]})")
            if not (vnonneg(r) and vle(r, offer)):
                bad("C04", f"{cls}: push remainder {strs(r)} not within offer {strs(offer)}")
            if vadd(vsubt(a["sto"], b["sto"]), r) != offer:
                bad("C05", f"{cls}: entered {strs(vsubt(a['sto'], b['sto']))} + returned {strs(r)} != offer {strs(offer)}")
            if a["fin"] > a["acap"]:
                bad("C05", f"{cls}: internal arc admitted {a['fin']} > capacity")
        if k in ("check", "avail", "ds") and a != b:
            bad("C05", f"{cls}: query {k} changed the state")
        if k in ("pull", "pullexact"):
            if not vle(r, b["act"]):
                bad("C09", f"{cls}: {k} withdrew {strs(r)} but only {strs(b['act'])} had arrived")
            if vsubt(b["sto"], a["sto"]) != r or vsubt(b["act"], a["act"]) != r:
                bad("C04", f"{cls}: {k} reported {strs(r)}; contents lost {strs(vsubt(b['sto'], a['sto']))}, arrived lost {strs(vsubt(b['act'], a['act']))}")
            if k == "pull" and r[0] > op[1]:
                bad("C05", f"{cls}: pull returned {r[0]} > asked {op[1]}")

    if fam == "altarc":
        def aledger(s):
            t = vzero_like(s["vin"])
            for vv in s["buckets"].values():
                t = vadd(t, vv)
            return vsubt(vsubt(vsubt(s["vin"], s["vout"]), t), s["decayed"]), t
        la, ta = aledger(a)
        lb, tb = aledger(b)
        if k == "end":
            if la != tuple(-x for x in tb):
                bad("C02", f"{cls}: close-out: in transit before {strs(tb)} != in transit after + close-out decay (ledger {strs(la)})")
            want = {}
            for kk, vv in b["buckets"].items():
                tgt = max(kk - 1, 0)
                want[tgt] = vadd(want.get(tgt, vzero_like(vv)), vv)
            if cls == "AltQueueArc" and any(a["buckets"].get(kk, vzero_like(vv)) != vv for kk, vv in want.items()):
                bad("C09", f"{cls}: close-out did not move every parcel exactly one step nearer (before {({k_: strs(v_) for k_, v_ in b['buckets'].items()})}, after {({k_: strs(v_) for k_, v_ in a['buckets'].items()})})")
        elif not hist.get("tiny") and la != lb:
            bad("C02", f"{cls}: {k}: in - out - transit - decayed moved from {strs(lb)} to {strs(la)}")
        if k == "push" and hist.get("wet_op") and not hist.get("tiny_op"):
            offer = offer_cv(op[1])
            if vsubt(offer, r) != vsubt(a["vin"], b["vin"]):
                bad("C04", f"{cls}: offer {strs(offer)} - reply {strs(r)} != recorded {strs(vsubt(a['vin'], b['vin']))}")
            if a["out"] is not None and vsubt(a["out"], b["out"]) != vsubt(a["vout"], b["vout"]):
                bad("C04", f"{cls}: receiver gained {strs(vsubt(a['out'], b['out']))} but the arc records delivery of {strs(vsubt(a['vout'], b['vout']))}")
    if fam in ("arc", "qarc", "altarc"):
        forced = hist.get("forced")
        if not forced and not (0 <= a["fin"] <= a["cap"]):
            bad("C05", f"{cls}: admitted flow {a['fin']} outside [0, capacity {a['cap']}] after {k}")
        if k not in ("end",) and a["fin"] < b["fin"]:
            bad("C05", f"{cls}: flow_in lowered from {b['fin']} to {a['fin']} by {k} (only a timestep end may reset it)")
        if k in ("pushcheck", "pullcheck", "setT") and a != b:
            bad("C07", f"{cls}: a check changed the state")
        dvin = vsubt(a["vin"], b["vin"])
        dvout = vsubt(a["vout"], b["vout"])
        if fam == "arc":
            if a["vin"] != a["vout"] or a["fin"] != a["fout"]:
                bad("C02", f"{cls}: plain arc in-record {strs(a['vin'])} != out-record {strs(a['vout'])}")
            if cls == "PullArc" and k == "push" and (r != offer_cv(op[1]) or a != b):
                bad("C08", f"PullArc carried a push: reply {strs(r)}")
            if cls == "PushArc" and k == "pull" and (any(x != 0 for x in r) or a != b):
                bad("C08", f"PushArc carried a pull: reply {strs(r)}")
        if k == "push" and not (cls == "PullArc"):
            offer = offer_cv(op[1])
            if hist.get("wet_op"):
                if vsubt(offer, r) != dvin:
                    bad("C04", f"{cls}: offer {strs(offer)} - reply {strs(r)} != recorded {strs(dvin)}", "tiny-push" if hist.get("tiny_op") else None)
                if a["out"] is not None and vsubt(a["out"], b["out"]) != dvout:
                    bad("C04", f"{cls}: receiver gained {strs(vsubt(a['out'], b['out']))} but the arc records delivery of {strs(dvout)}")
                if fam == "arc" and not (vnonneg(r) and vle(r, offer)):
                    bad("C04", f"{cls}: reply {strs(r)} not between nothing and the offer {strs(offer)}")
                if fam == "arc" and a["out"] is not None and r[0] > 0 and offer[0] > 0 and any(r[i] * offer[0] != offer[i] * r[0] for i in range(len(r))):
                    bad("C04", f"{cls}: reply {strs(r)} does not have the offer's composition {strs(offer)}")
        if k == "pull" and not (cls == "PushArc"):
            if fam == "arc" and r[0] > op[1]:
                bad("C04", f"{cls}: pull returned {r[0]} > asked {op[1]}")
            if fam == "arc" and r != dvin:
                bad("C04", f"{cls}: pull reply {strs(r)} != recorded {strs(dvin)}")
            if fam == "qarc" and r != dvout:
                bad("C04", f"{cls}: pull reply {strs(r)} != recorded delivery {strs(dvout)}")
            if a["in"] is not None:
                lost = vsubt(b["in"], a["in"])
                rec = dvin
                if lost != rec:
                    bad("C04", f"{cls}: supplier lost {strs(lost)} but the arc records {strs(rec)}")
        if fam == "qarc":
            def ledger(s):
                t = vzero_like(s["vin"])
                for q in s["queue"]:
                    t = vadd(t, q[1])
                return vsubt(vsubt(vsubt(s["vin"], s["vout"]), t), s["decayed"]), t
            la, ta = ledger(a)
            lb, tb = ledger(b)
            if k == "end":
                if la != tuple(-x for x in tb):
                    bad("C02", f"{cls}: close-out: in transit before {strs(tb)} != in transit after + close-out decay (ledger {strs(la)})")
            elif not hist.get("tiny"):
                if la != lb:
                    bad("C02", f"{cls}: {k}: in - out - transit - decayed moved from {strs(lb)} to {strs(la)}")
            # travel time: requests that are not due are untouched; due ones of this direction are gone
            if k in ("push", "pull") and not hist.get("tiny_op"):
                d = k
                notdue_b = [q for q in b["queue"] if not (q[2] == d and (q[0] == 0 or q[1][0] < EPS))]
                if a["queue"][:len(notdue_b)] != notdue_b:
                    bad("C09", f"{cls}: a request that was not due was changed by {k}")
                if any(q[2] == d and q[0] == 0 and q[1][0] >= EPS for q in a["queue"]):
                    bad("C09", f"{cls}: a due {d} request was left waiting")
                due_b = [q for q in b["queue"] if q[2] == d and q[0] == 0 and q[1][0] >= EPS]
                if d == "push" and a["out"] is not None and hist.get("wet_op"):
                    gain = a["out"][0] - b["out"][0]
                    allowed = sum(q[1][0] for q in due_b) + (op[1][0] if (op[3] + hist["n"]) == 0 else 0)
                    if gain > allowed:
                        bad("C09", f"{cls}: receiver gained {gain} although only {allowed} was due")
            if k == "end":
                tb_ = [(max(q[0] - 1, 0), q[2]) for q in b["queue"]]
                if [(q[0], q[2]) for q in a["queue"]] != tb_:
                    bad("C09", f"{cls}: close-out did not lower every remaining time by exactly one")
    return out


def vzero_like(v):
    return (ZERO,) * len(v)


def strs(v):
    return "(" + ", ".join(str(x) for x in v) + ")"


# ---------------------------------------------------------------------------
# C09 reference: an independent schedule model of a queue tank
# ---------------------------------------------------------------------------
class Schedule:
    """what the property says: water pushed with delay D is usable after exactly D
    close-outs; pulls take proportionally from what is usable"""

    def __init__(self, init, n):
        self.now = 0
        self.usable = init
        self.future = {}
        self.n = n

    def push(self, entered, extra):
        D = self.n + extra
        if D == 0:
            self.usable = vadd(self.usable, entered)
        else:
            t = self.now + D
            self.future[t] = vadd(self.future.get(t, vzero_like(entered)), entered)

    def end(self):
        self.now += 1
        if self.now in self.future:
            self.usable = vadd(self.usable, self.future.pop(self.now))

    def total(self):
        t = self.usable
        for v in self.future.values():
            t = vadd(t, v)
        return t


def run_case(fam, c, pids, rep, stats):
    """run one case on the implementation with all predicates; returns list of violations"""
    install_exact()
    G.set_partition(c["adds"], c["nons"])
    viols = []
    fam = FAMILY_OF.get(fam, fam)
    try:
        R = RUNNERS[fam](c)
        hist = {"forced": False, "tiny": not coarse_case(c), "carried_push": False, "n": c.get("n", 0), "dec": c.get("dec")}
        sched = None
        if fam == "qtank" and c["cls"] == "QueueTank":
            s0 = R.snap()
            sched = Schedule(s0["act"], c["n"])
        for i, op in enumerate(c["ops"]):
            b = R.snap()
            k = op[0]
            hist["wet_op"] = True
            hist["tiny_op"] = False
            if k == "push":
                hist["wet_op"] = is_wet(op[1])
                hist["tiny_op"] = op[1][0] < EPS
                if fam in ("arc", "qarc", "altarc") and op[2]:
                    hist["forced"] = True
                if hist["tiny_op"] and (op[1][0] > 0 or any(x != 0 for x in op[1][1])):
                    hist["tiny"] = True
                if not hist["wet_op"]:
                    hist["tiny"] = True      # dry-mass offers are outside the quantifier; stop exact ledgers
            if fam == "qarc":
                hist["carried_push"] = any(q[2] == "push" and q[0] == 0 for q in b["queue"]) and hist.get("ended", False)
            if fam == "altarc":
                hist["carried_push"] = any(x != 0 for x in b["buckets"].get(0, (0,))) and hist.get("ended", False)
            r = R.do(op)
            a = R.snap()
            if k == "end":
                hist["forced"] = False
                hist["ended"] = True
                hist["neg_known"] = False
            stats["ops"] += 1
            for pid, msg, known in predicates(fam, c["cls"], op, b, r, a, hist):
                if pid in pids:
                    viols.append((pid, msg, known, i))
            if sched is not None and not hist["tiny"]:
                if k == "push":
                    if op[3]:
                        sched.usable = vadd(sched.usable, offer_cv(op[1]))
                    else:
                        sched.push(vsubt(offer_cv(op[1]), r), op[2])
                elif k in ("pull", "pullexact"):
                    sched.usable = vsubt(sched.usable, r)
                elif k == "end":
                    sched.end()
                elif k == "reinit":
                    # a re-initialised tank is an empty one: nothing usable, nothing under way; delays count as before
                    sched.usable = vzero_like(sched.usable)
                    sched.future = {}
                if "C09" in pids and (a["act"] != sched.usable or a["sto"] != sched.total()):
                    viols.append(("C09", f"QueueTank after {k} (op {i}): usable {strs(a['act'])} / contents {strs(a['sto'])} but the "
                                  f"delay schedule gives usable {strs(sched.usable)} / contents {strs(sched.total())}", None, i))
    except Exception as ex:
        viols.append(("C12", f"implementation raised {ex!r}", None, -1))
    finally:
        G.reset_partition()
    return viols


def coarse_case(c):
    """keep only cases whose numbers are 0 or >= 1/1024 so that no sub-eps dust arises"""
    def okv(v):
        return coarse(v[0]) and all(coarse(x) for x in v[1])
    for op in c["ops"]:
        for x in op[1:]:
            if isinstance(x, tuple) and len(x) == 3 and isinstance(x[1], list):
                if not okv(x):
                    return False
            elif isinstance(x, F) and not coarse(x):
                return False
    for side in ("inp", "outp"):
        for key in ("init", "comp"):
            if side in c and key in c[side] and not okv(c[side][key]):
                return False
    return okv(c["init"]) if "init" in c else True


def monitor(rep, pid, families, n, maxops, cases_extra=None):
    """run the monitors of property `pid` on fresh random cases (+ the given ones); report."""
    total, nviol = 0, 0
    stats = {"ops": 0}
    known_seen = {}
    per_family = {}
    for fam in families:
        gen = K.FAMILIES[fam][0]
        r = C.rng(f"mon_{pid}_{fam}")
        cases = [unforce(FAMILY_OF.get(fam, fam), gen(r, maxops)) for _ in range(n)]
        cases = [unforce(FAMILY_OF.get(fam, fam), dict(c)) for c in (cases_extra.get(fam, []) if cases_extra else [])] + cases
        cnt = 0
        for c in cases:
            try:
                with C.time_limit(20):
                    viols = run_case(FAMILY_OF.get(fam, fam), c, {pid}, rep, stats)
            except C.TooSlow:
                stats["too_slow"] = stats.get("too_slow", 0) + 1
                continue
            total += 1
            cnt += 1
            rep.add_eval(("mon", fam, str(c)), nontrivial=len(c["ops"]) >= 3)
            for (p, msg, known, i) in viols:
                if known:
                    known_seen.setdefault(known, (msg, fam, c, i))
                    continue
                nviol += 1
                if nviol <= 3:
                    c2 = dict(c)
                    c2["ops"] = c["ops"][:i + 1] if i >= 0 else c["ops"]
                    c2 = shrink_mon(fam, c2, pid, msg)
                    rep.violation("counterexample", f"{pid} monitor [{fam}]: {msg}",
                                  {"family": fam, "case": K.case_json(c2), "monitor_message": msg}, True)
        per_family[fam] = cnt
    rep.monitor[f"{pid}_component"] = {"cases": total, "operations": stats["ops"], "violations": nviol,
                                       "families": per_family, "known_signatures_seen": sorted(known_seen)}
    return known_seen


def unforce(fam, c):
    """nothing in the library forces a push through an ARC (only into stores): arc-level force is
    outside the quantifier of the arc clauses (a forced over-capacity push makes the spare capacity negative)"""
    if fam in ("arc", "qarc", "altarc"):
        c = dict(c)
        c["ops"] = [(op[0], op[1], False, op[3]) if op[0] == "push" else op for op in c["ops"]]
    return c


def shrink_mon(fam, c, pid, msg, budget=25):
    """greedy removal of operations while the same property still fails on the implementation"""
    ops = list(c["ops"])
    i = len(ops) - 2
    stats = {"ops": 0}
    while i >= 0 and budget > 0:
        trial = dict(c)
        trial["ops"] = ops[:i] + ops[i + 1:]
        budget -= 1
        v = [x for x in run_case(fam, trial, {pid}, None, stats) if not x[2]]
        if v:
            ops = trial["ops"]
        i -= 1
    c = dict(c)
    c["ops"] = ops
    return c


def replay_case(rep, pid, fam, cjson):
    """re-run a recorded monitor counterexample"""
    c = case_from_json(cjson)
    stats = {"ops": 0}
    v = [x for x in run_case(fam, c, {pid}, rep, stats) if not x[2]]
    for (p, msg, known, i) in v[:3]:
        rep.violation("counterexample", f"{pid} monitor [{fam}] (replay): {msg}", {"family": fam, "case": cjson}, True)
    rep.add_eval(("replay", fam, str(cjson)), True)
    return bool(v)


def case_from_json(j):
    def fr(x):
        if isinstance(x, str):
            try:
                return F(x)
            except (ValueError, ZeroDivisionError):
                return x
        if isinstance(x, list):
            return [fr(y) for y in x]
        if isinstance(x, dict):
            return {k: fr(v) for k, v in x.items()}
        return x
    c = {k: (v if k in ("adds", "nons", "cls", "kind") else fr(v)) for k, v in j.items()}
    ops = []
    for op in c["ops"]:
        o = []
        for x in op:
            if isinstance(x, list) and len(x) == 3 and isinstance(x[1], list):
                o.append((x[0], x[1], x[2]))
            else:
                o.append(x)
        ops.append(tuple(o))
    c["ops"] = ops
    for key in ("init",):
        if key in c and isinstance(c[key], list):
            c[key] = tuple(c[key])
    for side in ("inp", "outp"):
        if side in c:
            for kk in ("init", "comp"):
                if kk in c[side] and isinstance(c[side][kk], list):
                    c[side][kk] = tuple(c[side][kk])
    return c
