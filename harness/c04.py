"""C04 — component level: theorems (coq/props/C04.v), exact correspondence, implementation monitors."""
import sys

import comp_check


def probes(rep, thorough):
    """whole models after real request histories: over every plain arc in front of or behind a store-backed node, what the
    store lost / gained, what the arc recorded and what the other side was handed / gave up are the same (volume and
    every additive pollutant)"""
    import mon_probe
    import mon_route
    seen = mon_probe.run(rep, thorough, pid="C04")
    # every tagged push a component can emit, sent to every class it can meet: what is not handed back is in the target
    mon_route.run(rep, thorough, pid="C04")
    # whole models under Model.run (every third with travel-time arcs, sewers discharging into works that are often full):
    # per node without boundary terms, what its arcs record as carried = what its stores gained / gave up
    import net_check
    seen.update(net_check.monitor_models(rep, "C04", 600 if thorough else 120, 8 if thorough else 5))
    # a sewer discharging over every arc class into receivers that fill up: water sent earlier comes back inside the reply
    # to a later push, with the quality it had then
    import mon_duo
    mon_duo.run(rep, thorough, "C04")
    return seen

RULE = ("correspondence: random operation sequences (pushes incl. forced/dry-mass/sub-epsilon, pulls, pollutant pulls, "
        "evaporation, checks, balance calls, timestep ends with varying temperature) on Tank/ResidenceTank/DecayTank, "
        "QueueTank/DecayQueueTank, Arc/PullArc/PushArc, QueueArc/DecayArc and AltQueueArc/DecayArcAlt, and the nodes built on a queue tank (Sewer, QueueGroundwater: family tarea, coq/TimeArea.v) between tank-backed or scripted (accept all / "
        "part / none, varying per call) neighbours, over random pollutant partitions; the whole observable state after "
        "every operation is compared exactly with the Gallina model. monitors: the C04 clauses evaluated directly on the "
        "implementation after every operation of fresh sequences. non-trivial = distinct sequence of >= 3 operations. "
        "family net: random networks of the real node classes over plain arcs (object of the network-level theorem), every store and arc record compared exactly after every operation. probes: random whole models after a run (every third after Model.reinit() and another run): a push and a pull over every plain arc next to a store-backed node, store change = arc record = amount handed over, volume and every additive pollutant; every tagged push the library emits, sent over an arc to an instance of every class it can meet (incl. a Land without impervious surfaces): carried = offer - remainder is in the target's stores")

if __name__ == "__main__":
    sys.exit(comp_check.run("C04", "tank arc qarc altarc qtank tarea".split(), RULE,
                            ["exact-rational semantics stands for float semantics up to rounding",
                             "offers are wet (non-negative, pollutant mass only with positive volume); no arc-level force for capacity clauses",
                             "end nodes respect the reply contract (proved for tank-backed ends)"],
                            net_corr=(200, 2000), extra=probes))
