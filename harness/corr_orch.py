"""Correspondence for coq/Orch.v: Model.add_arcs / assign_upstream / river_discharge_order of the
implementation against the model's river_order, on random acyclic river / junction / reservoir / outlet
graphs (chains, confluences, DIVERGENT routes, several outlets, unreachable rivers), any insertion order."""
import contextlib
import io

import common as C

HEADER = ("From Coq Require Import List ZArith Arith Bool.\nFrom WSI Require Import Orch.\nImport ListNotations.\n")


def gen_graph(r, maxn=9):
    n = r.randint(2, maxn)
    kinds = ["Waste"] + [r.choice(["River", "River", "River", "Node", "Reservoir"]) for _ in range(n - 1)]
    if r.random() < 0.3:
        kinds.append("Waste")
    # topological positions: arcs go from higher to lower position => acyclic
    pos = list(range(len(kinds)))
    arcs = []
    for i in range(1, len(kinds)):
        if kinds[i] == "Waste":
            continue
        targets = [j for j in range(i) if True]
        k = r.choice([1, 1, 1, 2, 2, 3, 0]) if i > 1 else r.choice([1, 1, 0])
        for j in r.sample(targets, min(k, len(targets))):
            arcs.append((i, j))
    names = [f"{k.lower()}{i}" for i, k in enumerate(kinds)]
    order_nodes = list(range(len(kinds)))
    r.shuffle(order_nodes)
    r.shuffle(arcs)
    return {"kinds": kinds, "names": names, "node_order": order_nodes, "arcs": arcs, "cls": "Model"}


def run_impl(g):
    from wsimod.core import constants
    from wsimod.orchestration.model import Model
    constants.set_simple_pollutants()
    m = Model()
    with contextlib.redirect_stdout(io.StringIO()):
        m.add_nodes([{"name": g["names"][i], "type_": g["kinds"][i]} for i in g["node_order"]])
        m.add_arcs([{"name": f"a{k}", "type_": "Arc", "in_port": g["names"][u], "out_port": g["names"][v]}
                    for k, (u, v) in enumerate(g["arcs"])])
    idx = {nm: i for i, nm in enumerate(g["names"])}
    return [idx[x] for x in m.river_discharge_order]


def expr(g):
    arcs = "[" + "; ".join(f"({u}, {v})" for u, v in g["arcs"]) + "]"
    outlets = "[" + "; ".join(str(i) for i in g["node_order"] if g["kinds"][i] == "Waste") + "]"
    rivers = "[" + "; ".join(str(i) for i, k in enumerate(g["kinds"]) if k == "River") + "]"
    return (f"(if snd (assign_upstream {arcs} {outlets}) then 1%Z else 0%Z) :: "
            f"map Z.of_nat (river_order {arcs} {outlets} (fun n => existsb (Nat.eqb n) {rivers}))")


def correspondence(rep, n, tag="orch"):
    r = C.rng(f"corr_{tag}")
    graphs = [gen_graph(r) for _ in range(n)]
    impl = []
    raised = 0
    for g in graphs:
        try:
            impl.append(run_impl(g))
        except Exception as ex:      # e.g. no outlet reachable
            impl.append(("raised", repr(ex)))
            raised += 1
    res, log = C.eval_cases(tag, HEADER, [expr(g) for g in graphs], shard=250)
    mism = 0
    notconv = 0
    divergent = 0
    for g, out, got in zip(graphs, impl, res):
        outdeg = {}
        for u, v in g["arcs"]:
            outdeg[u] = outdeg.get(u, 0) + 1
        divergent += int(any(d > 1 for d in outdeg.values()))
        if got is None:
            continue
        rep.add_eval((tag, str(g)), nontrivial=len(g["arcs"]) >= 3)
        if got[0] != 1:
            notconv += 1
        if isinstance(out, tuple):
            continue
        if got[1:] != out:
            mism += 1
            if mism <= 3:
                rep.violation("broken-correspondence", f"river order: implementation {out} vs model {got[1:]}",
                              {"family": "orch", "graph": g}, False)
    rep.corr[tag] = {"graphs": n, "evaluated_in_coq": sum(x is not None for x in res), "mismatches": mism,
                     "impl_raised": raised, "divergent_graphs": divergent, "model_not_converged": notconv, "coq_log": log[-300:]}
    if graphs:
        rep.samples.append({"river_graph": {"kinds": graphs[0]["kinds"], "arcs": graphs[0]["arcs"], "node_order": graphs[0]["node_order"]}})
    return graphs
