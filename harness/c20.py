"""C20 — water quantity does not depend on pollutants: erasure theorems (coq/props/C20.v) + paired exact runs."""
import random
import sys

import common as C
import mon_net as MN
import net_check
import netgen as NG

RULE = ("the same hydraulic set-up (same generator seed: topology, capacities, hydraulic parameters, hydrological forcing) is "
        "built under 2-3 different pollutant configurations (different pollutant lists and orders, concentrations, loads, "
        "treatment parameters incl. library defaults vs declared; in a third of the cases with hydraulic parameters changed through "
        "apply_overrides after construction, identically in all configurations; every third set-up with travel-time / decaying / one-way arc classes) and run in exact arithmetic; every arc flow volume and every store volume of every timestep "
        "must be identical. non-trivial = distinct model with >= 4 nodes")
SETS = ["simple", "four", "reordered", "one"]


def short(x):
    """a number for a message: exact when it is short, else a float"""
    try:
        t = str(x)
        return t if len(t) <= 60 else f"{float(x):.17g} (exact value has {len(t)} characters)"
    except ValueError:
        return f"{float(x):.17g}"


def paired(rep, thorough):
    n = 400 if thorough else 120
    viol = 0
    compared = 0
    mixed = 0
    for idx, (seed, size) in enumerate(net_check.gen_cases("net_C20_pairs", n, 4)):
        r0 = random.Random(seed)
        sets = r0.sample(SETS, 3 if thorough else 2)
        base = None
        with_ov = r0.random() < 0.35
        strip = r0.random() < 0.4
        nodecay = r0.random() < 0.4
        cold = r0.random() < (0.7 if idx % 3 == 2 else 0.25)
        for k, ps in enumerate(sets):
            # (every third set-up with travel-time, decaying, one-way, sewer and weir arcs: the same classes and travel times
            # under every pollutant configuration; what differs is what the water carries, e.g. on a dry day)
            cfg = NG.gen_model(random.Random(seed), ndates=5 if idx % 3 == 2 else 4, polset=ps, size=size,
                               opts={"polseed": k, "overrides": with_ov, "arc_mix": 0.5 if idx % 3 == 2 else 0, "stress": idx % 3 == 2})
            mixed += int(idx % 3 == 2 and k == 0)
            if idx % 3 == 2:
                # ephemeral streams into travel-time arcs: on a day without flow the catchment pushes an empty flux while
                # yesterday's water is still in the arc (the same arcs in every configuration: chosen from the seed)
                rq = random.Random(seed + 1)
                kinds = {nd["name"]: NG.cls_of(nd) for nd in cfg["nodes"]}
                for a in cfg["arcs"]:
                    if kinds[a["in_port"]] == "Catchment" and a["type_"] == "Arc" and rq.random() < 0.6:
                        a["type_"] = "QueueArc"
                        a["number_of_timesteps"] = rq.choice([1, 1, 2])
            if strip and k == 1:
                # "different treatment parameters": this configuration leaves the pollutant treatment of every works to the
                # library defaults (the hydraulic shares percent_solids and liquor volume stay as declared)
                for nd in cfg["nodes"]:
                    if nd["type_"] in ("WWTW", "FWTW"):
                        nd.pop("process_parameters", None)
            if cold and k == 1:
                # "whatever their concentrations are": in this configuration every non-additive quality (temperature, pH) is
                # zero throughout - initial contents and forcing - so an empty flux is all zeros
                nons = set(NG.POLSETS[ps][1])

                def zero(x):
                    if isinstance(x, dict):
                        for kk in list(x):
                            if kk in nons or (isinstance(kk, tuple) and kk[0] in nons):
                                x[kk] = x[kk] * 0
                            else:
                                zero(x[kk])
                    elif isinstance(x, list):
                        for y in x:
                            zero(y)
                for nd in cfg["nodes"]:
                    zero(nd)
            if nodecay and k == 1:
                # "different decay parameters": this configuration has no pollutant decay in its stores at all
                for nd in cfg["nodes"]:
                    nd.pop("decays", None)
            mon, model, err, out = MN.run_cfg(cfg, "exact", pids=())
            vols = [(rec["flows"], rec["stores"]) for rec in mon.records]
            if err:
                vols = ("raised", err.split(" at ")[0])
            if base is None:
                base = (ps, vols, cfg)
                continue
            compared += 1
            if vols != base[1]:
                viol += 1
                where = "the run raised under one configuration only"
                if not isinstance(vols, tuple) and not isinstance(base[1], tuple):
                    for t, (a, b) in enumerate(zip(base[1], vols)):
                        for part in (0, 1):
                            for key in a[part]:
                                if a[part][key] != b[part].get(key):
                                    where = f"timestep {t}: {key}: {short(a[part][key])} under '{base[0]}' vs {short(b[part].get(key))} under '{ps}'"
                                    break
                if viol <= 3:
                    rep.violation("counterexample", f"C20 paired runs: volumes differ between pollutant configurations: {where}",
                                  {"seed": seed, "size": size, "polsets": [base[0], ps],
                                   "config_a": NG.cfg_json(base[2]), "config_b": NG.cfg_json(cfg)}, True)
        rep.add_eval(("pairs", seed), nontrivial=True)
    rep.monitor["C20_paired_runs"] = {"hydraulic_setups": n, "with_mixed_arc_classes": mixed, "comparisons": compared, "violations": viol}
    float_pairs(rep, thorough)
    import corr_tarea
    corr_tarea.monitor_c20(rep, 1500 if thorough else 200)
    return {}


def float_pairs(rep, thorough):
    """floating-point pairs that reach the unmodelled quality code: default pollutant set (river biochemistry,
    nutrient pools of growing surfaces) against reduced sets, same hydraulic set-up"""
    n = 200 if thorough else 30
    viol = 0
    for seed, size in net_check.gen_cases("net_C20_fpairs", n, 6):
        r0 = random.Random(seed)
        opts = {"growing": True, "start": r0.choice(NG.STARTS), "overrides": r0.random() < 0.4}
        size = r0.choice(["land", "full", "land"])
        base = None
        for k, ps in enumerate(["default", r0.choice(["simple", "four"])]):
            o = dict(opts)
            o["polseed"] = k
            cfg = NG.gen_model(random.Random(seed), ndates=6, polset=ps, size=size, opts=o)
            mon, model, err, out = MN.run_cfg(cfg, "float", pids=())
            vols = [(rec["flows"], rec["stores"]) for rec in mon.records] if not err else ("raised", err.split(" at ")[0])
            if base is None:
                base = (ps, vols, cfg)
                continue
            bad = None
            if isinstance(vols, tuple) or isinstance(base[1], tuple):
                bad = "the run raised under one configuration only" if vols != base[1] else None
            else:
                for t, (a, b) in enumerate(zip(base[1], vols)):
                    for part in (0, 1):
                        for key, x in a[part].items():
                            y = b[part].get(key)
                            if y is None or abs(x - y) > 1e-9 * max(1.0, abs(x), abs(y)):
                                bad = bad or f"timestep {t}: {key}: {x} under '{base[0]}' vs {y} under '{ps}'"
            if bad:
                viol += 1
                if viol <= 3:
                    rep.violation("counterexample", f"C20 paired float runs: volumes differ between pollutant configurations: {bad}",
                                  {"seed": seed, "size": size, "polsets": [base[0], ps], "mode": "float",
                                   "config_a": NG.cfg_json(base[2]), "config_b": NG.cfg_json(cfg)}, True)
        rep.add_eval(("fpairs", seed), nontrivial=True)
    rep.monitor["C20_paired_float_runs_with_growing_surfaces"] = {"hydraulic_setups": n, "violations": viol}


if __name__ == "__main__":
    sys.exit(net_check.run("C20", RULE,
                           ["exact-rational semantics stands for float semantics up to rounding",
                            "hydraulic parameters and hydrological forcing identical between the paired configurations"],
                           n_quick=10, n_thorough=50, extra=paired,
                           # the models the erasure theorems of coq/QTankErasure.v and coq/NodeErasure.v are about, tied to the code
                           corr=[("qtank", 120, 1000, 8), ("altarc", 100, 800, 8), ("tarea", 120, 800, 8)]))
