"""Shared driver of the whole-model property checks (C01, C03, C06-net, C12, C20)."""
import json
import os
import random
import sys

import pandas as pd_

import common as C
import mon_net as MN
import netgen as NG

TRUST_NET = [
    "whole-model statements are checked on the implementation only (exact-arithmetic runs of random well-formed models with "
    "the guarded Model.run observer hooks); the Coq theorems cover the building blocks named in the property file",
    "harness/netgen.py generates the models (river / supply / land sub-systems with legal connections, four pollutant "
    "configurations, forcing with zeros, dry spells and bursts); harness/exnum.py runs WSIMOD on exact rationals with "
    "rational surrogates for exp/log/sin/non-integer powers",
]
SIZES = ["river", "supply", "land", "full"]


def gen_cases(tag, n, ndates, opts=None):
    r0 = C.rng(tag)
    out = []
    for i in range(n):
        seed = r0.getrandbits(48)
        size = SIZES[i % len(SIZES)]
        out.append((seed, size))
    return out


def monitor_models(rep, pid, n, ndates=4, opts=None, mode="exact", known=None):
    """run n random models with the monitors of `pid`; returns {signature: example}"""
    seen = {}
    viol = 0
    stats = {"models": 0, "timesteps": 0, "classes": {}, "sizes": {}, "raised": 0}
    stats["with_mixed_arc_classes"] = 0
    stats["arc_classes"] = {}
    for i, (seed, size) in enumerate(gen_cases(f"net_{pid}", n, ndates, opts)):
        o = dict(opts or {})
        if i % 3 == 2:
            # every third model: travel-time, decaying, pull-only, push-only, sewer and weir arcs where the link allows
            o["arc_mix"] = 0.4
            stats["with_mixed_arc_classes"] += 1
        if (i // 4) % 3 == 1:
            # every fourth model: parameters changed through apply_overrides between building and running
            o["overrides"] = True
            stats["with_overrides"] = stats.get("with_overrides", 0) + 1
        if pid in ("C05", "C06") and i % 5 == 1:
            # parallel arcs between the same pair of nodes (main and relief pipes, two intakes): capacities hold per arc,
            # nothing recorded is negative
            o["parallel"] = 0.3
            stats["with_parallel_arcs"] = stats.get("with_parallel_arcs", 0) + 1
        two_calls = pid in ("C02", "C03") and i % 4 == 1 and ndates >= 4
        if two_calls:
            o["arc_mix"] = 0.5          # (travel-time arcs: water under way at the boundary between the two calls)
        cfg = NG.gen_model(random.Random(seed), ndates=ndates, size=size, opts=o)
        for a in cfg["arcs"]:
            stats["arc_classes"][a["type_"]] = stats["arc_classes"].get(a["type_"], 0) + 1
        if two_calls:
            # the dates are run as two consecutive calls of Model.run on the one model (no reinit in between), the monitor
            # stays attached: the ledgers must close across the boundary as across any other close-out
            k = ndates // 2
            mon, model, err, out = MN.run_cfg(cfg, mode, pids=(pid,), dates=[pd_.Timestamp(d) for d in cfg["dates"][:k]])
            if err is None and model is not None and not getattr(mon, "too_slow", False):
                NG.set_pollutants(cfg["polset"])          # (run_cfg leaves the library's default set behind)
                mon, model, err, out = MN.run_cfg(cfg, mode, pids=(pid,), mon=mon, model=model, dates=[pd_.Timestamp(d) for d in cfg["dates"][k:]])
            stats["run_in_two_calls"] = stats.get("run_in_two_calls", 0) + 1
        else:
            mon, model, err, out = MN.run_cfg(cfg, mode, pids=(pid,))
        if pid in ("C06", "C12") and i % 4 == 3 and err is None and model is not None and not getattr(mon, "too_slow", False):
            # ... and once more after Model.reinit(): nothing negative, nothing raised in a re-initialised model either
            try:
                NG.set_pollutants(cfg["polset"])
                model.reinit()
            except Exception as ex:
                mon.bad("C12", f"Model.reinit() raised {type(ex).__name__}: {ex}")
            else:
                mon2, _, err2, _ = MN.run_cfg(cfg, mode, pids=(pid,), model=model)
                mon.viol += [(p_, "after Model.reinit(): " + m_, s_) for (p_, m_, s_) in mon2.viol]
                mon.steps += mon2.steps
                stats["reinit_reruns"] = stats.get("reinit_reruns", 0) + 1
            finally:
                NG.set_pollutants("default")
        stats["models"] += 1
        stats["timesteps"] += mon.steps
        stats["sizes"][size] = stats["sizes"].get(size, 0) + 1
        stats["raised"] += int(err is not None)
        for nd in cfg["nodes"]:
            stats["classes"][NG.cls_of(nd)] = stats["classes"].get(NG.cls_of(nd), 0) + 1
            for s in nd.get("surfaces", []):
                stats["classes"][s["type_"]] = stats["classes"].get(s["type_"], 0) + 1
        rep.add_eval(("net", pid, seed), nontrivial=len(cfg["nodes"]) >= 4)
        if stats["models"] == 1:
            rep.samples.append({"model": {"seed": seed, "size": size, "polset": cfg["polset"],
                                          "nodes": [(x["name"], NG.cls_of(x)) for x in cfg["nodes"]],
                                          "arcs": [(a["in_port"], a["out_port"], a["type_"]) for a in cfg["arcs"]]}})
        for (p, msg, sig) in mon.viol:
            if sig:
                seen.setdefault(sig, msg)
                continue
            viol += 1
            if viol <= 3:
                rep.violation("counterexample", f"{pid} whole-model monitor: {msg}",
                              {"kind_of_case": "netgen", "seed": seed, "size": size, "ndates": ndates, "opts": o,
                               "mode": mode, "config": NG.cfg_json(cfg)}, True)
    stats["violations"] = viol
    rep.monitor[f"{pid}_models_{mode}"] = stats
    return seen


def replay_model(rep, pid, body):
    cfg = NG.cfg_from_json(body["config"])
    mon, model, err, out = MN.run_cfg(cfg, body.get("mode", "exact"), pids=(pid,))
    rep.add_eval(("replay", str(body.get("seed"))), True)
    for (p, msg, sig) in mon.viol[:3]:
        if not sig:
            rep.violation("counterexample", f"{pid} whole-model monitor (replay): {msg}", {"config": body["config"]}, True)


def run(pid, rule, assumptions, n_quick=60, n_thorough=800, ndates=4, opts=None, extra=None, also_component=None, corr=()):
    rep = C.Report(pid)
    rep.trusted = list(C.BASE_TRUST) + TRUST_NET
    thorough = C.tier() == "thorough"
    replay = os.environ.get("VERIF_REPLAY")
    if replay:
        body = json.load(open(replay))
        if body.get("kind") == "counterexample" and "config" in body:
            replay_model(rep, pid, body)
            return rep.finish("replay of one recorded model", assumptions)
    C.proof_stage(rep, f"props/{pid}.v")
    if corr:
        # the network model of coq/Net.v (the object of the network-level theorems) against the real classes
        import corr_comp as K
        import corr_kinds  # noqa: F401
        import corr_net  # noqa: F401
        import corr_star  # noqa: F401
        import corr_tarea  # noqa: F401
        import corr_demand  # noqa: F401
        import corr_leak  # noqa: F401
        import corr_wtw  # noqa: F401
        import corr_land  # noqa: F401
        for fam, nq, nt, maxops in corr:
            # (the float constants of PerviousSurface are binary fractions with 2^55 denominators: longer results are fine there)
            K.correspondence(rep, fam, nt if thorough else nq, maxops, tag=pid.lower(), maxdigits=80 if fam == "land" else 30)
    seen = monitor_models(rep, pid, n_thorough if thorough else n_quick, ndates if not thorough else ndates + 3, opts)
    if extra:
        seen.update(extra(rep, thorough) or {})
    C.apply_known(rep, pid, {k: (v, "net", {"ops": [], "cls": "model"}, -1) for k, v in seen.items()})
    return rep.finish(rule, assumptions)
