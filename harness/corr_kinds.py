"""Exact correspondence for coq/Kinds.v: the real Storage / Groundwater / River / Reservoir /
RiverReservoir / Catchment classes of the implementation as the hub of a star whose neighbours carry
the class NAMES the library filters by (River, Node, Waste, Reservoir, Sewer, Groundwater) but are
tank-backed or scripted stand-ins, against the Gallina models; plus check->request honesty probes."""
import contextlib
import io
from fractions import Fraction as F

import common as C
import corr_comp as K
import corr_star as S
import gens as G
from exnum import EPS, UNBOUNDED, Ex, frac, install_exact

from wsimod.nodes.nodes import NODES_REGISTRY

TYPE_NAMES = ["Node", "River", "Waste", "Reservoir", "Sewer", "Groundwater"]     # ids as in coq/Kinds.v


def _fake(name):
    saved = NODES_REGISTRY.get(name)
    import logging
    lvl = logging.getLogger().level
    logging.getLogger().setLevel(logging.ERROR)
    cls = type(name, (S._Nb,), {})
    logging.getLogger().setLevel(lvl)
    if saved is not None:
        NODES_REGISTRY[name] = saved
    return cls


FAKE = [_fake(n) for n in TYPE_NAMES]
KINDS = ["Storage", "Groundwater", "River", "Reservoir", "RiverReservoir"]
KLIT = {"Storage": "KStorage", "Groundwater": "KGroundwater", "River": "KRiver", "Reservoir": "KReservoir", "RiverReservoir": "KRiverReservoir"}


def gen_star(r, part, n, types):
    out = []
    for _ in range(n):
        out.append({"cap": r.choice([F(0), F(2), F(5), F(25, 2), UNBOUNDED, UNBOUNDED]),
                    "pref": r.choice([F(1), F(1), F(1), F(2), F(1, 2), F(3)]),
                    "ty": r.choice(types), "nb": K.rand_nb(r, part)})
    return out


def gen_kind_case(r, maxops):
    adds, nons = G.rand_partition(r, 0, 2, 1)
    part = K.Part(adds, nons)
    kind = r.choice(KINDS)
    cap = r.choice([F(5), F(10), F(37, 3), F(100)])
    init = G.rand_vqip(r, part.na, part.nn, wet=True)
    if r.random() < 0.5:
        sc = cap * r.choice([F(1, 4), F(1, 2), F(1), F(5, 4)])
        if init[0] > 0:
            init = (sc, [x * sc / init[0] for x in init[1]], init[2])
    c = {"kind": "kind", "cls": kind, "adds": adds, "nons": nons, "cap": cap, "init": init,
         "res": r.choice([F(1), F(2), F(5), F(200)]), "thr": r.choice([F(1), F(1, 2), F(0)]), "pct": r.choice([F(0), F(1, 4), F(1)]),
         "len": F(r.choice([100, 200, 400])), "vel": F(r.choice([400, 800, 17280])), "damp": r.choice([F(0), F(1, 10), F(1, 4)]),
         "mrf": r.choice([F(0), F(0), F(2), F(5), F(20)]), "env": r.choice([F(0), F(2), F(6), F(30)]),
         "outs": gen_star(r, part, r.choice([0, 1, 2, 2, 3, 4]), [0, 1, 2, 2, 4, 3]),
         "ins": gen_star(r, part, r.choice([0, 1, 2, 2, 3]), [0, 1, 1, 3, 5])}
    ops = []
    for _ in range(r.randint(1, maxops)):
        x = r.random()
        if x < 0.25:
            ops.append(("push", K.push_amount(r, part, cap)))
        elif x < 0.45:
            ops.append(("pull", r.choice([G.rand_q(r), F(3), F(8), F(20)])))
        elif x < 0.53:
            ops.append(("pushcheck", None if r.random() < 0.5 else G.rand_vqip(r, part.na, part.nn)))
        elif x < 0.61:
            ops.append(("pullcheck", None if r.random() < 0.5 else G.rand_q(r)))
        elif x < 0.75:
            ops.append(("distribute",))
        elif x < 0.8 and kind == "Groundwater":
            ops.append(("infiltrate",))
        elif x < 0.86 and kind in ("Reservoir", "RiverReservoir"):
            ops.append(("abstract",))
        elif x < 0.92 and kind == "RiverReservoir":
            ops.append(("satisfy",))
        elif x < 0.97:
            ops.append(("end",))
        elif len(ops) >= 1:
            # parameters changed on a node that has been used (coefficients derived from them must follow)
            ov = {}
            if kind == "River":
                for key, vals in (("len", [F(100), F(400), F(1600)]), ("vel", [F(400), F(100), F(17280)]), ("damp", [F(0), F(1, 10), F(1, 2), F(1)]),
                                  ("mrf", [F(0), F(2), F(5)])):
                    if r.random() < 0.5:
                        ov[key] = r.choice(vals)
            else:
                if r.random() < 0.6:
                    ov["cap"] = cap * r.choice([F(1, 2), F(2), F(3, 4)])
                if kind == "Groundwater":
                    for key, vals in (("res", [F(1), F(3), F(50)]), ("thr", [F(1), F(1, 4), F(0)]), ("pct", [F(0), F(1, 2), F(1)])):
                        if r.random() < 0.5:
                            ov[key] = r.choice(vals)
                if kind == "RiverReservoir" and r.random() < 0.6:
                    ov["env"] = r.choice([F(0), F(3), F(12)])
            if ov:
                ops.append(("override", ov))
    if not ops:
        ops = [("distribute",)]
    c["ops"] = ops
    return c


class KindRun:
    def __init__(self, c):
        from wsimod.arcs import arcs
        from wsimod.nodes import storage
        self.c = c
        self.part = part = K.Part(c["adds"], c["nons"])
        kw = dict(name="hub", capacity=Ex(c["cap"]), area=Ex(10), initial_storage=part.d(c["init"]))
        k = c["cls"]
        with contextlib.redirect_stdout(io.StringIO()):
            if k == "Storage":
                self.hub = storage.Storage(**kw)
            elif k == "Groundwater":
                self.hub = storage.Groundwater(residence_time=Ex(c["res"]), infiltration_threshold=Ex(c["thr"]),
                                               infiltration_pct=Ex(c["pct"]), **kw)
            elif k == "River":
                self.hub = storage.River(name="hub", length=Ex(c["len"]), width=Ex(10), velocity=Ex(c["vel"]), damp=Ex(c["damp"]),
                                         mrf=Ex(c["mrf"]), initial_storage=part.d(c["init"]))
            elif k == "Reservoir":
                self.hub = storage.Reservoir(**kw)
            else:
                self.hub = storage.RiverReservoir(environmental_flow=Ex(c["env"]), **kw)
        self.outs, self.ins = [], []
        for i, a in enumerate(c["outs"]):
            nb = FAKE[a["ty"]](f"o{i}", part, a["nb"])
            self.outs.append((getattr(arcs, a.get("acls", "Arc"))(name=f"ao{i}", in_port=self.hub, out_port=nb, capacity=Ex(a["cap"]), preference=Ex(a["pref"])), nb))
        for i, a in enumerate(c["ins"]):
            nb = FAKE[a["ty"]](f"i{i}", part, a["nb"])
            # ("acls": the arc class, set by the monitors only - the stars of coq/Distrib.v have plain arcs)
            self.ins.append((getattr(arcs, a.get("acls", "Arc"))(name=f"ai{i}", in_port=nb, out_port=self.hub, capacity=Ex(a["cap"]), preference=Ex(a["pref"])), nb))

    def do(self, op):
        p, h, k = self.part, self.hub, op[0]
        with contextlib.redirect_stdout(io.StringIO()):
            if k == "push":
                return h.push_set(p.d(op[1]))
            if k == "pull":
                return h.pull_set({"volume": Ex(op[1])})
            if k == "pushcheck":
                return h.push_check(None if op[1] is None else p.d(op[1]))
            if k == "pullcheck":
                return h.pull_check(None if op[1] is None else {"volume": Ex(op[1])})
            if k == "distribute":
                h.distribute()
            elif k == "infiltrate":
                h.infiltrate()
            elif k == "abstract":
                h.make_abstractions()
            elif k == "satisfy":
                h.satisfy_environmental()
            elif k == "end":
                h.end_timestep()
                for arc, nb in self.outs + self.ins:
                    arc.end_timestep()
            elif k == "override":
                h.apply_overrides({OVKEY[key]: Ex(v) for key, v in op[1].items()})
        return None

    def enc(self):
        p, h = self.part, self.hub
        zero = p.d((F(0), [F(0)] * p.na, [F(0)] * p.nn))
        out = p.ev(h.tank.storage) + p.ev(h.tank.storage_) + p.ev(zero)
        out += C.encq(frac(getattr(h, "total_environmental_satisfied", 0)))
        for arc, nb in self.outs:
            out += K.enc_arc_py(p, arc) + [0] + nb.fk.enc()
        for arc, nb in self.ins:
            out += K.enc_arc_py(p, arc) + nb.fk.enc() + [0]
        return out


OVKEY = {"cap": "capacity", "res": "residence_time", "thr": "infiltration_threshold", "pct": "infiltration_pct", "len": "length",
         "vel": "velocity", "damp": "damp", "mrf": "mrf", "env": "environmental_flow"}


def run_kind_impl(c):
    R = KindRun(c)
    out = []
    for op in c["ops"]:
        try:
            r = R.do(op)
        except ZeroDivisionError:
            return out + [-999]
        if r is not None:
            out += R.part.ev(r)
        out += R.enc()
    return out


def star_lit(arcs, push):
    items = []
    for a in arcs:
        nb = K.lit_nb(a["nb"])
        s = f"({S.IDLE}, {nb})" if push else f"({nb}, {S.IDLE})"
        items.append(f"mkSA _ (a_init {C.qlit(a['cap'])}) {C.qlit(a['pref'])} {s} {a['ty']}%nat")
    return "[" + "; ".join(items) + "]"


def kind_expr(c):
    from wsimod.core import constants
    ops = []
    cur = {key: c[key] for key in ("cap", "res", "thr", "pct", "len", "vel", "damp", "mrf", "env")}
    if c["cls"] == "River":
        cur["cap"] = UNBOUNDED
    for op in c["ops"]:
        k = op[0]
        if k == "override":
            cur.update(op[1])
            ops.append("KOverride " + " ".join(C.qlit(cur[key]) for key in ("cap", "res", "thr", "pct", "len", "vel", "damp", "mrf", "env")))
        elif k == "push":
            ops.append(f"KPushSet {C.vlit(op[1])}")
        elif k == "pull":
            ops.append(f"KPullSet {C.qlit(op[1])}")
        elif k == "pushcheck":
            ops.append(f"KPushCheck {K.lit_opt_v(op[1])}")
        elif k == "pullcheck":
            ops.append(f"KPullCheck {K.lit_opt_q(op[1])}")
        elif k == "distribute":
            ops.append("KDistribute")
        elif k == "infiltrate":
            ops.append("KInfiltrate")
        elif k == "abstract":
            ops.append("KAbstract")
        elif k == "satisfy":
            ops.append("KSatisfy")
        else:
            ops.append("KEnd (20#1)")
    na, nn = len(c["adds"]), len(c["nons"])
    cap = UNBOUNDED if c["cls"] == "River" else c["cap"]
    k = (f"(mkK _ (t_init {C.qlit(cap)} {C.vlit(c['init'])} [] (2#1)) {star_lit(c['outs'], True)} {star_lit(c['ins'], False)} 0 "
         f"{C.qlit(c['res'])} {C.qlit(c['thr'])} {C.qlit(c['pct'])} {C.qlit(c['len'])} {C.qlit(c['vel'])} {C.qlit(c['damp'])} "
         f"{C.qlit(c['mrf'])} {C.qlit(c['env'])})")
    return f"run_kind {na} {nn} {int(constants.MAXITER)} {KLIT[c['cls']]} {k} [{'; '.join(ops)}]"


# ---------------------------------------------------------------------------
# catchment
# ---------------------------------------------------------------------------
def gen_catch_case(r, maxops):
    adds, nons = G.rand_partition(r, 0, 2, 1)
    part = K.Part(adds, nons)
    outs = gen_star(r, part, r.choice([1, 1, 2, 3]), [0, 1, 2, 2, 3])
    steps = []
    for _ in range(r.randint(1, 3)):
        flow = r.choice([F(0), F(3), F(10), F(25, 2), F(40)])
        conc = [r.choice([F(0), F(1, 100), F(1, 8), F(2)]) for _ in adds]
        qual = [F(r.randint(2, 20)) for _ in nons]
        ops = []
        for _ in range(r.randint(1, max(1, maxops // 2))):
            x = r.random()
            if x < 0.35:
                ops.append(("abstract", r.randrange(len(outs)), r.choice([G.rand_q(r), F(2), F(5), F(30)])))
            elif x < 0.55:
                ops.append(("pullcheck", None if r.random() < 0.5 else G.rand_q(r)))
            else:
                ops.append(("route",))
        ops.append(("end",))
        steps.append({"flow": flow, "conc": conc, "qual": qual, "ops": ops})
    return {"kind": "catch", "cls": "Catchment", "adds": adds, "nons": nons, "outs": outs, "steps": steps,
            "ops": [o for s in steps for o in s["ops"]]}


def run_catch_impl(c):
    from wsimod.arcs import arcs
    from wsimod.nodes.catchment import Catchment
    part = K.Part(c["adds"], c["nons"])
    data = {}
    for t, s in enumerate(c["steps"]):
        data[("flow", t)] = Ex(s["flow"])
        for k, n in enumerate(c["adds"]):
            data[(n, t)] = Ex(s["conc"][k])
        for k, n in enumerate(c["nons"]):
            data[(n, t)] = Ex(s["qual"][k])
    hub = Catchment(name="hub", data_input_dict=data)
    outs = []
    for i, a in enumerate(c["outs"]):
        nb = FAKE[a["ty"]](f"o{i}", part, a["nb"])
        outs.append((arcs.Arc(name=f"ao{i}", in_port=hub, out_port=nb, capacity=Ex(a["cap"]), preference=Ex(a["pref"])), nb))
    out = []
    for t, s in enumerate(c["steps"]):
        hub.t = t
        for op in s["ops"]:
            r = None
            with contextlib.redirect_stdout(io.StringIO()):
                try:
                    if op[0] == "route":
                        hub.route()
                    elif op[0] == "pullcheck":
                        r = hub.pull_check(None if op[1] is None else {"volume": Ex(op[1])})
                    elif op[0] == "abstract":
                        r = outs[op[1]][0].send_pull_request({"volume": Ex(op[2])})
                    else:
                        hub.end_timestep()
                        for arc, nb in outs:
                            arc.end_timestep()
                except ZeroDivisionError:
                    return out + [-999]
            if r is not None:
                out += part.ev(r)
            out += part.ev(hub.get_flow()) + part.ev(hub.unrouted_water)
            for arc, nb in outs:
                out += K.enc_arc_py(part, arc) + [0] + nb.fk.enc()
    return out


def catch_expr(c):
    from wsimod.core import constants
    steps = []
    for s in c["steps"]:
        ops = []
        for op in s["ops"]:
            if op[0] == "route":
                ops.append("CRoute")
            elif op[0] == "pullcheck":
                ops.append(f"CPullCheck {K.lit_opt_q(op[1])}")
            elif op[0] == "abstract":
                ops.append(f"CAbstract {op[1]}%nat {C.qlit(op[2])}")
            else:
                ops.append("CEnd")
        steps.append(f"({C.qlit(s['flow'])}, {C.veclit(s['conc'])}, {C.veclit(s['qual'])}, [{'; '.join(ops)}])")
    na, nn = len(c["adds"]), len(c["nons"])
    return (f"run_catch {na} {nn} {int(constants.MAXITER)} (mkCS {star_lit(c['outs'], True)} vzero) [{'; '.join(steps)}]")


K.FAMILIES["kind"] = (gen_kind_case, run_kind_impl, kind_expr)
K.FAMILIES["catch"] = (gen_catch_case, run_catch_impl, catch_expr)
K.add_imports("Distrib", "Kinds")


# ---------------------------------------------------------------------------
# boundary functions (coq/Boundary.v): impervious rain / evaporation, simple deposition, house demand
# ---------------------------------------------------------------------------
def gen_boundary_case(r, maxops):
    adds = r.sample(["phosphate", "ammonia", "solids", "salt"], r.randint(0, 2))
    nons = ["temperature"] + r.sample(["ph", "do"], r.randint(0, 1))
    area = r.choice([F(1), F(50), F(7, 2), F(200)])
    c = {"kind": "boundary", "cls": "ImperviousSurface", "adds": adds, "nons": nons, "area": area,
         "pore": r.choice([F(0), F(1, 100), F(1, 20)]), "coef": r.choice([F(1), F(1, 2), F(3, 4)]),
         "load": [r.choice([F(0), F(1, 1000), F(1, 50)]) for _ in adds],
         "init": r.choice([F(0), F(1, 4), F(3)]),
         "pop": r.choice([F(0), F(10), F(35), F(100)]), "pc": r.choice([F(0), F(1, 8), F(3, 20)]),
         "dload": [r.choice([F(0), F(1, 100), F(1, 8)]) for _ in adds], "ctemp": F(r.choice([15, 30])),
         "w": r.choice([F(1, 5), F(0), F(1, 2)])}
    ops = []
    for _ in range(r.randint(1, maxops)):
        x = r.random()
        if x < 0.55:
            ops.append(("rain", r.choice([F(0), F(1, 1000), F(1, 100), F(1, 20)]), r.choice([F(0), F(1, 500), F(1, 100), F(1, 10)]), F(r.randint(2, 25))))
        elif x < 0.75:
            ops.append(("dep",))
        else:
            ops.append(("house", F(r.randint(2, 25))))
    c["ops"] = ops
    return c


def run_boundary_impl(c):
    from wsimod.nodes.demand import ResidentialDemand
    from wsimod.nodes.land import Land
    part = K.Part(c["adds"], c["nons"])
    data = {}
    land = Land(name="land", data_input_dict=data,
                surfaces=[{"type_": "ImperviousSurface", "surface": "urban", "area": Ex(c["area"]), "pore_depth": Ex(c["pore"]),
                           "et0_to_e": Ex(c["coef"]), "pollutant_load": {n: Ex(v) for n, v in zip(c["adds"], c["load"])},
                           "initial_storage": Ex(c["init"])}])
    land.t = 0
    surf = land.surfaces[0]
    load = {n: Ex(v) for n, v in zip(c["adds"], c["dload"])}
    load.update({n: Ex(7) for n in c["nons"]})
    dem = ResidentialDemand(name="d", population=Ex(c["pop"]), per_capita=Ex(c["pc"]), pollutant_load=load, data_input_dict=data,
                            constant_temp=Ex(c["ctemp"]), constant_weighting=Ex(c["w"]))
    dem.t = 0
    out = []
    for op in c["ops"]:
        if op[0] == "rain":
            data[("precipitation", 0)] = Ex(op[1])
            data[("et0", 0)] = Ex(op[2])
            data[("temperature", 0)] = Ex(op[3])
            p, e = surf.precipitation_evaporation()
            out += C.encq(frac(p["volume"])) + C.encq(frac(e["volume"]))
        elif op[0] == "dep":
            p, _ = surf.simple_deposition() if c["adds"] else (part.d((F(0), [], [F(0)] * part.nn)), None)
            out += part.ev(p)
        else:
            data[("temperature", 0)] = Ex(op[1])
            out += part.ev(dem.get_house_demand())
        out += part.ev(surf.storage)
    return out


def boundary_expr(c):
    na, nn = len(c["adds"]), len(c["nons"])
    init = f"(mkV {C.qlit(c['init'])} [] [])"
    cap = c["area"] * c["pore"]
    lines = []
    t = f"(t_init {C.qlit(cap)} {init} [] (2#1))"
    # the run is a left fold written out as nested lets by the generator of expressions
    body = "[]"
    steps = []
    for op in c["ops"]:
        if op[0] == "rain":
            tn = "[" + "; ".join([C.qlit(op[3])] + ["0"] * (nn - 1)) + "]"
            steps.append(f"BRain {C.qlit(op[1])} {C.qlit(op[2])} {tn}")
        elif op[0] == "dep":
            steps.append("BDep")
        else:
            steps.append(f"BHouse {C.qlit(op[1])}")
    others = "[" + "; ".join(["(7#1)"] * (nn - 1)) + "]"
    return (f"run_boundary {na} {nn} {C.qlit(c['area'])} {C.qlit(c['coef'])} {C.veclit(c['load'])} {C.qlit(c['pop'])} {C.qlit(c['pc'])} "
            f"{C.veclit(c['dload'])} {C.qlit(c['ctemp'])} {C.qlit(c['w'])} {others} {t} [{'; '.join(steps)}]")


K.FAMILIES["boundary"] = (gen_boundary_case, run_boundary_impl, boundary_expr)
K.add_imports("Distrib", "Kinds", "Boundary")


# ---------------------------------------------------------------------------
# C19 monitor: the property clauses on the real River / RiverReservoir with tank-backed neighbours
# ---------------------------------------------------------------------------
def upstream_drawable(R):
    """what the reach could draw from upstream River / Node neighbours right now: every such in-arc is asked on its own
    (the hub's own summary, Node.get_connected, is not consulted); sub-epsilon answers count as nothing"""
    tot = F(0)
    for arc, nb in R.ins:
        if type(nb).__name__ in ("River", "Node"):
            a = frac(arc.send_pull_check()["volume"])
            if a >= EPS:
                tot += a
    return tot


def monitor_c19(rep, n, pid="C19"):
    import mon_comp as M
    from exnum import exp_s
    r = C.rng("mon_c19")
    viol = 0
    st = {"river_cases": 0, "abstractions": 0, "started_below": 0, "reservoir_cases": 0, "releases": 0, "limited_downstream": 0}

    def bad(c, i, msg):
        nonlocal viol
        viol += 1
        if viol <= 3:
            c2 = dict(c)
            c2["ops"] = c["ops"][:i + 1]
            rep.violation("counterexample", f"{pid} monitor: {msg}", {"family": "kind", "case": K.case_json(c2), "monitor_message": msg}, True)

    for ci in range(n):
        c = gen_kind_case(r, 10)
        c["cls"] = "River" if ci % 2 == 0 else "RiverReservoir"
        for a in c["ins"] + c["outs"]:            # honest neighbours: tank-backed
            if a["nb"]["kind"] != "tank":
                a["nb"] = {"kind": "tank", "cap": r.choice([F(5), F(10), F(100), UNBOUNDED]), "init": G.rand_vqip(r, len(c["adds"]), len(c["nons"]), wet=True)}
        if c["cls"] == "River":
            if ci % 3 == 1:
                # upstream reaches that feed this one through one-way arcs: a push-only arc carries no pull, so what stands
                # behind it is not water the reach can draw on
                for a in c["ins"]:
                    a["acls"] = r.choice(["Arc", "PushArc", "PushArc", "PullArc"])
                st["with_one_way_upstream_arcs"] = st.get("with_one_way_upstream_arcs", 0) + 1
            c["ops"] = [("pull", r.choice([G.rand_q(r), F(3), F(8), F(20), F(200)])) if r.random() < 0.8 else r.choice([("push", K.push_amount(r, K.Part(c["adds"], c["nons"]), F(10))), ("distribute",)])
                        for _ in range(r.randint(1, 8))]
            if ci % 4 == 2 and len(c["ops"]) >= 2:
                # the reach is re-parameterised after it has been used, abstractions follow
                ov = {key: r.choice(vals) for key, vals in (("len", [F(100), F(400), F(1600)]), ("vel", [F(400), F(100), F(17280)]),
                                                            ("damp", [F(1, 10), F(1, 2), F(1)]), ("mrf", [F(2), F(5)])) if r.random() < 0.6}
                if ov:
                    c["ops"].insert(r.randint(1, len(c["ops"]) - 1), ("override", ov))
                    st["re_parameterised"] = st.get("re_parameterised", 0) + 1
        else:
            c["outs"] = [a for a in c["outs"] if a["ty"] in (0, 1, 2)] or c["outs"]
            c["ops"] = [r.choice([("push", K.push_amount(r, K.Part(c["adds"], c["nons"]), c["cap"])), ("satisfy",), ("satisfy",), ("abstract",), ("end",)])
                        for _ in range(r.randint(1, 8))]
        install_exact()
        G.set_partition(c["adds"], c["nons"])
        try:
            C.arm(30)
            R = KindRun(c)
            h = R.hub
            for i, op in enumerate(c["ops"]):
                with contextlib.redirect_stdout(io.StringIO()):
                    if c["cls"] == "River":
                        up = upstream_drawable(R)
                        # the allowance its current parameters imply (computed here, not asked of the river)
                        from wsimod.nodes import storage as _st
                        kt = h.damp * (h.length / h.velocity)
                        rc = frac(1 - kt + kt * _st.exp(-1 / kt)) if frac(kt) != 0 else F(1)
                        allow = frac(h.mrf) / rc
                        W = frac(h.tank.storage["volume"]) + up
                    else:
                        # what has gone downstream in this timestep so far (spill and releases), read off the arcs - not the
                        # reservoir's own counter
                        sat0 = sum(frac(a.vqip_in["volume"]) for a, nb in R.outs)
                        if sat0 != frac(h.total_environmental_satisfied):
                            bad(c, i, f"the reservoir counts {frac(h.total_environmental_satisfied)} as gone downstream in this timestep, its out-arcs record {sat0}")
                        sto0 = frac(h.tank.storage["volume"])
                        out0 = sum(frac(a.vqip_in["volume"]) for a, nb in R.outs)
                try:
                    rr = R.do(op)
                except ZeroDivisionError:
                    break
                if c["cls"] == "River" and op[0] == "pull":
                    st["abstractions"] += 1
                    got = frac(rr["volume"])
                    with contextlib.redirect_stdout(io.StringIO()):
                        up2 = upstream_drawable(R)
                    W2 = frac(h.tank.storage["volume"]) + up2
                    if W <= allow:
                        st["started_below"] += 1
                        if got != 0:
                            bad(c, i, f"River at or below its minimum-flow allowance ({W} <= {allow}) still gave {got}")
                    else:
                        if got > W - allow:
                            bad(c, i, f"abstraction of {got} exceeds the water above the allowance ({W} - {allow})")
                        if W2 < allow and W2 < W - got:
                            pass          # availability seen upstream may shrink for other reasons (arc capacity used)
                        if W - got < allow:
                            bad(c, i, f"River started above its allowance ({W} >= {allow}) and was drawn down to {W - got}")
                    if got > op[1]:
                        bad(c, i, f"River gave {got} for a request of {op[1]}")
                if c["cls"] == "RiverReservoir" and op[0] == "satisfy":
                    st["releases"] += 1
                    env = frac(h.environmental_flow)
                    outstanding = max(env - sat0, 0)
                    delivered = sum(frac(a.vqip_in["volume"]) for a, nb in R.outs) - out0
                    counted = frac(h.total_environmental_satisfied) - sat0
                    if delivered > outstanding:
                        bad(c, i, f"release sent {delivered} downstream, more than the outstanding {outstanding}")
                    if counted != delivered:
                        bad(c, i, f"release counted {counted} as satisfied but {delivered} went downstream")
                    free = all(frac(a.capacity) - (frac(a.flow_in) - 0) >= 0 for a, nb in R.outs)
                    took = sto0 - frac(h.tank.storage["volume"])
                    if took != delivered:
                        bad(c, i, f"reservoir lost {took} but {delivered} went downstream")
                    if min(outstanding, sto0) - delivered > EPS:       # (a shortfall below FLOAT_ACCURACY is dust: arcs hand such a push back)
                        st["limited_downstream"] += 1
                        # less than required went out: only acceptable if the downstream side refused it
                        with contextlib.redirect_stdout(io.StringIO()):
                            room = frac(h.get_connected(direction="push")["avail"])
                        if room > EPS and len(R.outs) > 0:
                            bad(c, i, f"release delivered {delivered} < min(outstanding {outstanding}, contents {sto0}) although downstream still has room for {room}")
            st["river_cases" if c["cls"] == "River" else "reservoir_cases"] += 1
            rep.add_eval(("mon_c19", str(c)), nontrivial=len(c["ops"]) >= 2)
        except C.TooSlow:
            pass          # exact rationals exploded: case dropped
        finally:
            C.disarm()
            G.reset_partition()
    st["violations"] = viol
    rep.monitor[f"{pid}_kinds"] = st


def monitor_c08_kinds(rep, n, pid="C08"):
    """the type filters of the store-backed node classes, on the implementation: a RiverReservoir that is pushed to spills
    only towards Node / River / Waste neighbours, Groundwater.distribute and River.distribute send only to those types -
    arcs to neighbours of any other class (reservoirs, sewers, groundwater, ...) carry nothing"""
    r = C.rng("mon_c08_kinds")
    viol = 0
    st = {"cases": 0, "pushes_into_full_river_reservoir": 0, "distributes": 0, "arcs_to_other_types_watched": 0}
    ALLOWED = (0, 1, 2)            # type ids of Node, River, Waste (FAKE)
    for ci in range(n):
        c = gen_kind_case(r, 6)
        c["cls"] = ("RiverReservoir", "RiverReservoir", "Groundwater", "River")[ci % 4]
        part = K.Part(c["adds"], c["nons"])
        c["outs"] = gen_star(r, part, r.choice([2, 3, 4]), [0, 1, 2, 3, 4, 5, 3, 4])
        for a in c["outs"]:
            if a["ty"] in ALLOWED and r.random() < 0.7:
                a["cap"] = r.choice([F(0), F(1), F(2)])          # named-type arcs short of capacity: the rest must NOT go elsewhere
        if c["cls"] == "RiverReservoir":
            full = c["cap"]
            if c["init"][0] > 0:
                c["init"] = (full, [x * full / c["init"][0] for x in c["init"][1]], c["init"][2])
            c["ops"] = [("push", K.push_amount(r, part, F(10))) for _ in range(r.randint(1, 3))]
        else:
            c["ops"] = [("distribute",) for _ in range(r.randint(1, 2))]
        install_exact()
        G.set_partition(c["adds"], c["nons"])
        try:
            C.arm(30)
            R = KindRun(c)
            watch = [(arc, a["ty"]) for (arc, nb), a in zip(R.outs, c["outs"]) if a["ty"] not in ALLOWED]
            st["arcs_to_other_types_watched"] += len(watch)
            for i, op in enumerate(c["ops"]):
                before = [frac(arc.vqip_in["volume"]) for arc, _ in watch]
                R.do(op)
                st["pushes_into_full_river_reservoir" if op[0] == "push" else "distributes"] += 1
                for (arc, ty), b in zip(watch, before):
                    moved = frac(arc.vqip_in["volume"]) - b
                    if moved != 0:
                        viol += 1
                        if viol <= 3:
                            c2 = dict(c)
                            c2["ops"] = c["ops"][:i + 1]
                            rep.violation("counterexample", f"{pid} monitor: {c['cls']} {op[0]}: {moved} travelled on the arc to a neighbour of "
                                          f"class {FAKE[ty].__name__}, which is not among the named types Node / River / Waste",
                                          {"family": "kind", "case": K.case_json(c2)}, True)
            st["cases"] += 1
            rep.add_eval(("mon_c08_kinds", str(c)), nontrivial=bool(watch))
        except Exception as ex:
            rep.notes.append(f"{pid} kind-filter monitor: case raised {type(ex).__name__}: {ex}")
        except C.TooSlow:
            pass          # exact rationals exploded: case dropped
        finally:
            C.disarm()
            G.reset_partition()
    st["violations"] = viol
    rep.monitor[f"{pid}_kind_filters"] = st


def monitor_c18_suppliers(rep, n, pid="C18"):
    """C18 on a two-level neighbourhood, on the implementation: a junction gathers a pull from 1-4 suppliers that are REAL
    store-backed nodes (River with tank-backed River / Node reaches upstream of it, Reservoir, Storage, Groundwater) over
    arcs with capacities and preferences.  The oracle is computed from the contents before the request (the library's own
    checks are not consulted): what a supplier could give = its own store (for a River: own store plus what stands in the
    upstream stores within the upstream arc capacities, less its minimum-flow allowance), within the capacity left on
    its arc.  Clauses: the total delivered is no more than asked and no more than the suppliers could give together;
    each arc's piece is no more than its supplier could give; the pieces add up to the total; and exactly the delivered
    volume has left the stores of the suppliers and of what stands upstream of them."""
    from wsimod.arcs import arcs as A
    from wsimod.nodes.nodes import Node
    from wsimod.nodes import storage as _st
    r = C.rng("mon_c18_suppliers")
    viol = 0
    st = {"cases": 0, "pulls": 0, "river_suppliers_with_upstream_water": 0, "limited_by_suppliers": 0}
    for ci in range(n):
        adds, nons = G.rand_partition(r, 0, 2, 1)
        part = K.Part(adds, nons)
        install_exact()
        G.set_partition(adds, nons)
        try:
            C.arm(30)
            with contextlib.redirect_stdout(io.StringIO()):
                hub = Node(name="puller")
            sup = []
            desc = []
            for j in range(r.choice([1, 2, 2, 3, 4])):
                c = gen_kind_case(r, 1)
                c["cls"] = r.choice(["River", "River", "Reservoir", "Storage", "Groundwater"])
                c["outs"] = []
                c["ins"] = [a for a in c["ins"] if a["ty"] in (0, 1)] if c["cls"] == "River" else []
                for a in c["ins"]:
                    a["nb"] = {"kind": "tank", "cap": UNBOUNDED, "init": G.rand_vqip(r, part.na, part.nn, wet=True)}
                c["adds"], c["nons"] = adds, nons
                c["init"] = G.rand_vqip(r, part.na, part.nn, wet=True)
                if c["cls"] != "River" and c["init"][0] > c["cap"]:
                    c["cap"] = c["init"][0] * 2
                R = KindRun(c)
                with contextlib.redirect_stdout(io.StringIO()):
                    arc = A.Arc(name=f"s{j}", in_port=R.hub, out_port=hub, capacity=Ex(r.choice([F(3), F(25, 2), UNBOUNDED, UNBOUNDED])),
                                preference=Ex(r.choice([F(1), F(1), F(2), F(1, 2)])))
                sup.append((R, arc))
                desc.append({"cls": c["cls"], "init": str(c["init"][0]), "mrf": str(c["mrf"]), "arc_capacity": str(frac(arc.capacity)),
                             "upstream": [{"type": TYPE_NAMES[a["ty"]], "holds": str(a["nb"]["init"][0]), "arc_capacity": str(a["cap"])} for a in c["ins"]]})

            def stock():
                return sum(frac(R.hub.tank.storage["volume"]) + sum(frac(nb.fk.tank.storage["volume"]) for a, nb in R.ins) for R, arc in sup)

            def could_give(R, arc):
                own = frac(R.hub.tank.storage["volume"])
                if R.c["cls"] == "River":
                    h = R.hub
                    up = sum(max(min(frac(nb.fk.tank.storage["volume"]), frac(a.capacity) - frac(a.flow_in)), 0) for a, nb in R.ins)
                    kt = h.damp * (h.length / h.velocity)
                    rc = frac(1 - kt + kt * _st.exp(-1 / kt)) if frac(kt) != 0 else F(1)
                    own = max(own + up - frac(h.mrf) / rc, 0)
                    if up > 0:
                        st["river_suppliers_with_upstream_water"] += 1
                return max(min(own, frac(arc.capacity) - frac(arc.flow_in)), 0)
            asks = [r.choice([G.rand_q(r), F(1), F(7), F(30), F(1000)]) for _ in range(r.randint(1, 3))]
            for i, q in enumerate(asks):
                s0 = stock()
                feas = [could_give(R, arc) for R, arc in sup]
                rec0 = [frac(arc.vqip_in["volume"]) for R, arc in sup]
                with contextlib.redirect_stdout(io.StringIO()):
                    try:
                        got = frac(hub.pull_distributed({"volume": Ex(q)})["volume"])
                    except ZeroDivisionError:
                        break
                st["pulls"] += 1
                pieces = [frac(arc.vqip_in["volume"]) - x for (R, arc), x in zip(sup, rec0)]
                left = s0 - stock()
                bad = []
                if got > q + EPS * 10:
                    bad.append(f"pulled {got} for a request of {q}")
                if got > sum(feas) + EPS * 10:
                    bad.append(f"pulled {got} although the suppliers (with everything upstream of them) could give only {sum(feas)}")
                for j, (p_, f_) in enumerate(zip(pieces, feas)):
                    if p_ > f_ + EPS * 10:
                        bad.append(f"arc {j} ({desc[j]['cls']}) carried {p_}, its supplier could give only {f_}")
                if sum(pieces) != got:
                    bad.append(f"the pieces on the arcs add up to {sum(pieces)}, the total reported is {got}")
                if left != got:
                    bad.append(f"{got} was delivered but {left} left the stores of the suppliers and of what stands upstream of them")
                if sum(feas) < q:
                    st["limited_by_suppliers"] += 1
                if bad:
                    viol += 1
                    if viol <= 3:
                        rep.violation("counterexample", f"{pid} monitor (real suppliers): request {i} of {q}: " + "; ".join(bad[:3]),
                                      {"part": "suppliers", "partition": [adds, nons], "suppliers": desc, "requests": [str(x) for x in asks[:i + 1]]}, True)
                    break
            st["cases"] += 1
            rep.add_eval(("mon_c18_suppliers", ci), nontrivial=len(sup) >= 2)
        except C.TooSlow:
            pass
        finally:
            C.disarm()
            G.reset_partition()
    st["violations"] = viol
    rep.monitor[f"{pid}_real_suppliers"] = st
