"""C17 — boundary fidelity: theorems (coq/props/C17.v), exact correspondence of the boundary-function models,
whole-model monitor with an independent evaluation of the forcing data."""
import json
import os
import sys

import common as C
import comp_check
import corr_comp as K
import corr_star
import corr_kinds as KD
import net_check

PID = "C17"
RULE = ("correspondence: ImperviousSurface.precipitation_evaporation, Surface.simple_deposition, ResidentialDemand."
        "get_house_demand, Demand / ResidentialDemand.create_demand (family demand, coq/Demand.v), Land.run with impervious and pervious surfaces (family land, coq/LandV.v) and the Catchment functions (get_flow, get_avail, route, abstractions through its out-arcs) against "
        "coq/Boundary.v and coq/Kinds.v on random parameters and forcing (zero rain, rain below / above potential evaporation, "
        "areas different from 1, populations incl. 0). monitor: random whole models, at every timestep the declared boundary "
        "terms against the configuration data: catchment inflow = flow and concentration x flow, released = flow; rain on "
        "impervious / pervious surfaces = depth x area, evaporation <= potential x coefficient x area and <= rain + stored; "
        "demand = population x per-capita with population x load (constant demand for plain Demand nodes); outlets remove what "
        "reaches them; deposition from monthly surface forcing (dry and wet) under Model.run over date lists that are not contiguous "
        "days (month and year ends, the same month in consecutive years, gaps): declared = value for the month of the timestep x area. non-trivial = distinct case with >= 3 operations / model with >= 4 nodes")

if __name__ == "__main__":
    def corr(rep, thorough):
        n = 1500 if thorough else 200
        K.correspondence(rep, "boundary", n, 8, tag="c17")
        K.correspondence(rep, "catch", n, 8, tag="c17", maxdigits=30)
        import corr_demand  # noqa: F401
        K.correspondence(rep, "demand", n, 8, tag="c17", maxdigits=30)
        import corr_land  # noqa: F401
        K.correspondence(rep, "land", 1200 if thorough else 150, 6, tag="c17", maxdigits=80)
        import mon_c17m
        mon_c17m.run(rep, thorough)
        return {}
    sys.exit(net_check.run(PID, RULE,
                           ["the independent oracle reads the model configuration (forcing series, areas, populations, loads), not the node objects",
                            "garden demand is zero in the generated models (no garden surfaces)"],
                           n_quick=160, ndates=5, extra=corr))
