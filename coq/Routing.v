(* Routing.v — the handler-table part of C08, over the finite tables that
   harness/gen_tables.py regenerates from the live classes on every run
   (gen/GenHandlers.v): every tagged request a component can emit towards a
   neighbour type is answered by a set- AND a check-handler of every class
   that neighbours see under that type name. *)
From Coq Require Import String List Bool.
From WSI.gen Require Import GenHandlers.
Import ListNotations.
Open Scope string_scope.

Definition has (l : list string) (t : string) : bool := existsb (String.eqb t) l.
Definition row_ok (push : bool) (types : list string) (tag : string)
  (row : string * string * list string * list string * list string * list string) : bool :=
  let '(cls, seen, pset, pchk, lset, lchk) := row in
  if (match types with [] => true | _ => has types seen end)
  then (if push then has pset tag && has pchk tag else has lset tag && has lchk tag)
  else true.
Definition emission_ok (e : string * bool * list string * string) : bool :=
  let '(owner, push, types, tag) := e in forallb (row_ok push types tag) handlers.

(* finite by construction: the theorem is about exactly the generated tables *)
Theorem handlers_total : forallb emission_ok emissions = true.
Proof. vm_compute. reflexivity. Qed.

(* unfolded for a reader: membership form *)
Theorem handlers_total_forall : forall owner push types tag cls seen pset pchk lset lchk,
  In (owner, push, types, tag) emissions ->
  In (cls, seen, pset, pchk, lset, lchk) handlers ->
  (types = [] \/ has types seen = true) ->
  if push then has pset tag = true /\ has pchk tag = true else has lset tag = true /\ has lchk tag = true.
Proof.
  intros owner push types tag cls seen pset pchk lset lchk He Hh Ht.
  pose proof (proj1 (forallb_forall _ _) handlers_total _ He) as H1. cbn [emission_ok] in H1.
  pose proof (proj1 (forallb_forall _ _) H1 _ Hh) as H2. cbn [row_ok] in H2.
  assert (Hc : (match types with [] => true | _ => has types seen end) = true).
  { destruct Ht as [Ht|Ht]; [subst; reflexivity | destruct types; [reflexivity | exact Ht]]. }
  rewrite Hc in H2. destruct push; apply andb_true_iff in H2; exact H2.
Qed.
