(* Kinds.v — executable models of store-backed node classes of
   wsimod/nodes/storage.py (Storage, Groundwater, River hydraulics and minimum
   required flow, Reservoir, RiverReservoir), wsimod/nodes/catchment.py and
   wsimod/nodes/waste.py, on top of Tank.v (the node's store) and Distrib.v
   (its out-star and in-star).  Model file: definitions only.
   Neighbour type ids follow the class names the source filters by. *)
From Coq Require Import QArith Qminmax List Bool Arith.
From WSI Require Import Vqip Pow Tank Arc QTank Distrib.
Import ListNotations.
Open Scope Q_scope.

Definition T_NODE : nat := 0.
Definition T_RIVER : nat := 1.
Definition T_WASTE : nat := 2.
Definition T_RESERVOIR : nat := 3.
Definition T_SEWER : nat := 4.
Definition T_GROUNDWATER : nat := 5.
Definition unbounded : Q := 1000000000000000 # 1.      (* constants.UNBOUNDED_CAPACITY *)

(* rational surrogate of math.exp used on both sides of the correspondence (harness/exnum.exp_s) *)
Definition exp_s (x : Q) : Q := if Qlt_le_dec x 0 then 1 / (1 - x) else 1 + x.

Section Kinds.
Variable S : Type.
Variable P : port S.
Variable maxiter : nat.

Record knode := mkK {
  k_tank : tank;
  k_outs : star S;
  k_ins : star S;
  k_envsat : Q;             (* RiverReservoir.total_environmental_satisfied *)
  (* parameters *)
  k_res : Q;                (* Groundwater.residence_time *)
  k_thr : Q; k_pct : Q;     (* Groundwater.infiltration_threshold / infiltration_pct *)
  k_len : Q; k_vel : Q; k_damp : Q; k_mrf : Q;   (* River *)
  k_env : Q                 (* RiverReservoir.environmental_flow *)
}.
Definition k_with (k : knode) (t : tank) (outs ins : star S) (envsat : Q) : knode :=
  mkK t outs ins envsat (k_res k) (k_thr k) (k_pct k) (k_len k) (k_vel k) (k_damp k) (k_mrf k) (k_env k).
Definition k_set_tank (k : knode) (t : tank) := k_with k t (k_outs k) (k_ins k) (k_envsat k).

(* ---------------- Storage (also the default handlers of Groundwater / Reservoir) ---------------- *)
Definition st_push_set (k : knode) (v : vqip) : knode * vqip :=
  let '(t', r) := t_push (k_tank k) v false in (k_set_tank k t', r).
Definition st_push_check (k : knode) (ov : option vqip) : vqip := t_get_excess (k_tank k) (option_map vol ov).
Definition st_pull_set (k : knode) (q : Q) : knode * vqip :=
  let '(t', r) := t_pull (k_tank k) q in (k_set_tank k t', r).
Definition st_pull_check (k : knode) (ov : option Q) : vqip := t_get_avail (k_tank k) ov.

(* discharge everything / a share with push_distributed, force back what could not be placed *)
Definition discharge (k : knode) (ot : option (list nat)) (amount : Q) : option knode :=
  let '(t1, out) := t_pull (k_tank k) amount in
  match push_distributed S P maxiter ot (k_outs k) out with
  | None => None
  | Some (outs', retained, _) =>
      let '(t2, _) := t_push t1 retained true in
      Some (k_with k t2 outs' (k_ins k) (k_envsat k))
  end.
Definition st_distribute (k : knode) : option knode := discharge k None (vol (t_sto (k_tank k))).
Definition gw_distribute (k : knode) : option knode :=
  discharge k (Some [T_NODE; T_RIVER; T_WASTE]) (vol (t_sto (k_tank k)) / k_res k).
Definition gw_infiltrate (k : knode) : option knode :=
  let avail := Qmax (vol (t_sto (k_tank k)) - t_cap (k_tank k) * k_thr k) 0 in
  discharge k (Some [T_SEWER]) (pow_s (avail * k_pct k) (1 # 2)).

(* ---------------- River ---------------- *)
Definition riverrc (k : knode) : Q :=
  let kt := k_damp k * (k_len k / k_vel k) in
  if Qeq_bool kt 0 then 1 else Qred (1 - kt + kt * exp_s (- (1 / kt))).
Definition rv_push_set (k : knode) (v : vqip) : knode * vqip :=
  let '(t', _) := t_push (k_tank k) v true in (k_set_tank k t', vzero).
Definition rv_push_check (k : knode) (ov : option vqip) : vqip :=
  match ov with Some v => v | None => mkV unbounded [] [] end.
Definition rv_upstream (k : knode) : Q :=
  c_avail (get_connected S P false (Some [T_RIVER; T_NODE]) (k_ins k)).
Definition rv_pull_check (k : knode) (ov : option Q) : vqip :=
  let sto := t_sto (k_tank k) in
  let total := Qred (vol sto + rv_upstream k) in
  let av := Qmax (total - k_mrf k / riverrc k) 0 in
  vchange (mkV total (adds sto) (nons sto)) (match ov with None => av | Some q => Qmin av q end).
Definition rv_pull_set (k : knode) (q : Q) : option (knode * vqip) :=
  let avail := rv_pull_check k (Some q) in
  let '(t1, pulled) := t_pull (k_tank k) (vol avail) in
  match pull_distributed S P maxiter (Some [T_RIVER; T_NODE]) (k_ins k) (Qred (vol avail - vol pulled)) with
  | None => None
  | Some (ins', pulled_, _) => Some (k_with k t1 (k_outs k) ins' (k_envsat k), vsum pulled pulled_)
  end.
Definition rv_distribute (k : knode) : option knode :=
  discharge k (Some [T_RIVER; T_NODE; T_WASTE]) (vol (t_sto (k_tank k)) * riverrc k).

(* ---------------- Reservoir / RiverReservoir ---------------- *)
Definition rs_make_abstractions (k : knode) : option knode :=
  let want := vol (t_get_excess (k_tank k) None) in
  match pull_distributed S P maxiter None (k_ins k) want with
  | None => None
  | Some (ins', got, _) =>
      let '(t1, spill) := t_push (k_tank k) got false in
      let '(t2, _) := t_push t1 spill true in
      Some (k_with k t2 (k_outs k) ins' (k_envsat k))
  end.
Definition rr_push_set (k : knode) (v : vqip) : option (knode * vqip) :=
  let '(t1, _) := t_push (k_tank k) v true in
  let '(t2, spill) := t_pull_ponded t1 in
  match push_distributed S P maxiter (Some [T_NODE; T_RIVER; T_WASTE]) (k_outs k) spill with
  | None => None
  | Some (outs', reply, _) =>
      let envsat := Qred (k_envsat k + (vol spill - vol reply)) in
      (* a reservoir that was above its capacity spilled that too: what could not go downstream stays,
         at most the push itself is handed back *)
      if Qlt_le_dec (vol v) (vol reply) then
        let surplus := vchange reply (vol reply - vol v) in
        let '(t3, _) := t_push t2 surplus true in
        Some (k_with k t3 outs' (k_ins k) envsat, vsub reply surplus)
      else Some (k_with k t2 outs' (k_ins k) envsat, reply)
  end.
Definition rr_push_check (k : knode) (ov : option vqip) : vqip :=
  let downstream := c_avail (get_connected S P true (Some [T_NODE; T_RIVER; T_WASTE]) (k_outs k)) in
  let excess := t_get_excess (k_tank k) None in
  let new_v := vol excess + downstream in
  vchange excess (match ov with Some v => Qmin (vol v) new_v | None => new_v end).
Definition rr_satisfy_environmental (k : knode) : option knode :=
  let to_satisfy := Qmax (k_env k - k_envsat k) 0 in
  let '(t1, environmental) := t_pull (k_tank k) to_satisfy in
  match push_distributed S P maxiter None (k_outs k) environmental with
  | None => None
  | Some (outs', reply, _) =>
      let '(t2, _) := t_push t1 reply true in
      Some (k_with k t2 outs' (k_ins k) (Qred (k_envsat k + (vol environmental - vol reply))))
  end.

(* close-out *)
Definition k_end (k : knode) (T : Q) : knode := k_with k (t_end (k_tank k) T) (k_outs k) (k_ins k) 0.

(* ---------------- Catchment ---------------- *)
(* get_flow: the data row (flow, concentrations, qualities) turned into a flux *)
Definition ca_get_flow (flow : Q) (conc quality : vec) : vqip :=
  vnorm (mkV flow (map (fun c => c * flow) conc) quality).
(* what is left after abstractions recorded on the out-arcs *)
Definition ca_get_avail (outs : star S) (flow : Q) (conc quality : vec) : vqip :=
  fold_left (fun av x => vchange av (vol av - vol (a_vin (sa_a S x)))) outs (ca_get_flow flow conc quality).
Definition ca_route (outs : star S) (unrouted : vqip) (flow : Q) (conc quality : vec)
  : option (star S * vqip) :=
  match push_distributed S P maxiter (Some [T_NODE; T_RIVER; T_WASTE]) outs (ca_get_avail outs flow conc quality) with
  | None => None
  | Some (outs', reply, _) => Some (outs', vsum unrouted reply)
  end.
Definition ca_pull_check (outs : star S) (flow : Q) (conc quality : vec) (ov : option Q) : vqip :=
  let av := ca_get_avail outs flow conc quality in
  match ov with None => av | Some q => vchange av (Qmin (vol av) q) end.
Definition ca_pull_set (outs : star S) (flow : Q) (conc quality : vec) (q : Q) : vqip :=
  let av := ca_get_avail outs flow conc quality in vchange av (Qmin (vol av) q).
(* an abstraction of q through the catchment's out-arc number j (the downstream node pulls) *)
Fixpoint update_nth {A} (l : list A) (j : nat) (f : A -> A) : list A :=
  match l, j with
  | [], _ => []
  | x :: r, O => f x :: r
  | x :: r, Datatypes.S j' => x :: update_nth r j' f
  end.
Definition ca_abstract (outs : star S) (flow : Q) (conc quality : vec) (j : nat) (q : Q) : star S * vqip :=
  match nth_error outs j with
  | None => (outs, vzero)
  | Some x =>
      let a := sa_a S x in
      let ne := ca_pull_check outs flow conc quality (Some q) in
      let excess := Qmin (a_cap a - a_fin a) (vol ne) in
      let volume := q - Qmax (q - excess) 0 in
      let got := ca_pull_set outs flow conc quality volume in
      (update_nth outs j (fun y => mkSA S (a_record (sa_a S y) got) (sa_pref S y) (sa_s S y) (sa_ty S y)), got)
  end.
End Kinds.
