(* Demand.v — executable model of wsimod/nodes/demand.py: Demand.create_demand for the plain Demand (one item: the
   constant demand with its pollutant load, pushed to every neighbour) and for ResidentialDemand (garden water asked of
   Land neighbours times the gardening efficiency, pushed to Land; house water = Boundary.house_demand, pushed to
   Sewers).  A demand node gathers the total from its in-arcs (pull_distributed), pushes each item onwards and keeps the
   three accounts it declares in its mass balance: total_demand (in), total_backup and total_received (out).
   Model file, no proofs (DemandLaws.v). *)
From Coq Require Import QArith Qminmax List Bool Arith.
From WSI Require Import Vqip Pow Tank Arc Distrib Kinds TimeArea Boundary.
Import ListNotations.
Open Scope Q_scope.

Section Demand.
Variable S : Type.
Variable P : port S.
Variable maxiter : nat.

Record dmnode := mkDM { dm_ins : star S; dm_outs : star S; dm_demand : vqip; dm_backup : vqip; dm_received : vqip }.

(* the items of a timestep: (water, neighbour types it is sent to) *)
Definition item := (vqip * option (list nat))%type.
Definition items_plain (constant_demand : Q) (load : vec) (nn : nat) : list item :=
  [(vnorm (mkV constant_demand load (repeat 0 nn)), None)].
Definition items_residential (n : dmnode) (na nn : nat) (efficiency : Q) (house : vqip) : list item :=
  let excess := c_avail (get_connected S P true (Some [T_LAND]) (dm_outs n)) in
  [(vnorm (mkV (excess * efficiency) (repeat 0 na) (repeat 0 nn)), Some [T_LAND]); (house, Some [T_SEWER])].

Fixpoint push_items (outs : star S) (backup : vqip) (its : list item) : option (star S * vqip) :=
  match its with
  | [] => Some (outs, backup)
  | (v, ot) :: r =>
      match push_distributed S P maxiter ot outs v with
      | None => None
      | Some (outs', remaining, _) => push_items outs' (vsum backup remaining) r
      end
  end.

Definition dm_create (n : dmnode) (its : list item) : option dmnode :=
  let total := fold_left (fun acc (i : item) => acc + vol (fst i)) its 0 in
  match pull_distributed S P maxiter None (dm_ins n) total with
  | None => None
  | Some (ins', got, _) =>
      match push_items (dm_outs n) (dm_backup n) its with
      | None => None
      | Some (outs', backup') =>
          Some (mkDM ins' outs' (fold_left (fun acc (i : item) => vsum acc (fst i)) its (dm_demand n)) backup' got)
      end
  end.

Definition dm_end (n : dmnode) : dmnode := mkDM (dm_ins n) (dm_outs n) vzero vzero vzero.

End Demand.
