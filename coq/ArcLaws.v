(* ArcLaws.v — laws of the plain / pull-only / push-only arc model (Arc.v)
   against ARBITRARY end nodes that respect the reply contract: a receiver
   answers a wet offer with a remainder between nothing and the offer and gains
   exactly the difference; a supplier returns at most what was asked, nothing
   negative, and loses exactly what it returns.  Everything is stated over the
   interpreter step Arc.arc_do that the correspondence check runs against
   wsimod.arcs.arcs.{Arc, PullArc, PushArc}. *)
From Coq Require Import QArith Qminmax Lqa Lia List Bool Setoid Morphisms.
From WSI Require Import Vqip Pow Enc Tank Arc QTank Run TankLaws.
Import ListNotations.
Open Scope Q_scope.

Arguments p_push_check {S}. Arguments p_push_set {S}. Arguments p_pull_check {S}. Arguments p_pull_set {S}.

(* ---- flux lemmas used by every arc proof ---- *)
Lemma firstn_In_local {A} (n : nat) (l : list A) x : In x (firstn n l) -> In x l.
Proof. intros H. rewrite <- (firstn_skipn n l). apply in_or_app; left; exact H. Qed.
Lemma Forall_firstn {A} (Pr : A -> Prop) n l : Forall Pr l -> Forall Pr (firstn n l).
Proof. intros H. apply Forall_forall. intros o Ho. apply (proj1 (Forall_forall _ _) H). eapply firstn_In_local; exact Ho. Qed.

Lemma wet_zero : wet vzero.
Proof. split; [apply nonneg_zero | intros _ k; change (get [] k == 0); rewrite get_nil; reflexivity]. Qed.

Lemma wet_part t x : wet t -> 0 <= x <= vol t -> wet (vchange t x).
Proof.
  intros [Hn Hd] Hx. split.
  - intros c Hc. apply (change_within c t x Hc Hn Hx Hd).
  - intros Hv k. rewrite vol_change in Hv.
    destruct (Qlt_le_dec 0 (vol t)) as [Hp|Hp].
    + rewrite add_change_pos by exact Hp. assert (x == 0) by lra. rewrite H. unfold Qdiv. ring.
    + rewrite add_change_dry by exact Hp. apply Hd; exact Hp.
Qed.

Lemma wet_rest t x : wet t -> 0 <= x <= vol t -> wet (vsub t (vchange t x)).
Proof.
  intros Hw Hx. pose proof Hw as [Hn Hd]. split.
  - intros c Hc. rewrite cmp_sub by exact Hc.
    pose proof (change_within c t x Hc Hn Hx Hd). lra.
  - intros Hv k. rewrite vol_sub, vol_change in Hv. rewrite add_sub.
    destruct (Qlt_le_dec 0 (vol t)) as [Hp|Hp].
    + rewrite add_change_pos by exact Hp. assert (E : x == vol t) by lra. rewrite E. field. lra.
    + rewrite add_change_dry by exact Hp. ring.
Qed.

Lemma rest_plus_part c t x : conserved c ->
  cmp c (vsub t (vchange t x)) + cmp c (vchange t x) == cmp c t.
Proof. intros Hc. rewrite cmp_sub by exact Hc. ring. Qed.

Section PlainArc.
Variable S : Type.
Variable P : port S.

(* The reply contract of the two end nodes.  [okS] is whatever invariant the
   ends need (for tanks: non-negative contents); [sto_out] / [sto_in] are what
   the receiving end and the supplying end hold. *)
Record contract := mkC {
  okS : S -> Prop;
  sto_out : S -> vqip;
  sto_in : S -> vqip;
  c_push_check : forall s ov, okS s -> (match ov with Some v => 0 <= vol v | None => True end) ->
     0 <= vol (p_push_check P s ov);
  c_pull_check : forall s ov, okS s -> (match ov with Some q => 0 <= q | None => True end) ->
     0 <= vol (p_pull_check P s ov);
  c_push_set : forall s v, okS s -> wet v ->
     okS (fst (p_push_set P s v)) /\
     (forall c, conserved c -> 0 <= cmp c (snd (p_push_set P s v)) <= cmp c v) /\
     (forall c, conserved c -> cmp c (sto_out (fst (p_push_set P s v))) ==
                               cmp c (sto_out s) + cmp c v - cmp c (snd (p_push_set P s v))) /\
     (forall c, conserved c -> cmp c (sto_in (fst (p_push_set P s v))) == cmp c (sto_in s));
  c_pull_set : forall s q, okS s -> 0 <= q ->
     okS (fst (p_pull_set P s q)) /\
     nonneg (snd (p_pull_set P s q)) /\ vol (snd (p_pull_set P s q)) <= q /\
     (forall c, conserved c -> cmp c (sto_in (fst (p_pull_set P s q))) ==
                               cmp c (sto_in s) - cmp c (snd (p_pull_set P s q))) /\
     (forall c, conserved c -> cmp c (sto_out (fst (p_pull_set P s q))) == cmp c (sto_out s))
}.
Variable K : contract.

(* well-formed arc record: admitted flow within capacity, in and out records agree *)
Definition arc_ok (a : arc) : Prop :=
  0 <= a_fin a <= a_cap a /\ a_fout a == a_fin a /\ a_vout a = a_vin a /\
  nonneg (a_vin a) /\ vol (a_vin a) == a_fin a.

Lemma a_init_ok cap : 0 <= cap -> arc_ok (a_init cap).
Proof.
  intros H. unfold arc_ok, a_init; cbn. repeat split; try lra; try reflexivity. apply nonneg_zero.
Qed.
Lemma a_end_ok a : arc_ok a -> arc_ok (a_end a).
Proof.
  intros (H1 & _). unfold arc_ok, a_end; cbn. repeat split; try lra; try reflexivity. apply nonneg_zero.
Qed.

Lemma excess_push_vol a s ov :
  vol (a_excess_push S P a s ov) == Qmin (a_cap a - a_fin a) (vol (p_push_check P s ov)).
Proof. unfold a_excess_push. apply vol_change. Qed.
Lemma excess_pull_vol a s ov :
  vol (a_excess_pull S P a s ov) == Qmin (a_cap a - a_fin a) (vol (p_pull_check P s ov)).
Proof. unfold a_excess_pull. apply vol_change. Qed.

(* what the record looks like after a_record *)
Lemma a_record_spec a v :
  a_fin (a_record a v) == a_fin a + vol v /\ a_fout (a_record a v) = a_fin (a_record a v) /\
  a_vout (a_record a v) = a_vin (a_record a v) /\ a_cap (a_record a v) = a_cap a /\
  (forall c, conserved c -> cmp c (a_vin (a_record a v)) == cmp c (a_vin a) + cmp c v).
Proof.
  unfold a_record; cbn. repeat split; try reflexivity; [apply Qred_correct|].
  intros c Hc. apply cmp_sum; exact Hc.
Qed.

(* ---------------- push over a plain arc ---------------- *)
Section Push.
Variables (a : arc) (s : S) (v : vqip).
Hypothesis Hok : okS K s.
Hypothesis Hw : wet v.
Hypothesis Ha : arc_ok a.

Let E := vol (a_excess_push S P a s (Some v)).
Let x := Qmax (vol v - E) 0.
Let np := vchange v x.
Let v1 := vsub v np.
Let res := p_push_set P s v1.
Let a' := fst (fst (a_send_push S P a s v false)).
Let s' := snd (fst (a_send_push S P a s v false)).
Let r := snd (a_send_push S P a s v false).

Lemma push_E_range : 0 <= E <= a_cap a - a_fin a.
Proof.
  unfold E. rewrite excess_push_vol. destruct Ha as ((H1 & H2) & _).
  pose proof (c_push_check K s (Some v) Hok (proj1 Hw SVol I)).
  split; [apply Q.min_glb; lra | apply Q.le_min_l].
Qed.
Lemma push_x_range : 0 <= x <= vol v.
Proof.
  pose proof push_E_range as [H1 H2]. pose proof (proj1 Hw SVol I) as Hv; cbn [cmp] in Hv.
  unfold x. split; [apply Q.le_max_r | apply Q.max_lub; lra].
Qed.
Lemma push_v1_wet : wet v1.
Proof. apply wet_rest; [exact Hw | exact push_x_range]. Qed.
Lemma push_v1_vol : vol v1 == vol v - x /\ vol v1 <= E.
Proof.
  unfold v1, np. rewrite vol_sub, vol_change. split; [reflexivity|].
  unfold x. destruct (Q.max_spec (vol v - E) 0) as [[H0 H]|[H0 H]]; rewrite H; lra.
Qed.

Lemma push_unfold :
  a' = a_record a (vsub v1 (snd res)) /\ s' = fst res /\ r = vsum (snd res) np.
Proof.
  unfold a', s', r, a_send_push. fold E. fold x. fold np. fold v1. fold res.
  destruct res as [s1 rep]. cbn. repeat split.
Qed.

(* The arc-level statement of C04 (push), C05 (admission) and C06 (signs). *)
Theorem a_push_spec :
  okS K s' /\ arc_ok a' /\
  (forall c, conserved c -> 0 <= cmp c r <= cmp c v) /\
  (forall c, conserved c -> cmp c (a_vin a') == cmp c (a_vin a) + (cmp c v - cmp c r)) /\
  (forall c, conserved c -> cmp c (sto_out K s') == cmp c (sto_out K s) + (cmp c v - cmp c r)) /\
  (forall c, conserved c -> cmp c (sto_in K s') == cmp c (sto_in K s)) /\
  a_fin a' == a_fin a + (vol v - vol r) /\ a_cap a' = a_cap a.
Proof.
  destruct push_unfold as (Ea & Es & Er).
  destruct (c_push_set K s v1 Hok push_v1_wet) as (C1 & C2 & C3 & C4). fold res in C1, C2, C3, C4.
  destruct (a_record_spec a (vsub v1 (snd res))) as (R1 & R2 & R3 & R4 & R5).
  pose proof push_x_range as Hx. pose proof push_E_range as HE. pose proof push_v1_vol as [V1 V2].
  assert (Hnp : forall c, conserved c -> 0 <= cmp c np <= cmp c v).
  { intros c Hc. apply change_within; [exact Hc | exact (proj1 Hw) | exact Hx | exact (proj2 Hw)]. }
  assert (Hsplit : forall c, conserved c -> cmp c v1 + cmp c np == cmp c v).
  { intros c Hc. apply rest_plus_part; exact Hc. }
  assert (Hr : forall c, conserved c -> cmp c r == cmp c (snd res) + cmp c np).
  { intros c Hc. rewrite Er. apply cmp_sum; exact Hc. }
  assert (Hd : forall c, conserved c -> cmp c (vsub v1 (snd res)) == cmp c v - cmp c r).
  { intros c Hc. rewrite cmp_sub by exact Hc. rewrite (Hr c Hc). pose proof (Hsplit c Hc). lra. }
  destruct Ha as ((F1 & F2) & F3 & F4 & F5 & F6).
  split; [rewrite Es; exact C1|].
  split.
  { rewrite Ea. unfold arc_ok. rewrite R2, R3, R4, R1.
    pose proof (Hd SVol I) as Hv; cbn [cmp] in Hv.
    pose proof (C2 SVol I) as Hc2; cbn [cmp] in Hc2. pose proof (Hr SVol I) as Hr0; cbn [cmp] in Hr0.
    pose proof (Hnp SVol I) as Hn0; cbn [cmp] in Hn0. unfold np in Hn0. rewrite vol_change in Hn0.
    assert (Hvol : vol (vsub v1 (snd res)) == vol v1 - vol (snd res)) by apply vol_sub.
    repeat split; try reflexivity; try lra.
    - intros c Hc. rewrite (R5 c Hc), (Hd c Hc). pose proof (F5 c Hc). pose proof (C2 c Hc).
      pose proof (Hr c Hc). pose proof (Hsplit c Hc). pose proof (Hnp c Hc). lra.
    - pose proof (R5 SVol I) as H5; cbn [cmp] in H5. rewrite H5. lra. }
  split.
  { intros c Hc. rewrite (Hr c Hc). pose proof (C2 c Hc). pose proof (Hnp c Hc). pose proof (Hsplit c Hc). lra. }
  split.
  { intros c Hc. rewrite Ea, (R5 c Hc), (Hd c Hc). reflexivity. }
  split.
  { intros c Hc. rewrite Es, (C3 c Hc), (Hr c Hc). pose proof (Hsplit c Hc). lra. }
  split.
  { intros c Hc. rewrite Es. apply C4; exact Hc. }
  split.
  { rewrite Ea, R1. pose proof (Hd SVol I) as Hv; cbn [cmp] in Hv. lra. }
  rewrite Ea. exact R4.
Qed.
End Push.

(* ---------------- pull over a plain arc ---------------- *)
Section Pull.
Variables (a : arc) (s : S) (q : Q).
Hypothesis Hok : okS K s.
Hypothesis Hq : 0 <= q.
Hypothesis Ha : arc_ok a.
Let a' := fst (fst (a_send_pull S P a s q)).
Let s' := snd (fst (a_send_pull S P a s q)).
Let r := snd (a_send_pull S P a s q).

Theorem a_pull_spec :
  okS K s' /\ arc_ok a' /\ nonneg r /\ vol r <= q /\
  (forall c, conserved c -> cmp c (a_vin a') == cmp c (a_vin a) + cmp c r) /\
  (forall c, conserved c -> cmp c (sto_in K s') == cmp c (sto_in K s) - cmp c r) /\
  (forall c, conserved c -> cmp c (sto_out K s') == cmp c (sto_out K s)) /\
  a_fin a' == a_fin a + vol r /\ a_cap a' = a_cap a.
Proof.
  unfold a', s', r, a_send_pull.
  set (E := vol (a_excess_pull S P a s (Some q))).
  set (volume := q - Qmax (q - E) 0).
  assert (HE : 0 <= E <= a_cap a - a_fin a).
  { unfold E. rewrite excess_pull_vol. destruct Ha as ((H1 & H2) & _).
    pose proof (c_pull_check K s (Some q) Hok Hq). split; [apply Q.min_glb; lra | apply Q.le_min_l]. }
  assert (Hv : 0 <= volume <= q /\ volume <= E).
  { unfold volume. destruct (Q.max_spec (q - E) 0) as [[H0 H]|[H0 H]]; rewrite H; lra. }
  assert (Hv' : 0 <= Qred volume) by (rewrite Qred_correct; lra).
  destruct (c_pull_set K s (Qred volume) Hok Hv') as (C1 & C2 & C3 & C4 & C5).
  destruct (p_pull_set P s (Qred volume)) as [s1 got] eqn:Eg. cbn [fst snd] in *.
  rewrite Qred_correct in C3.
  destruct (a_record_spec a got) as (R1 & R2 & R3 & R4 & R5).
  destruct Ha as ((F1 & F2) & F3 & F4 & F5 & F6).
  pose proof (C2 SVol I) as G0; cbn [cmp] in G0.
  split; [exact C1|]. split.
  { unfold arc_ok. rewrite R2, R3, R4, R1. repeat split; try reflexivity; try lra.
    - intros c Hc. rewrite (R5 c Hc). pose proof (F5 c Hc). pose proof (C2 c Hc). lra.
    - pose proof (R5 SVol I) as H5; cbn [cmp] in H5. rewrite H5. lra. }
  split; [exact C2|]. split; [lra|]. split; [exact R5|]. split; [exact C4|]. split; [exact C5|].
  split; [exact R1 | exact R4].
Qed.
End Pull.

(* ---------------- checks never change anything; denials ---------------- *)
Lemma arc_check_pure k a s o : (match o with APushCheck _ | APullCheck _ | ADs | ASetT _ => True | _ => False end) ->
  fst (arc_do S P k a s o) = (a, s).
Proof. destruct o; intros H; try destruct H; destruct k; reflexivity. Qed.

(* a pull-only arc never carries a push and hands the offer back intact;
   a push-only arc never carries a pull *)
Theorem pullarc_never_pushes a s v f t :
  arc_do S P KPullArc a s (APush v f t) = (a, s, v) /\
  forall ov, arc_do S P KPullArc a s (APushCheck ov) = (a, s, vzero).
Proof. split; reflexivity. Qed.
Theorem pusharc_never_pulls a s q t :
  arc_do S P KPushArc a s (APull q t) = (a, s, vzero) /\
  forall ov, arc_do S P KPushArc a s (APullCheck ov) = (a, s, vzero).
Proof. split; reflexivity. Qed.

(* ---------------- every operation sequence, every prefix ---------------- *)
(* admissible operations: wet offers, non-negative requests, no arc-level force *)
Definition op_ok (o : aop) : Prop :=
  match o with
  | APush v f _ => wet v /\ f = false
  | APull q _ => 0 <= q
  | _ => True
  end.
Definition arc_run (k : akind) (st : arc * S) (ops : list aop) : arc * S :=
  fold_left (fun st o => fst (arc_do S P k (fst st) (snd st) o)) ops st.

Lemma arc_do_inv k a s o : op_ok o -> okS K s -> arc_ok a ->
  arc_ok (fst (fst (arc_do S P k a s o))) /\ okS K (snd (fst (arc_do S P k a s o))) /\
  a_cap (fst (fst (arc_do S P k a s o))) = a_cap a.
Proof.
  intros Ho Hs Ha.
  assert (Triv : arc_ok a /\ okS K s /\ a_cap a = a_cap a) by (split; [exact Ha | split; [exact Hs | reflexivity]]).
  destruct o as [v f t|q t|ov|ov| | |T]; cbn [arc_do].
  - destruct Ho as [Hw Hf]; subst f. destruct k; cbn [fst snd]; try exact Triv;
      destruct (a_push_spec a s v Hs Hw Ha) as (H1 & H2 & _ & _ & _ & _ & _ & H8);
      (split; [exact H2 | split; [exact H1 | exact H8]]).
  - cbn in Ho. destruct k; cbn [fst snd]; try exact Triv;
      destruct (a_pull_spec a s q Hs Ho Ha) as (H1 & H2 & _ & _ & _ & _ & _ & _ & H9);
      (split; [exact H2 | split; [exact H1 | exact H9]]).
  - destruct k; cbn [fst snd]; exact Triv.
  - destruct k; cbn [fst snd]; exact Triv.
  - cbn [fst snd]. split; [apply a_end_ok; exact Ha | split; [exact Hs | reflexivity]].
  - cbn [fst snd]; exact Triv.
  - cbn [fst snd]; exact Triv.
Qed.

Theorem arc_run_inv k ops : forall a s, Forall op_ok ops -> okS K s -> arc_ok a ->
  arc_ok (fst (arc_run k (a, s) ops)) /\ okS K (snd (arc_run k (a, s) ops)) /\
  a_cap (fst (arc_run k (a, s) ops)) = a_cap a.
Proof.
  induction ops as [|o ops IH]; intros a s Hf Hs Ha; cbn [arc_run fold_left].
  - split; [exact Ha | split; [exact Hs | reflexivity]].
  - inversion Hf as [|o' l' Ho Hl]; subst.
    destruct (arc_do_inv k a s o Ho Hs Ha) as (H1 & H2 & H3). cbn [fst snd].
    destruct (arc_do S P k a s o) as [[a1 s1] r1]. cbn [fst snd] in *.
    destruct (IH a1 s1 Hl H2 H1) as (I1 & I2 & I3). fold (arc_run k (a1, s1) ops).
    split; [exact I1 | split; [exact I2 | congruence]].
Qed.

(* hence at every prefix of every admissible sequence the admitted flow is within capacity *)
Corollary arc_admission_every_prefix k ops n a s : Forall op_ok ops -> okS K s -> arc_ok a ->
  let a' := fst (arc_run k (a, s) (firstn n ops)) in 0 <= a_fin a' <= a_cap a.
Proof.
  intros Hf Hs Ha.
  assert (Hp : Forall op_ok (firstn n ops)) by (apply Forall_firstn; exact Hf).
  destruct (arc_run_inv k (firstn n ops) a s Hp Hs Ha) as ((H1 & _) & _ & H3). cbn. rewrite <- H3. exact H1.
Qed.

(* flow_in is reset only at a timestep end: any non-AEnd operation never lowers it *)
Lemma arc_flow_monotone k a s o : op_ok o -> okS K s -> arc_ok a -> o <> AEnd ->
  a_fin a <= a_fin (fst (fst (arc_do S P k a s o))).
Proof.
  intros Ho Hs Ha Hne. destruct o as [v f t|q t|ov|ov| | |T]; cbn [arc_do]; try congruence.
  - destruct Ho as [Hw Hf]; subst f. destruct k; cbn [fst]; try lra;
      destruct (a_push_spec a s v Hs Hw Ha) as (_ & _ & H3 & _ & _ & _ & H7 & _);
      pose proof (H3 SVol I) as H0; cbn [cmp] in H0; lra.
  - cbn in Ho. destruct k; cbn [fst]; try lra;
      destruct (a_pull_spec a s q Hs Ho Ha) as (_ & _ & H3 & _ & _ & _ & _ & H8 & _);
      pose proof (H3 SVol I) as H0; cbn [cmp] in H0; lra.
  - destruct k; cbn [fst]; lra.
  - destruct k; cbn [fst]; lra.
  - cbn [fst]; lra.
  - cbn [fst]; lra.
Qed.
End PlainArc.

(* ---------------- the contract is met by tank-backed end nodes ---------------- *)
(* (the neighbours the correspondence check runs the implementation against) *)
Definition tanks_ok (s : nb * nb) : Prop :=
  match s with
  | (NT ti, NT to) => nonneg (t_sto ti) /\ nonneg (t_sto to)
  | _ => False
  end.
Definition nb_sto (n : nb) : vqip := match n with NT t => t_sto t | NS _ => vzero end.

Lemma tank_excess_nonneg t ov : (match ov with Some x => 0 <= x | None => True end) ->
  0 <= vol (t_get_excess t ov).
Proof.
  intros H. rewrite t_excess_vol. destruct ov as [x|]; [apply Q.min_glb; [exact H|] |]; apply Q.le_max_r.
Qed.
Lemma tank_avail_nonneg t ov : nonneg (t_sto t) -> (match ov with Some x => 0 <= x | None => True end) ->
  0 <= vol (t_get_avail t ov).
Proof.
  intros Hn H. pose proof (Hn SVol I) as H0; cbn [cmp] in H0. unfold t_get_avail. destruct ov as [x|]; [|exact H0].
  rewrite vol_change. apply Q.min_glb; assumption.
Qed.

Definition tank_contract : contract (nb * nb) nbport.
Proof.
  refine (mkC (nb * nb) nbport tanks_ok (fun s => nb_sto (snd s)) (fun s => nb_sto (fst s)) _ _ _ _).
  - intros [[ti|?] [to|?]] ov H Hov; try destruct H. cbn.
    apply tank_excess_nonneg. destruct ov; exact Hov.
  - intros [[ti|?] [to|?]] ov H Hov; try destruct H. cbn. apply tank_avail_nonneg; assumption.
  - intros [[ti|?] [to|?]] v H Hw; try destruct H as [Hi Ho]; try destruct H.
    cbn [nbport p_push_set fst snd nb_push_set].
    pose proof (t_push_nonneg to v false Ho Hw) as [N1 N2].
    pose proof (fun c Hc => t_push_conserves to v c Hc Hw) as Cs.
    pose proof (fun c Hc => t_push_reply_within to v c Hc Hw) as Rw.
    destruct (t_push to v false) as [t' r]. cbn [fst snd nb_sto tanks_ok] in *.
    repeat split; try assumption; try (apply Rw; assumption); try reflexivity.
    intros c Hc. pose proof (Cs c Hc). lra.
  - intros [[ti|?] [to|?]] q H Hq; try destruct H as [Hi Ho]; try destruct H.
    cbn [nbport p_pull_set fst snd nb_pull_set].
    pose proof (t_pull_nonneg ti q Hi Hq) as [N1 N2].
    pose proof (fun c Hc => t_pull_spec ti q c Hc Hi Hq) as Sp.
    destruct (t_pull ti q) as [t' r]. cbn [fst snd nb_sto tanks_ok] in *.
    repeat split; try assumption; try reflexivity.
    + destruct (Sp SVol I) as (_ & _ & H3). exact H3.
    + intros c Hc. destruct (Sp c Hc) as (_ & H2 & _). exact H2.
Defined.

(* tank-backed receivers answer wet offers with wet remainders *)
Lemma tank_wet_replies : forall s v, okS _ _ tank_contract s -> wet v -> forall k,
  vol (snd (p_push_set nbport s v)) <= 0 -> get (adds (snd (p_push_set nbport s v))) k == 0.
Proof.
  intros [[ti|?] [to|?]] v H Hw k; try destruct H. cbn [nbport p_push_set fst snd nb_push_set].
  pose proof (t_push_reply_cmp to v) as Hc.
  pose proof (t_push_reply_range to v (proj1 Hw SVol I)) as Hr. rewrite t_push_reply_vol in Hr.
  destruct (t_push to v false) as [t' r]. cbn [fst snd] in *. intros Hv.
  pose proof (Hc SVol) as Hv0; cbn [cmp] in Hv0. pose proof (Hc (SAdd k)) as Hk; cbn [cmp] in Hk.
  rewrite Hk. apply (proj2 (wet_part v _ Hw Hr)). rewrite <- Hv0. exact Hv.
Qed.
