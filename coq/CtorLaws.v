(* CtorLaws.v — the source tie of the ownership model of Params.v (C15), over the finite table that
   harness/gen_ctors.py regenerates from the tree under test on every run (gen/GenCtors.v): the
   default object of every constructor parameter with a mutable default is never stored where an
   in-place update can reach it, i.e. every such constructor is `construct_copy`, not
   `construct_alias`. *)
From Coq Require Import String List Bool.
From WSI.gen Require Import GenCtors.
Import ListNotations.
Open Scope string_scope.

Definition row_owned (r : string * string * bool) : bool := snd r.

(* finite by construction: the theorem is about exactly the generated table *)
Theorem ctors_own_their_defaults : forallb row_owned ctor_dicts = true.
Proof. vm_compute. reflexivity. Qed.

Theorem ctors_own_forall : forall c p b, In (c, p, b) ctor_dicts -> b = true.
Proof.
  intros c p b H. exact (proj1 (forallb_forall _ _) ctors_own_their_defaults _ H).
Qed.

(* the classes the ownership model was written for are in the table *)
Theorem anchored_rows_present :
  forallb (fun cp => existsb (fun r => String.eqb (fst (fst r)) (fst cp) && String.eqb (snd (fst r)) (snd cp)) ctor_dicts)
    [("Demand", "pollutant_load"); ("ResidentialDemand", "pollutant_load"); ("Surface", "pollutant_load");
     ("DecayTank", "decays"); ("DecayQueueTank", "decays"); ("NutrientPool", "degrhpar"); ("NutrientPool", "dishpar");
     ("NutrientPool", "minfpar"); ("NutrientPool", "disfpar"); ("NutrientPool", "immobdpar");
     ("NutrientPool", "fraction_manure_to_dissolved_inorganic"); ("NutrientPool", "fraction_residue_to_fast")] = true.
Proof. vm_compute. reflexivity. Qed.
