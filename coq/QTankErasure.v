(* QTankErasure.v — water quantity does not depend on pollutants (C20), queue tanks: two queue tanks that agree in
   capacity, travel time and in the VOLUME of everything they hold (declared contents, arrived part, every bucket of
   the internal queue, flow admitted by the internal arc) answer every operation with the same volumes and agree in
   the same way afterwards - whatever pollutants they track, whatever the concentrations, WHETHER OR NOT THEY DECAY
   (decay tables and temperatures are unconstrained): a QueueTank and a DecayQueueTank are hydraulically the same
   tank.  (Before the repair of DecayQueueTank._end_timestep this was false of the model: the decaying close-out did
   not release the due bucket.) *)
From Coq Require Import QArith Qminmax Lqa List Bool Arith Setoid Morphisms.
From WSI Require Import Vqip Pow Tank Arc QTank TankLaws Erasure.
Import ListNotations.
Open Scope Q_scope.

Definition same_buckets (b b' : list vqip) : Prop := Forall2 same_vol b b'.
Lemma sv_refl a : same_vol a a. Proof. unfold same_vol; reflexivity. Qed.
Lemma sv_zero_l a : vol a == 0 -> same_vol a vzero. Proof. unfold same_vol, vzero; cbn [vol]; intros ->; reflexivity. Qed.
Lemma sv_norm a b : same_vol a b -> same_vol (vnorm a) (vnorm b).
Proof. unfold same_vol, vnorm; cbn [vol]. rewrite !Qred_correct. auto. Qed.

(* decay never changes volume: a decayed flux and an undecayed one, or two decayed with different tables, agree *)
Lemma sv_decay_any (d d' : list (Q * Q)) T T' a b : same_vol a b ->
  same_vol (match d with [] => a | _ => fst (vdecay d T a) end) (match d' with [] => b | _ => fst (vdecay d' T' b) end).
Proof.
  intros H. unfold same_vol in *.
  destruct d, d'; rewrite ?(proj1 (vdecay_vol _ _ _)); exact H.
Qed.

Lemma sb_bget b b' k : same_buckets b b' -> same_vol (bget b k) (bget b' k).
Proof.
  intros H. revert k. induction H as [|x y b b' Hxy Hb IH]; intros k; unfold bget in *.
  - destruct k; apply sv_refl.
  - destruct k; cbn [nth]; [exact Hxy | apply IH].
Qed.
Lemma sb_badd b b' k v w : same_buckets b b' -> same_vol v w -> same_buckets (badd b k v) (badd b' k w).
Proof.
  intros H Hv. revert b b' H. induction k as [|k IH]; intros b b' H.
  - destruct H as [|x y b b' Hxy Hb]; cbn [badd]; constructor; try assumption; try constructor.
    + apply sv_sum; [apply sv_refl | exact Hv].
    + apply sv_sum; assumption.
  - destruct H as [|x y b b' Hxy Hb]; cbn [badd]; constructor; try assumption.
    + apply sv_refl.
    + apply IH. constructor.
    + apply IH. exact Hb.
Qed.
Lemma sb_app b b' c c' : same_buckets b b' -> same_buckets c c' -> same_buckets (b ++ c) (b' ++ c').
Proof. intros H1 H2. induction H1; cbn [app]; [exact H2 | constructor; assumption]. Qed.
Lemma sb_tl b b' : same_buckets b b' -> same_buckets (tl b) (tl b').
Proof. intros H; destruct H; cbn [tl]; [constructor | assumption]. Qed.

(* the tank end of the internal arc *)
Lemma sv_qts_excess s s' : s_cap s == s_cap s' -> same_vol (s_sto s) (s_sto s') -> same_vol (qts_excess s) (qts_excess s').
Proof. intros Hc Hs. unfold qts_excess. apply sv_change. unfold same_vol in Hs. rewrite Hc, Hs. reflexivity. Qed.
Lemma sv_port_check s s' v w : s_cap s == s_cap s' -> same_vol (s_sto s) (s_sto s') -> same_vol v w ->
  same_vol (@p_push_check qts qt_port s (Some v)) (@p_push_check qts qt_port s' (Some w)).
Proof.
  intros Hc Hs Hv. cbn [qt_port p_push_check]. unfold same_vol; cbn [vol]. rewrite !Qred_correct.
  pose proof (sv_qts_excess s s' Hc Hs) as He. unfold same_vol in *. rewrite Hv, He. reflexivity.
Qed.

Lemma Qltb_proper a b c d : a == b -> c == d -> Qltb a c = Qltb b d.
Proof.
  intros H1 H2. unfold Qltb. destruct (Qlt_le_dec a c), (Qlt_le_dec b d); try reflexivity; exfalso; lra.
Qed.

Lemma sb_refl b : same_buckets b b.
Proof. induction b; constructor; [apply sv_refl | assumption]. Qed.
Lemma sb_sym b b' : same_buckets b b' -> same_buckets b' b.
Proof. intros H; induction H; constructor; [unfold same_vol in *; symmetry; assumption | assumption]. Qed.
Lemma sb_trans b b' b'' : same_buckets b b' -> same_buckets b' b'' -> same_buckets b b''.
Proof.
  intros H. revert b''. induction H as [|x y b b' Hxy Hb IH]; intros b'' H2; inversion H2; subst; constructor.
  - unfold same_vol in *. etransitivity; eassumption.
  - apply IH; assumption.
Qed.

(* ---------------- the internal arc, seen through volumes ---------------- *)
Definition same_l (l l' : altarc) : Prop :=
  a_cap (l_a l) == a_cap (l_a l') /\ a_fin (l_a l) == a_fin (l_a l') /\ l_n l = l_n l' /\ same_buckets (l_b l) (l_b l').

Lemma sl_set_T l l' T T' : same_l l l' -> same_l (l_set_T l T) (l_set_T l' T').
Proof. intros H; exact H. Qed.

Lemma sl_enter l l' time v w : same_l l l' -> same_vol v w -> same_l (l_enter l time v) (l_enter l' time w).
Proof.
  intros (Hc & Hf & Hn & Hb) Hv. unfold l_enter, same_l.
  assert (Hfin : forall x y : Q, Qred (a_fin (l_a l) + Qred (vol v / x)) == Qred (a_fin (l_a l') + Qred (vol w / x))).
  { intros x _. unfold same_vol in Hv. rewrite !Qred_correct, Hf, Hv. reflexivity. }
  destruct (l_dec l) as [|p d], (l_dec l') as [|p' d'].
  - cbn [l_a l_n l_b a_cap a_fin].
    split; [exact Hc | split; [apply Hfin; exact 0 | split; [exact Hn | apply sb_badd; assumption]]].
  - destruct (vdecay (p' :: d') (l_T l') w) as [w' df'] eqn:E'. cbn [l_a l_n l_b a_cap a_fin].
    split; [exact Hc | split; [apply Hfin; exact 0 | split; [exact Hn | apply sb_badd; [assumption|]]]].
    unfold same_vol in *. pose proof (proj1 (vdecay_vol (p' :: d') (l_T l') w)) as H. rewrite E' in H. cbn [fst] in H. rewrite H. exact Hv.
  - destruct (vdecay (p :: d) (l_T l) v) as [v' df] eqn:E. cbn [l_a l_n l_b a_cap a_fin].
    split; [exact Hc | split; [apply Hfin; exact 0 | split; [exact Hn | apply sb_badd; [assumption|]]]].
    unfold same_vol in *. pose proof (proj1 (vdecay_vol (p :: d) (l_T l) v)) as H. rewrite E in H. cbn [fst] in H. rewrite H. exact Hv.
  - destruct (vdecay (p :: d) (l_T l) v) as [v' df] eqn:E. destruct (vdecay (p' :: d') (l_T l') w) as [w' df'] eqn:E'.
    cbn [l_a l_n l_b a_cap a_fin].
    split; [exact Hc | split; [apply Hfin; exact 0 | split; [exact Hn | apply sb_badd; [assumption|]]]].
    unfold same_vol in *. pose proof (proj1 (vdecay_vol (p :: d) (l_T l) v)) as H. rewrite E in H. cbn [fst] in H.
    pose proof (proj1 (vdecay_vol (p' :: d') (l_T l') w)) as H'. rewrite E' in H'. cbn [fst] in H'. rewrite H, H'. exact Hv.
Qed.

(* update_queue into the tank itself: the due bucket becomes available, nothing comes back *)
Lemma sl_update l l' s s' : same_l l l' -> same_vol (s_act s) (s_act s') ->
  let r := l_update qts qt_port l s in let r' := l_update qts qt_port l' s' in
  snd r = vzero /\ snd r' = vzero /\ same_l (fst (fst r)) (fst (fst r')) /\
  s_cap (snd (fst r)) = s_cap s /\ s_sto (snd (fst r)) = s_sto s /\ s_sto_ (snd (fst r)) = s_sto_ s /\
  s_cap (snd (fst r')) = s_cap s' /\ s_sto (snd (fst r')) = s_sto s' /\ s_sto_ (snd (fst r')) = s_sto_ s' /\
  same_vol (s_act (snd (fst r))) (s_act (snd (fst r'))).
Proof.
  intros (Hc & Hf & Hn & Hb) Ha. unfold l_update. cbn [qt_port p_push_set fst snd].
  cbn [s_cap s_sto s_sto_ s_act].
  split; [reflexivity|]. split; [reflexivity|]. split.
  { unfold same_l. cbn [l_a l_n l_b a_cap a_fin].
    split; [exact Hc | split; [exact Hf | split; [exact Hn|]]].
    destruct Hb as [|x y b b' Hxy Hb']; constructor; [apply sv_refl | assumption]. }
  do 6 (split; [reflexivity|]).
  apply sv_sum; [exact Ha | apply sb_bget; exact Hb].
Qed.

Lemma sb_decayed d T b : same_buckets (map fst (map (vdecay d T) b)) b.
Proof.
  induction b as [|x b IH]; cbn [map]; constructor; [|exact IH].
  unfold same_vol. apply (proj1 (vdecay_vol d T x)).
Qed.

(* the buckets after a close-out, in volume: those of the plain shift, with or without decay *)
Lemma sb_end_view l :
  same_buckets (l_b (l_end l)) ((vsum (bget (l_b l) 0) (bget (l_b l) 1) :: tl (tl (l_b l))) ++ [vzero]).
Proof.
  unfold l_end. destruct (l_dec l) as [|p d] eqn:Ed; cbn [l_b]; [apply sb_refl|].
  set (dd := p :: d). set (T := l_T l).
  apply sb_app; [|apply sb_refl].
  destruct (l_b l) as [|x0 [|x1 r]]; unfold bget; cbn [map tl nth fst].
  - constructor; [|constructor]. apply sv_refl.
  - constructor; [|constructor]. unfold same_vol. rewrite !vol_sum.
    rewrite (proj1 (vdecay_vol dd T x0)). unfold vzero; cbn [vol]. ring.
  - constructor; [|apply sb_decayed]. unfold same_vol. rewrite !vol_sum.
    rewrite (proj1 (vdecay_vol dd T x0)), (proj1 (vdecay_vol dd T x1)). ring.
Qed.

Lemma sl_end l l' : same_l l l' -> same_l (l_end l) (l_end l').
Proof.
  intros (Hc & Hf & Hn & Hb). unfold same_l. repeat split.
  - unfold l_end; destruct (l_dec l), (l_dec l'); cbn [l_a a_end a_cap]; exact Hc.
  - unfold l_end; destruct (l_dec l), (l_dec l'); cbn [l_a a_end a_fin]; reflexivity.
  - unfold l_end; destruct (l_dec l), (l_dec l'); cbn [l_n]; exact Hn.
  - eapply sb_trans; [apply sb_end_view|]. eapply sb_trans; [|apply sb_sym, sb_end_view].
    apply sb_app; [|apply sb_refl]. constructor.
    + apply sv_sum; apply sb_bget; exact Hb.
    + apply sb_tl, sb_tl; exact Hb.
Qed.

(* ---------------- the queue tank ---------------- *)
(* what a queue reports as decayed carries no volume (true initially, kept by every operation) *)
Definition dry_report (l : altarc) : Prop := vol (l_decayed l) == 0.

Lemma dr_enter l time v : dry_report l -> dry_report (l_enter l time v).
Proof.
  unfold dry_report, l_enter. intros H. destruct (l_dec l) as [|p d]; cbn [l_decayed]; [exact H|].
  destruct (vdecay (p :: d) (l_T l) v) as [v' df] eqn:E. cbn [l_decayed].
  pose proof (proj2 (vdecay_vol (p :: d) (l_T l) v)) as H2. rewrite E in H2. cbn [snd] in H2.
  rewrite vol_sum, H, H2. reflexivity.
Qed.
Lemma fold_dry d T (r : list vqip) acc :
  vol (fold_left (fun a x => vsum a (snd x)) (map (vdecay d T) r) acc) == vol acc.
Proof.
  revert acc. induction r as [|x r IH]; intros acc; cbn [map fold_left]; [reflexivity|].
  rewrite IH, vol_sum, (proj2 (vdecay_vol d T x)). ring.
Qed.
Lemma dr_end l : dry_report l -> dry_report (l_end l).
Proof.
  unfold dry_report, l_end. intros H. destruct (l_dec l) as [|p d]; cbn [l_decayed]; [exact H|].
  set (dd := p :: d). set (T := l_T l).
  destruct (l_b l) as [|x0 [|x1 r]]; cbn [map tl nth fold_left snd].
  - rewrite !vol_sum. unfold vzero; cbn [vol]. ring.
  - rewrite !vol_sum, (proj2 (vdecay_vol dd T x0)). unfold vzero; cbn [vol]. ring.
  - rewrite fold_dry, !vol_sum, (proj2 (vdecay_vol dd T x0)), (proj2 (vdecay_vol dd T x1)). unfold vzero; cbn [vol]. ring.
Qed.

Definition same_qt (t u : qtank) : Prop :=
  s_cap (qt_s t) == s_cap (qt_s u) /\ same_vol (s_sto (qt_s t)) (s_sto (qt_s u)) /\
  same_vol (s_sto_ (qt_s t)) (s_sto_ (qt_s u)) /\ same_vol (s_act (qt_s t)) (s_act (qt_s u)) /\
  same_l (qt_l t) (qt_l u) /\ dry_report (qt_l t) /\ dry_report (qt_l u).

Lemma sv_excess_push l l' s s' v w : same_l l l' -> s_cap s == s_cap s' -> same_vol (s_sto s) (s_sto s') -> same_vol v w ->
  same_vol (a_excess_push qts qt_port (l_a l) s (Some v)) (a_excess_push qts qt_port (l_a l') s' (Some w)).
Proof.
  intros (Hc & Hf & _) Hcap Hs Hv. unfold a_excess_push. apply sv_change.
  pose proof (sv_port_check s s' v w Hcap Hs Hv) as H. unfold same_vol in H. rewrite Hc, Hf, H. reflexivity.
Qed.

Lemma l_update_decayed l s : l_decayed (fst (fst (l_update qts qt_port l s))) = l_decayed l.
Proof. reflexivity. Qed.

Theorem sq_push t u v w time force : same_qt t u -> same_vol v w ->
  same_qt (fst (qt_push t v time force)) (fst (qt_push u w time force)) /\
  same_vol (snd (qt_push t v time force)) (snd (qt_push u w time force)).
Proof.
  intros (Hcap & Hs & Hs_ & Ha & Hl & D & D') Hv. unfold qt_push. destruct force.
  - cbn [fst snd]. split; [|apply sv_refl].
    unfold same_qt; cbn [qt_s qt_l s_cap s_sto s_sto_ s_act].
    split; [exact Hcap | split; [apply sv_sum; assumption | split; [exact Hs_ | split; [apply sv_sum; assumption | split; [exact Hl | split; assumption]]]]].
  - unfold l_send_push.
    rewrite (Qltb_proper (vol v) (vol w) eps eps Hv (Qeq_refl eps)).
    destruct (Qltb (vol w) eps).
    + cbn [fst snd]. split; [|exact Hv].
      unfold same_qt; cbn [qt_s qt_l s_cap s_sto s_sto_ s_act].
      split; [exact Hcap | split; [| split; [exact Hs_ | split; [exact Ha | split; [exact Hl | split; assumption]]]]].
      apply sv_sum; [exact Hs|]. apply sv_change. unfold same_vol in Hv. rewrite Hv. reflexivity.
    + set (np := vchange v (Qmax (vol v - vol (a_excess_push qts qt_port (l_a (qt_l t)) (qt_s t) (Some v))) 0)).
      set (np' := vchange w (Qmax (vol w - vol (a_excess_push qts qt_port (l_a (qt_l u)) (qt_s u) (Some w))) 0)).
      assert (Hnp : same_vol np np').
      { apply sv_change. pose proof (sv_excess_push _ _ _ _ v w Hl Hcap Hs Hv) as H. unfold same_vol in H, Hv. rewrite H, Hv. reflexivity. }
      set (l1 := l_enter (qt_l t) (time + l_n (qt_l t)) (vsub v np)).
      set (l1' := l_enter (qt_l u) (time + l_n (qt_l u)) (vsub w np')).
      assert (Hl1 : same_l l1 l1').
      { pose proof Hl as (_ & _ & Hn & _). unfold l1, l1'. rewrite <- Hn. apply sl_enter; [exact Hl | apply sv_sub; assumption]. }
      assert (D1 : dry_report l1) by (apply dr_enter; exact D).
      assert (D1' : dry_report l1') by (apply dr_enter; exact D').
      pose proof (sl_update l1 l1' (qt_s t) (qt_s u) Hl1 Ha) as HU. cbv zeta in HU.
      pose proof (l_update_decayed l1 (qt_s t)) as E2. pose proof (l_update_decayed l1' (qt_s u)) as E2'.
      destruct (l_update qts qt_port l1 (qt_s t)) as [[l2 s2] back].
      destruct (l_update qts qt_port l1' (qt_s u)) as [[l2' s2'] back'].
      cbn [fst snd] in HU, E2, E2'. destruct HU as (B & B' & Hl2 & C1 & C2 & C3 & C1' & C2' & C3' & Hact). subst back back'.
      cbn [fst snd]. split.
      * unfold same_qt; cbn [qt_s qt_l s_cap s_sto s_sto_ s_act].
        rewrite C1, C2, C3, C1', C2', C3'.
        split; [exact Hcap | split; [| split; [exact Hs_ | split; [exact Hact|]]]].
        -- apply sv_sum; [exact Hs|]. apply sv_change. unfold same_vol in *. rewrite !vol_sum, Hv, Hnp. reflexivity.
        -- destruct Hl2 as (X1 & X2 & X3 & X4). unfold same_l, dry_report; cbn [l_a l_n l_b l_decayed a_cap a_fin].
           rewrite E2, E2'.
           split; [split; [exact X1 | split; [exact X2 | split; [exact X3 | exact X4]]] | split; assumption].
      * apply sv_sum; [exact Hnp | apply sv_refl].
Qed.

Theorem sq_pull t u q : same_qt t u ->
  same_qt (fst (qt_pull t q)) (fst (qt_pull u q)) /\ same_vol (snd (qt_pull t q)) (snd (qt_pull u q)).
Proof.
  intros (Hcap & Hs & Hs_ & Ha & Hl & D & D'). unfold qt_pull. cbn [fst snd].
  assert (Hr : same_vol (vchange (s_act (qt_s t)) (Qmin q (vol (s_act (qt_s t))))) (vchange (s_act (qt_s u)) (Qmin q (vol (s_act (qt_s u)))))).
  { apply sv_change. unfold same_vol in Ha. rewrite Ha. reflexivity. }
  split; [|exact Hr].
  unfold same_qt; cbn [qt_s qt_l s_cap s_sto s_sto_ s_act].
  split; [exact Hcap | split; [apply sv_sub; assumption | split; [exact Hs_ | split; [apply sv_sub; assumption | split; [exact Hl | split; assumption]]]]].
Qed.

Theorem sq_pull_exact t u v w : same_qt t u -> same_vol v w ->
  same_qt (fst (qt_pull_exact t v)) (fst (qt_pull_exact u w)) /\ same_vol (snd (qt_pull_exact t v)) (snd (qt_pull_exact u w)).
Proof.
  intros (Hcap & Hs & Hs_ & Ha & Hl & D & D') Hv. unfold qt_pull_exact. cbn [fst snd].
  match goal with |- _ /\ same_vol ?R ?R' => assert (Hr : same_vol R R') end.
  { apply sv_norm. unfold same_vol in *; cbn [vol]. rewrite Hv, Ha. reflexivity. }
  split; [|exact Hr].
  unfold same_qt; cbn [qt_s qt_l s_cap s_sto s_sto_ s_act].
  split; [exact Hcap | split; [apply sv_sub; assumption | split; [exact Hs_ | split; [apply sv_sub; assumption | split; [exact Hl | split; assumption]]]]].
Qed.

(* the close-out in volume, plain or decaying: contents unchanged, the queue moves on, the due bucket is released *)
Lemma qt_end_view x Tx : dry_report (qt_l x) ->
  let y := qt_end (qt_set_T x Tx) in
  let le := l_end (l_set_T (qt_l x) Tx) in
  s_cap (qt_s y) == s_cap (qt_s x) /\ same_vol (s_sto (qt_s y)) (s_sto (qt_s x)) /\
  same_vol (s_sto_ (qt_s y)) (s_sto (qt_s x)) /\
  same_vol (s_act (qt_s y)) (vsum (s_act (qt_s x)) (bget (l_b le) 0)) /\
  same_l (qt_l y) (fst (fst (l_update qts qt_port le (qt_s x)))) /\ dry_report (qt_l y).
Proof.
  intros D y le. unfold y, le, qt_end, qt_set_T. cbn [qt_l qt_s].
  assert (DE : dry_report (l_end (l_set_T (qt_l x) Tx))) by (apply dr_end; exact D).
  assert (EL : l_dec (l_set_T (qt_l x) Tx) = l_dec (qt_l x)) by reflexivity. rewrite EL.
  assert (ED : l_decayed (l_set_T (qt_l x) Tx) = l_decayed (qt_l x)) by reflexivity.
  destruct (l_dec (qt_l x)) as [|p d] eqn:Ed.
  - unfold l_update. cbn [qt_port p_push_set fst snd]. cbn [qt_s qt_l s_cap s_sto s_sto_ s_act].
    split; [reflexivity | split; [apply sv_refl | split; [apply sv_refl | split; [apply sv_refl | split; [|exact DE]]]]].
    unfold same_l; cbn [l_a l_n l_b a_cap a_fin]. split; [reflexivity | split; [reflexivity | split; [reflexivity | apply sb_refl]]].
  - unfold l_update. cbn [qt_port p_push_set fst snd]. cbn [qt_s qt_l s_cap s_sto s_sto_ s_act].
    unfold dry_report in D.
    split; [reflexivity|].
    split; [unfold same_vol; rewrite vol_sub, ED, D; ring |].
    split; [unfold same_vol; rewrite vol_sub, ED, D; ring |].
    split; [apply sv_refl|]. split; [|exact DE].
    unfold same_l; cbn [l_a l_n l_b a_cap a_fin]. split; [reflexivity | split; [reflexivity | split; [reflexivity | apply sb_refl]]].
Qed.

Theorem sq_end t u T T' : same_qt t u -> same_qt (qt_end (qt_set_T t T)) (qt_end (qt_set_T u T')).
Proof.
  intros (Hcap & Hs & Hs_ & Ha & Hl & D & D').
  pose proof (qt_end_view t T D) as V. pose proof (qt_end_view u T' D') as V'. cbv zeta in V, V'.
  destruct V as (V1 & V2 & V3 & V4 & V5 & V6). destruct V' as (W1 & W2 & W3 & W4 & W5 & W6).
  assert (HE : same_l (l_end (l_set_T (qt_l t) T)) (l_end (l_set_T (qt_l u) T'))) by (apply sl_end, sl_set_T; exact Hl).
  pose proof (sl_update _ _ (qt_s t) (qt_s u) HE Ha) as HU. cbv zeta in HU. destruct HU as (_ & _ & HU & _).
  unfold same_qt, same_vol in *.
  split; [rewrite V1, W1; exact Hcap|].
  split; [rewrite V2, W2; exact Hs|].
  split; [rewrite V3, W3; exact Hs|].
  split.
  { rewrite V4, W4, !vol_sum, Ha. pose proof (sb_bget _ _ 0%nat (proj2 (proj2 (proj2 HE)))) as HB. unfold same_vol in HB. rewrite HB. reflexivity. }
  split; [|split; assumption].
  destruct V5 as (A1 & A2 & A3 & A4), W5 as (B1 & B2 & B3 & B4), HU as (U1 & U2 & U3 & U4).
  split; [rewrite A1, B1; exact U1 | split; [rewrite A2, B2; exact U2 | split; [rewrite A3, B3; exact U3|]]].
  eapply sb_trans; [exact A4|]. eapply sb_trans; [exact U4|]. apply sb_sym; exact B4.
Qed.

(* queries *)
Theorem sq_queries t u ov ow : same_qt t u ->
  match ov, ow with Some v, Some w => same_vol v w | None, None => True | _, _ => False end ->
  same_vol (qt_push_check t ov) (qt_push_check u ow) /\ same_vol (qt_get_avail t) (qt_get_avail u) /\
  same_vol (qt_ds t) (qt_ds u).
Proof.
  intros (Hcap & Hs & Hs_ & Ha & Hl & _) Hov. split; [|split].
  - unfold qt_push_check. destruct ov as [v|], ow as [w|]; try contradiction.
    + apply sv_port_check; assumption.
    + cbn [qt_port p_push_check]. apply sv_qts_excess; assumption.
  - exact Ha.
  - unfold qt_ds, same_vol, vds, vnorm in *. cbn [vol]. rewrite !Qred_correct, Hs, Hs_. reflexivity.
Qed.

(* a fresh plain tank and a fresh decaying tank with the same dimensions and initial volume are related,
   whatever the decay table *)
Lemma sq_init cap v w n d d' : same_vol v w -> same_qt (qt_init cap v n d) (qt_init cap w n d').
Proof.
  intros H. unfold same_qt, qt_init, same_l, dry_report, l_init, a_init. cbn.
  repeat (split; try reflexivity; try exact H); try (apply sb_refl).
Qed.

(* re-initialisation: both forget everything *)
Lemma sq_reinit t u : same_qt t u -> same_qt (qt_reinit t) (qt_reinit u).
Proof.
  intros (Hcap & _ & _ & _ & (Hc & _ & Hn & _) & _ & _).
  unfold same_qt, qt_reinit, l_reinit, same_l, dry_report. cbn [qt_s qt_l s_cap s_sto s_sto_ s_act l_a l_n l_b l_decayed].
  assert (A : forall l, a_cap (l_a (l_end l)) = a_cap (l_a l) /\ a_fin (l_a (l_end l)) = 0 /\ l_n (l_end l) = l_n l).
  { intros l. unfold l_end. destruct (l_dec l); cbn [l_a l_n a_end a_cap a_fin]; repeat split; reflexivity. }
  destruct (A (qt_l t)) as (A1 & A2 & A3), (A (qt_l u)) as (B1 & B2 & B3).
  rewrite A1, A2, A3, B1, B2, B3.
  split; [exact Hcap|]. split; [apply sv_refl|]. split; [apply sv_refl|]. split; [apply sv_refl|].
  split; [|split; unfold vzero; cbn [vol]; reflexivity].
  split; [exact Hc|]. split; [reflexivity|]. split; [exact Hn|].
  constructor; [apply sv_refl|]. constructor; [apply sv_refl|]. constructor.
Qed.

(* whole histories: the same operations on a plain and a decaying queue tank (or two tanks with different pollutants)
   give the same volumes at every step *)
Definition same_op (o o' : qop) : Prop :=
  match o, o' with
  | QPush v time f, QPush w time' f' => same_vol v w /\ time = time' /\ f = f'
  | QPull q, QPull q' => q = q'
  | QPullExact v, QPullExact w => same_vol v w
  | QCheck (Some v), QCheck (Some w) => same_vol v w
  | QCheck None, QCheck None => True
  | QAvail, QAvail => True
  | QEnd _, QEnd _ => True                      (* temperatures are free *)
  | QDs, QDs => True
  | QSetT _, QSetT _ => True
  | QReinit, QReinit => True
  | _, _ => False
  end.

Theorem sq_do t u o o' : same_qt t u -> same_op o o' ->
  same_qt (fst (qtank_do t o)) (fst (qtank_do u o')) /\ same_vol (snd (qtank_do t o)) (snd (qtank_do u o')).
Proof.
  intros H Ho. destruct o as [v time f | q | v | ov | | T | | T |], o' as [w time' f' | q' | w | ow | | T' | | T' |];
    cbn [same_op] in Ho; try contradiction; try (destruct ov as [?|]; contradiction); cbn [qtank_do].
  - destruct Ho as (Hv & -> & ->). apply sq_push; assumption.
  - subst q'. apply sq_pull; assumption.
  - apply sq_pull_exact; assumption.
  - cbn [fst snd]. split; [exact H|]. destruct ov as [v|], ow as [w|]; try contradiction;
      [apply (sq_queries t u (Some v) (Some w) H Ho) | apply (sq_queries t u None None H I)].
  - cbn [fst snd]. split; [exact H | apply (sq_queries t u None None H I)].
  - cbn [fst snd]. split; [apply sq_end; exact H | apply sv_refl].
  - cbn [fst snd]. split; [exact H | apply (sq_queries t u None None H I)].
  - cbn [fst snd]. split; [|apply sv_refl].
    destruct H as (H1 & H2 & H3 & H4 & H5 & H6 & H7). unfold same_qt, qt_set_T; cbn [qt_s qt_l].
    split; [exact H1 | split; [exact H2 | split; [exact H3 | split; [exact H4 | split; [exact H5 | split; assumption]]]]].
  - cbn [fst snd]. split; [apply sq_reinit; exact H | apply sv_refl].
Qed.

Fixpoint qrun (t : qtank) (ops : list qop) : list vqip :=
  match ops with [] => [] | o :: r => snd (qtank_do t o) :: qrun (fst (qtank_do t o)) r end.
Theorem sq_run : forall ops ops' t u, same_qt t u -> Forall2 same_op ops ops' ->
  Forall2 same_vol (qrun t ops) (qrun u ops').
Proof.
  induction ops as [|o r IH]; intros ops' t u H F; inversion F; subst; cbn [qrun]; constructor.
  - apply sq_do; assumption.
  - apply IH; [apply sq_do; assumption | assumption].
Qed.
