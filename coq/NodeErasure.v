(* NodeErasure.v — water quantity does not depend on pollutants (C20), node functions: the volumes that the treatment
   step and the IHACRES equations produce are functions of volumes, hydraulic parameters and weather alone - whatever
   the pollutant lists, masses, qualities, process parameters and (for the treatment step) the temperature. *)
From Coq Require Import QArith Qminmax Lqa List Bool Arith Setoid Morphisms.
From WSI Require Import Vqip Pow Tank Arc Distrib Kinds TimeArea Boundary Wtw LandV TankLaws Erasure.
Import ListNotations.
Open Scope Q_scope.

(* the treatment step: effluent, liquor and solids volumes depend on the influent volume and the three hydraulic shares only
   (process parameters, liquor multipliers of pollutants and temperature are unconstrained) *)
Theorem sv_treat p q influent influent' treated treated' liquor liquor' :
  w_ps p == w_ps q -> w_lmvol p == w_lmvol q -> same_vol influent influent' -> same_vol treated treated' ->
  let r := w_treat p influent treated liquor in let r' := w_treat q influent' treated' liquor' in
  same_vol (fst (fst r)) (fst (fst r')) /\ same_vol (snd (fst r)) (snd (fst r')) /\ same_vol (snd r) (snd r').
Proof.
  intros Hps Hlm Hi Ht. unfold w_treat. cbn zeta. cbn [fst snd]. unfold same_vol in *.
  rewrite !vol_sum. unfold vnorm; cbn [vol]. rewrite !Qred_correct. unfold w_volconst.
  rewrite Hi, Ht, Hps, Hlm. repeat split; reflexivity.
Qed.

(* ---- IHACRES ----
   Volumes in the models are kept in lowest terms (every flux operation ends in vnorm), so "the same volume" can be
   taken as syntactic equality here; every store operation maps equal volumes to equal volumes. *)
Definition lsame (t u : tank) : Prop := t_cap t = t_cap u /\ vol (t_sto t) = vol (t_sto u).
Lemma lv_change a b x : vol a = vol b -> vol (vchange a x) = vol (vchange b x).
Proof. intros H. unfold vchange. rewrite H. destruct (Qlt_le_dec 0 (vol b)); cbn [vnorm vol]; rewrite ?H; reflexivity. Qed.
Lemma lv_sum a b c d : vol a = vol c -> vol b = vol d -> vol (vsum a b) = vol (vsum c d).
Proof. intros H1 H2. unfold vsum; cbn [vnorm vol]. rewrite H1, H2. reflexivity. Qed.
Lemma lv_sub a b c d : vol a = vol c -> vol b = vol d -> vol (vsub a b) = vol (vsub c d).
Proof. intros H1 H2. unfold vsub; cbn [vnorm vol]. rewrite H1, H2. reflexivity. Qed.
Lemma lv_excess t u : lsame t u -> vol (t_get_excess t None) = vol (t_get_excess u None).
Proof. intros [Hc Hs]. unfold t_get_excess. rewrite Hc, Hs. apply lv_change. exact Hs. Qed.
Lemma lv_push_forced t u v w : lsame t u -> vol v = vol w -> lsame (fst (t_push t v true)) (fst (t_push u w true)).
Proof. intros [Hc Hs] Hv. unfold t_push, lsame; cbn [fst t_with t_cap t_sto]. split; [exact Hc | apply lv_sum; assumption]. Qed.
Lemma lv_pull t u q : lsame t u ->
  lsame (fst (t_pull t q)) (fst (t_pull u q)) /\ vol (snd (t_pull t q)) = vol (snd (t_pull u q)).
Proof.
  intros [Hc Hs]. unfold t_pull. rewrite Hs. destruct (Qeq_bool (vol (t_sto u)) 0); cbn [fst snd].
  - split; [split; assumption | reflexivity].
  - assert (E : vol (vchange (t_sto t) (Qmin q (vol (t_sto u)))) = vol (vchange (t_sto u) (Qmin q (vol (t_sto u))))) by (apply lv_change; exact Hs).
    split; [|exact E]. unfold lsame; cbn [t_with t_cap t_sto]. split; [exact Hc | apply lv_sub; assumption].
Qed.
Lemma lv_evaporate t u e : lsame t u ->
  lsame (fst (t_evaporate t e)) (fst (t_evaporate u e)) /\ snd (t_evaporate t e) = snd (t_evaporate u e).
Proof.
  intros [Hc Hs]. unfold t_evaporate, lsame; cbn [fst snd t_with t_cap t_sto]. rewrite Hs.
  split; [split; [exact Hc | unfold vdistill; cbn [vnorm vol]; rewrite Hs; reflexivity] | reflexivity].
Qed.

(* two soil stores with the same capacity and the same volume give the same six volumes under the same weather and soil
   parameters, whatever they hold in pollutants and whatever the temperatures *)
Theorem lv_ihacres p area t u rain et0 T T' tn tn' : lsame t u ->
  let '(t1, ex, ssf, pc, pr, ev) := ihacres p area t rain et0 T tn in
  let '(u1, ex', ssf', pc', pr', ev') := ihacres p area u rain et0 T' tn' in
  lsame t1 u1 /\ vol ex = vol ex' /\ vol ssf = vol ssf' /\ vol pc = vol pc' /\ pr = pr' /\ ev = ev'.
Proof.
  intros Hst. pose proof Hst as [Hc Hs]. unfold ihacres. cbn zeta.
  rewrite (lv_excess t u Hst), Hs.
  match goal with |- context [if Qlt_le_dec 0 ?X then _ else _] => destruct (Qlt_le_dec 0 X) as [Hth|Hth] end.
  - match goal with |- context [t_push t ?V true] => set (v := V) end.
    match goal with |- context [t_push u ?V true] => set (w := V) end.
    assert (Hvw : vol v = vol w) by reflexivity.
    pose proof (lv_push_forced t u v w Hst Hvw) as H1.
    destruct (t_push t v true) as [t1 r1], (t_push u w true) as [u1 r1']. cbn [fst] in H1.
    match goal with |- context [t_pull t1 ?Q] => pose proof (lv_pull t1 u1 Q H1) as [H2 E2]; destruct (t_pull t1 Q) as [t2 s], (t_pull u1 Q) as [u2 s'] end.
    cbn [fst snd] in H2, E2.
    match goal with |- context [t_pull t2 ?Q] => pose proof (lv_pull t2 u2 Q H2) as [H3 E3]; destruct (t_pull t2 Q) as [t3 c3], (t_pull u2 Q) as [u3 c3'] end.
    cbn [fst snd] in H3, E3.
    repeat split; try assumption; try reflexivity; apply H3.
  - match goal with |- context [t_evaporate t ?E] => pose proof (lv_evaporate t u E Hst) as [H1 E1]; destruct (t_evaporate t E) as [t1 e1], (t_evaporate u E) as [u1 e1'] end.
    cbn [fst snd] in H1, E1.
    repeat split; try assumption; try reflexivity; apply H1.
Qed.
