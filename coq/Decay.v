(* Decay.v — temperature-dependent decay (property C11), proved about the
   translated generic_temperature_decay(_c).  `pow` (Python's `**`) is a
   section variable; the two facts the proofs need are section hypotheses,
   discharged below for the executable surrogate pow_s (which coincides with
   exact exponentiation at integer exponents). *)
From Coq Require Import QArith Qminmax Qround Qpower Lqa Lia List Bool Setoid Morphisms.
From WSI Require Import Vqip Pow CoreLaws.
From WSI.gen Require Import GenCore.
Import ListNotations.
Open Scope Q_scope.

Definition dref : Q := 20#1.   (* constants.DECAY_REFERENCE_TEMPERATURE, checked by props/C11 *)

Section Decay.
Variable pow : Q -> Q -> Q.

Definition frac (T : Q) (p : Q * Q) : Q := Qmin (fst p * pow (snd p) (T - dref)) 1.
Definition fracs (T : Q) (d : list (Q * Q)) : vec := map (frac T) d.
Definition remaining t d T := fst (gen_generic_temperature_decay pow t d T).
Definition reported t d T := snd (gen_generic_temperature_decay pow t d T).

Lemma get_fracs T d k :
  (exists p, nth_error d k = Some p /\ get (fracs T d) k = frac T p) \/
  (nth_error d k = None /\ get (fracs T d) k = 0).
Proof.
  unfold fracs, get. revert k; induction d as [|p d IH]; intros [|k]; simpl.
  - right; split; reflexivity.
  - right; split; reflexivity.
  - left; exists p; split; reflexivity.
  - apply IH.
Qed.

Lemma rem_add t d T k :
  get (adds (remaining t d T)) k == get (adds t) k - get (adds t) k * get (fracs T d) k.
Proof.
  unfold remaining, gen_generic_temperature_decay; cbn [fst adds]. getsimp. reflexivity.
Qed.
Lemma rep_add t d T k :
  get (adds (reported t d T)) k == get (adds t) k * get (fracs T d) k.
Proof.
  unfold reported, gen_generic_temperature_decay; cbn [snd adds]. getsimp. reflexivity.
Qed.

(* remaining + reported = original, unconditionally *)
Lemma decay_partition t d T k :
  get (adds (remaining t d T)) k + get (adds (reported t d T)) k == get (adds t) k.
Proof. rewrite rem_add, rep_add. ring. Qed.

(* frame: volume, qualities and pollutants without parameters are untouched *)
Lemma decay_frame_vol t d T : vol (remaining t d T) == vol t /\ vol (reported t d T) == 0.
Proof. split; reflexivity. Qed.
Lemma decay_frame_non t d T k : get (nons (remaining t d T)) k == get (nons t) k.
Proof. reflexivity. Qed.
Lemma decay_frame_noparam t d T k : nth_error d k = None ->
  get (adds (remaining t d T)) k == get (adds t) k /\ get (adds (reported t d T)) k == 0.
Proof.
  intros H. rewrite rem_add, rep_add.
  destruct (get_fracs T d k) as [(p & Hp & _)|[_ E]]; [congruence|]. rewrite E. split; ring.
Qed.

Definition decays_ok (d : list (Q * Q)) : Prop :=
  Forall (fun p => 0 <= fst p /\ 0 < snd p) d.

Hypothesis pow_pos : forall e x, 0 < e -> 0 < pow e x.

Lemma frac_range T p : 0 <= fst p -> 0 < snd p -> 0 <= frac T p <= 1.
Proof.
  intros Hc He. unfold frac. pose proof (pow_pos (snd p) (T - dref) He) as Hp.
  split; [apply Q.min_glb; [nra|lra] | apply Q.le_min_r].
Qed.
Lemma fracs_range T d k : decays_ok d -> 0 <= get (fracs T d) k <= 1.
Proof.
  intros Hd. destruct (get_fracs T d k) as [(p & Hp & E)|[_ E]]; rewrite E; [|lra].
  apply nth_error_In in Hp. unfold decays_ok in Hd. rewrite Forall_forall in Hd.
  destruct (Hd p Hp). apply frac_range; assumption.
Qed.

(* never increases, never removes more than is there *)
Lemma decay_bounds t d T k : decays_ok d -> 0 <= get (adds t) k ->
  0 <= get (adds (remaining t d T)) k <= get (adds t) k /\
  0 <= get (adds (reported t d T)) k <= get (adds t) k.
Proof.
  intros Hd Hx. rewrite rem_add, rep_add. pose proof (fracs_range T d k Hd). nra.
Qed.

(* saturation: product above one removes everything, no more *)
Lemma decay_saturates t d T k p : nth_error d k = Some p ->
  1 <= fst p * pow (snd p) (T - dref) ->
  get (adds (remaining t d T)) k == 0 /\ get (adds (reported t d T)) k == get (adds t) k.
Proof.
  intros Hp H1. rewrite rem_add, rep_add.
  destruct (get_fracs T d k) as [(q & Hq & E)|[Hn _]]; [|congruence].
  rewrite E. assert (q = p) by congruence. subst q.
  unfold frac. rewrite Q.min_r by exact H1. split; ring.
Qed.

Hypothesis pow_mono : forall e x y, 1 <= e -> x <= y -> pow e x <= pow e y.

Lemma frac_mono T1 T2 p : 0 <= fst p -> 1 <= snd p -> T1 <= T2 -> frac T1 p <= frac T2 p.
Proof.
  intros Hc He HT. unfold frac.
  assert (pow (snd p) (T1 - dref) <= pow (snd p) (T2 - dref)) by (apply pow_mono; lra).
  apply Q.min_le_compat_r. nra.
Qed.
(* warmer water never decays less (sensitivity exponent >= 1) *)
Lemma decay_warmer t d T1 T2 k :
  Forall (fun p => 0 <= fst p /\ 1 <= snd p) d -> 0 <= get (adds t) k -> T1 <= T2 ->
  get (adds (remaining t d T2)) k <= get (adds (remaining t d T1)) k.
Proof.
  intros Hd Hx HT. rewrite !rem_add.
  assert (get (fracs T1 d) k <= get (fracs T2 d) k).
  { destruct (get_fracs T1 d k) as [(p & Hp & E1)|[Hn E1]];
    destruct (get_fracs T2 d k) as [(q & Hq & E2)|[Hm E2]]; rewrite E1, E2; try congruence; try lra.
    assert (q = p) by congruence; subst q.
    apply nth_error_In in Hp. rewrite Forall_forall in Hd. destruct (Hd p Hp).
    apply frac_mono; assumption. }
  nra.
Qed.

(* concentration form: same fractions, reported as mass *)
Lemma decay_c_conc c d T k :
  get (adds (fst (gen_generic_temperature_decay_c pow c d T))) k ==
  get (adds c) k - get (adds c) k * get (fracs T d) k.
Proof. unfold gen_generic_temperature_decay_c; cbn [fst adds]. getsimp. reflexivity. Qed.
Lemma decay_c_reported c d T k :
  get (adds (snd (gen_generic_temperature_decay_c pow c d T))) k ==
  get (adds c) k * get (fracs T d) k * vol c.
Proof. unfold gen_generic_temperature_decay_c; cbn [snd adds]. getsimp. reflexivity. Qed.
Lemma decay_c_partition c d T k :
  get (adds (fst (gen_generic_temperature_decay_c pow c d T))) k * vol c +
  get (adds (snd (gen_generic_temperature_decay_c pow c d T))) k == get (adds c) k * vol c.
Proof. rewrite decay_c_conc, decay_c_reported. ring. Qed.

(* n consecutive close-outs: what is left plus everything reported is what was there *)
Fixpoint decay_n (n : nat) (t : vqip) (d : list (Q * Q)) (Ts : nat -> Q) : vqip * vqip :=
  match n with
  | O => (t, vzero)
  | S m => let '(t1, tot) := decay_n m t d Ts in
           (remaining t1 d (Ts m), gen_sum_vqip tot (reported t1 d (Ts m)))
  end.
Lemma decay_n_partition n t d Ts k :
  get (adds (fst (decay_n n t d Ts))) k + get (adds (snd (decay_n n t d Ts))) k == get (adds t) k.
Proof.
  induction n as [|n IH]; cbn [decay_n].
  - cbn [fst snd]. unfold vzero; cbn [adds]. rewrite get_nil. ring.
  - destruct (decay_n n t d Ts) as [t1 tot]. cbn [fst snd] in *.
    rewrite sum_add. rewrite <- IH. pose proof (decay_partition t1 d (Ts n) k). lra.
Qed.
Lemma decay_n_bounds n t d Ts k : decays_ok d -> 0 <= get (adds t) k ->
  0 <= get (adds (fst (decay_n n t d Ts))) k <= get (adds t) k.
Proof.
  intros Hd Hx. induction n as [|n IH]; cbn [decay_n].
  - cbn [fst]. lra.
  - destruct (decay_n n t d Ts) as [t1 tot]. cbn [fst] in *.
    destruct (decay_bounds t1 d (Ts n) k Hd) as [H _]; lra.
Qed.
End Decay.

Theorem decay_pure a d T : gen_generic_temperature_decay_after a d T = a.
Proof. unfold gen_generic_temperature_decay_after. apply eta. Qed.
Theorem decay_c_pure a d T : gen_generic_temperature_decay_c_after a d T = a.
Proof. unfold gen_generic_temperature_decay_c_after. apply eta. Qed.


