(* Consts.v — the numeric constants the hand-written models hard-code are the ones in
   wsimod/core/constants.py of the tree under test (gen/GenConst.v, regenerated on every run):
   eps = 1e-11 (Arc.eps), unbounded = 1e15 (Tank / Kinds `unbounded`), the decay reference
   temperature 20 (Decay.dref; also inlined by T1) and the iteration limit 5 (passed to the
   models by the harness from the same module). *)
From Coq Require Import String.
From WSI.gen Require Import GenConst.
Open Scope string_scope.

(* FLOAT_ACCURACY, UNBOUNDED_CAPACITY, DECAY_REFERENCE_TEMPERATURE, MAXITER as the models have them *)
Definition modelled_constants : string * string * string * string := ("1e-11", "1000000000000000.0", "20", "5").
Theorem constants_as_modelled :
  (c_float_accuracy, c_unbounded_capacity, c_decay_reference_temperature, c_maxiter) = modelled_constants.
Proof. reflexivity. Qed.
