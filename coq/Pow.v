(* Pow.v -- executable rational surrogate for the Python power operator and the
   two facts the decay theorems assume of it.  Model file: no dependency on
   generated code, so it is available to the correspondence check even when a
   proof about the translated code breaks. *)
From Coq Require Import QArith Qminmax Qround Qpower Lqa Lia List Bool.
Open Scope Q_scope.

Definition pow_s (b e : Q) : Q :=
  let n := Qfloor e in
  Qred (Qpower b n * (1 + (e - inject_Z n) * (b - 1))).

Lemma Qpower_pos_lt b n : 0 < b -> 0 < Qpower b n.
Proof.
  intros Hb.
  assert (Hp : forall p, 0 < Qpower_positive b p).
  { intros p. pose proof (Qpower_pos_positive b p (Qlt_le_weak _ _ Hb)) as H0.
    assert (H1 : ~ Qpower_positive b p == 0) by (apply Qpower_not_0_positive; lra).
    destruct (Qlt_le_dec 0 (Qpower_positive b p)) as [H|H]; [exact H|].
    exfalso; apply H1; lra. }
  destruct n as [|p|p]; cbn [Qpower]; [lra | apply Hp | apply Qinv_lt_0_compat, Hp].
Qed.
Lemma frac_part_range e : 0 <= e - inject_Z (Qfloor e) < 1.
Proof.
  pose proof (Qfloor_le e) as Hl. pose proof (Qlt_floor e) as Hu.
  rewrite inject_Z_plus in Hu. change (inject_Z 1) with 1 in Hu. split; lra.
Qed.
Lemma pow_s_pos e x : 0 < e -> 0 < pow_s e x.
Proof.
  intros He. unfold pow_s. rewrite Qred_correct.
  pose proof (Qpower_pos_lt e (Qfloor x) He) as Hp. pose proof (frac_part_range x) as [Hf0 Hf1].
  apply Qmult_lt_0_compat; [exact Hp|]. nra.
Qed.
Lemma pow_s_integer b (z : Z) : pow_s b (inject_Z z) == Qpower b z.
Proof.
  unfold pow_s. rewrite Qred_correct. rewrite Qfloor_Z. ring.
Qed.

Lemma Qpower_ge1 b k : 1 <= b -> (0 <= k)%Z -> 1 <= Qpower b k.
Proof.
  intros Hb Hk. pattern k. apply natlike_ind; [cbn; lra | | exact Hk].
  intros z Hz IH. unfold Z.succ. rewrite Qpower_plus by lra.
  change (Qpower b 1) with b. nra.
Qed.
Lemma Qpower_mono_exp b n m : 1 <= b -> (n <= m)%Z -> Qpower b n <= Qpower b m.
Proof.
  intros Hb Hnm. replace m with (n + (m - n))%Z by lia. rewrite Qpower_plus by lra.
  pose proof (Qpower_ge1 b (m - n) Hb ltac:(lia)) as H1.
  pose proof (Qpower_pos_lt b n ltac:(lra)) as H2. nra.
Qed.
Lemma pow_s_mono e x y : 1 <= e -> x <= y -> pow_s e x <= pow_s e y.
Proof.
  intros He Hxy. unfold pow_s. rewrite !Qred_correct.
  pose proof (Qfloor_resp_le x y Hxy) as Hfl.
  pose proof (frac_part_range x) as [Hx0 Hx1]. pose proof (frac_part_range y) as [Hy0 Hy1].
  set (n := Qfloor x) in *. set (m := Qfloor y) in *.
  pose proof (Qpower_pos_lt e n ltac:(lra)) as Pn.
  pose proof (Qpower_pos_lt e m ltac:(lra)) as Pm.
  destruct (Z.eq_dec n m) as [E|NE].
  - rewrite <- E in *. apply Qmult_le_l; [exact Pn|]. nra.
  - assert (Hlt : (n + 1 <= m)%Z) by lia.
    pose proof (Qpower_mono_exp e (n + 1) m He Hlt) as Hm.
    rewrite Qpower_plus in Hm by lra. change (Qpower e 1) with e in Hm.
    assert (A1 : 1 + (x - inject_Z n) * (e - 1) <= e) by nra.
    assert (A2 : 1 <= 1 + (y - inject_Z m) * (e - 1)) by nra.
    apply Qle_trans with (Qpower e n * e); [apply Qmult_le_l; assumption|].
    apply Qle_trans with (Qpower e m); [exact Hm|].
    rewrite <- (Qmult_1_r (Qpower e m)) at 1. apply Qmult_le_l; assumption.
Qed.
