(* Run.v — interpreters used by the correspondence check: run an operation
   sequence on a component model and emit the whole observable state after
   every operation as a list of integers (compared exactly with the
   implementation's state). Model file. *)
From Coq Require Import QArith Qminmax List Bool Arith ZArith.
From WSI Require Import Vqip Pow Enc Tank Arc QTank Distrib Kinds TimeArea Leak Boundary Demand Wtw LandV Net.
Import ListNotations.
Open Scope Q_scope.

Section Dim.
Variables na nn : nat.
Notation ev := (encvc na nn).

(* ---------------- tanks ---------------- *)
Inductive top :=
| TPush (v : vqip) (force : bool) | TPull (v : Q) | TPullPol (v : vqip) | TEvap (e : Q)
| TPonded | TAvail (ov : option Q) | TExcess (ov : option Q) | TEnd (T : Q) | TDs | TOutflow.
Definition enc_tank (t : tank) : list Z := ev (t_sto t) ++ ev (t_sto_ t) ++ ev (t_decayed t).
Definition tank_step (t : tank) (o : top) : tank * list Z :=
  match o with
  | TPush v f => let '(t', r) := t_push t v f in (t', ev r)
  | TPull v => let '(t', r) := t_pull t v in (t', ev r)
  | TPullPol v => let '(t', r) := t_pull_pollutants t v in (t', ev r)
  | TEvap e => let '(t', r) := t_evaporate t e in (t', encq r)
  | TPonded => let '(t', r) := t_pull_ponded t in (t', ev r)
  | TAvail ov => (t, ev (t_get_avail t ov))
  | TExcess ov => (t, ev (t_get_excess t ov))
  | TEnd T => (t_end t T, [])
  | TDs => (t, ev (t_ds t))
  | TOutflow => let '(t', r) := t_pull_outflow t in (t', ev r)
  end.
Fixpoint run_tank (t : tank) (ops : list top) : list Z :=
  match ops with
  | [] => []
  | o :: r => let '(t', out) := tank_step t o in out ++ enc_tank t' ++ run_tank t' r
  end.

(* ---------------- queue tanks ---------------- *)
Definition enc_buckets (b : list vqip) (L : nat) : list Z :=
  flat_map (fun k => ev (bget b k)) (seq 0 L).
Definition enc_arc (a : arc) : list Z := encq (a_fin a) ++ encq (a_fout a) ++ ev (a_vin a) ++ ev (a_vout a).
Definition enc_qtank (L : nat) (t : qtank) : list Z :=
  let s := qt_s t in let l := qt_l t in
  ev (s_sto s) ++ ev (s_sto_ s) ++ ev (s_act s) ++ enc_buckets (l_b l) L ++ enc_arc (l_a l)
  ++ ev (l_decayed l) ++ encn (length (l_b l)).
Definition qtank_step (t : qtank) (o : qop) : qtank * list Z :=
  let '(t', r) := qtank_do t o in
  (t', match o with QEnd _ | QSetT _ | QReinit => [] | _ => ev r end).
Fixpoint run_qtank (L : nat) (t : qtank) (ops : list qop) : list Z :=
  match ops with
  | [] => []
  | o :: r => let '(t', out) := qtank_step t o in out ++ enc_qtank L t' ++ run_qtank L t' r
  end.

(* ---------------- arcs between two neighbours ---------------- *)
(* a neighbour is a tank-backed node or a scripted node *)
Record script := mkS { sc_lim : list Q; sc_acc : list Q; sc_i : nat; sc_comp : vqip }.
Inductive nb := NT (t : tank) | NS (s : script).
Definition cyc (l : list Q) (i : nat) : Q := nth (i mod (length l)) l 0.
Definition nb_push_check (n : nb) (ov : option vqip) : vqip :=
  match n with
  | NT t => t_get_excess t (option_map vol ov)
  | NS s => let l := cyc (sc_lim s) (sc_i s) in
            mkV (Qred (match ov with Some v => Qmin (vol v) l | None => l end)) [] []
  end.
Definition nb_push_set (n : nb) (v : vqip) : nb * vqip :=
  match n with
  | NT t => let '(t', r) := t_push t v false in (NT t', r)
  | NS s => let acc := Qmin (vol v) (cyc (sc_acc s) (sc_i s)) in
            (NS (mkS (sc_lim s) (sc_acc s) (Datatypes.S (sc_i s)) (sc_comp s)), vchange v (vol v - acc))
  end.
Definition nb_pull_check (n : nb) (ov : option Q) : vqip :=
  match n with
  | NT t => t_get_avail t ov
  | NS s => let l := cyc (sc_lim s) (sc_i s) in
            mkV (Qred (match ov with Some v => Qmin v l | None => l end)) [] []
  end.
Definition nb_pull_set (n : nb) (v : Q) : nb * vqip :=
  match n with
  | NT t => let '(t', r) := t_pull t v in (NT t', r)
  | NS s => let out := Qmin v (cyc (sc_acc s) (sc_i s)) in
            (NS (mkS (sc_lim s) (sc_acc s) (Datatypes.S (sc_i s)) (sc_comp s)), vchange (sc_comp s) out)
  end.
(* in_port serves pulls, out_port serves pushes *)
Definition nbport : port (nb * nb) :=
  mkPort (nb * nb)
    (fun s ov => nb_push_check (snd s) ov)
    (fun s v => let '(o', r) := nb_push_set (snd s) v in ((fst s, o'), r))
    (fun s ov => nb_pull_check (fst s) ov)
    (fun s v => let '(i', r) := nb_pull_set (fst s) v in ((i', snd s), r)).
Definition enc_nb (n : nb) : list Z :=
  match n with NT t => ev (t_sto t) | NS s => encn (sc_i s) end.

Definition has_reply (o : aop) : bool :=
  match o with AEnd | ASetT _ => false | _ => true end.
Definition arc_step (k : akind) (a : arc) (s : nb * nb) (o : aop) : arc * (nb * nb) * list Z :=
  let '(a', s', r) := arc_do _ nbport k a s o in
  (a', s', if has_reply o then ev r else []).
Fixpoint run_arc (k : akind) (a : arc) (s : nb * nb) (ops : list aop) : list Z :=
  match ops with
  | [] => []
  | o :: r => let '(a', s', out) := arc_step k a s o in
              out ++ enc_arc a' ++ enc_nb (fst s') ++ enc_nb (snd s') ++ run_arc k a' s' r
  end.

Definition enc_req (r : qreq) : list Z :=
  encn (r_time r) ++ ev (r_v r) ++ encq (r_avg r) ++ encb (r_push r).
Definition enc_qarc (q : qarc) : list Z :=
  enc_arc (q_a q) ++ encn (length (q_queue q)) ++ flat_map enc_req (q_queue q)
  ++ ev (q_qs q) ++ ev (q_qs_ q) ++ ev (q_decayed q).
Definition qarc_step (q : qarc) (s : nb * nb) (o : aop) : qarc * (nb * nb) * list Z :=
  let '(q', s', r) := qarc_do _ nbport q s o in
  (q', s', if has_reply o then ev r else []).
Fixpoint run_qarc (q : qarc) (s : nb * nb) (ops : list aop) : list Z :=
  match ops with
  | [] => []
  | o :: r => let '(q', s', out) := qarc_step q s o in
              out ++ enc_qarc q' ++ enc_nb (fst s') ++ enc_nb (snd s') ++ run_qarc q' s' r
  end.

Definition enc_altarc (L : nat) (l : altarc) : list Z :=
  enc_arc (l_a l) ++ enc_buckets (l_b l) L ++ encn (length (l_b l))
  ++ ev (l_qs l) ++ ev (l_qs_ l) ++ ev (l_decayed l).
Definition altarc_step (l : altarc) (s : nb * nb) (o : aop) : altarc * (nb * nb) * list Z :=
  let '(l', s', r) := alt_do _ nbport l s o in
  (l', s', if has_reply o then ev r else []).
Fixpoint run_altarc (L : nat) (l : altarc) (s : nb * nb) (ops : list aop) : list Z :=
  match ops with
  | [] => []
  | o :: r => let '(l', s', out) := altarc_step l s o in
              out ++ enc_altarc L l' ++ enc_nb (fst s') ++ enc_nb (snd s') ++ run_altarc L l' s' r
  end.

(* ---------------- a distributing node with its out-star and in-star ---------------- *)
Inductive sop :=
| SPush (v : vqip) (ot : option (list nat)) | SPull (q : Q) (ot : option (list nat))
| SPushCheck (ov : option Q) (ot : option (list nat)) | SPullCheck (ov : option Q) (ot : option (list nat))
| SEnd
(* the network grows: a new arc is connected to a node that has already been used (Arc.__init__ registers it) *)
| SAddOut (x : sarc (nb * nb)) | SAddIn (x : sarc (nb * nb)).
Definition nstar := star (nb * nb).
Definition enc_star (st : nstar) : list Z :=
  flat_map (fun x => enc_arc (sa_a _ x) ++ enc_nb (fst (sa_s _ x)) ++ enc_nb (snd (sa_s _ x))) st.
Definition end_star (st : nstar) : nstar :=
  map (fun x => mkSA _ (a_end (sa_a _ x)) (sa_pref _ x) (sa_s _ x) (sa_ty _ x)) st.
Definition star_step (maxiter : nat) (outs ins : nstar) (o : sop) : option (nstar * nstar * list Z) :=
  match o with
  | SPush v ot =>
      match push_distributed _ nbport maxiter ot outs v with
      | None => None
      | Some (outs', r, msg) => Some (outs', ins, ev r ++ encb msg)
      end
  | SPull q ot =>
      match pull_distributed _ nbport maxiter ot ins q with
      | None => None
      | Some (ins', r, msg) => Some (outs, ins', ev r ++ encb msg)
      end
  | SPushCheck ov ot => Some (outs, ins, ev (check_basic _ nbport true ot outs ov))
  | SPullCheck ov ot => Some (outs, ins, ev (check_basic _ nbport false ot ins ov))
  | SEnd => Some (end_star outs, end_star ins, [])
  | SAddOut x => Some (outs ++ [x], ins, [])
  | SAddIn x => Some (outs, ins ++ [x], [])
  end.
Fixpoint run_star (maxiter : nat) (outs ins : nstar) (ops : list sop) : list Z :=
  match ops with
  | [] => []
  | o :: r =>
      match star_step maxiter outs ins o with
      | None => [(-999)%Z]                        (* the implementation must raise ZeroDivisionError here *)
      | Some (outs', ins', out) => out ++ enc_star outs' ++ enc_star ins' ++ run_star maxiter outs' ins' r
      end
  end.

(* ---------------- store-backed node kinds with their stars ---------------- *)
Inductive kkind := KStorage | KGroundwater | KRiver | KReservoir | KRiverReservoir.
Inductive kop :=
| KPushSet (v : vqip) | KPullSet (q : Q) | KPushCheck (ov : option vqip) | KPullCheck (ov : option Q)
| KDistribute | KInfiltrate | KAbstract | KSatisfy | KEnd (T : Q)
(* apply_overrides on a node that has been used: the parameters as they stand afterwards (the tank keeps what it holds) *)
| KOverride (cap res thr pct len vel damp mrf env : Q).
Definition nknode := knode (nb * nb).
Definition enc_knode (k : nknode) : list Z :=
  enc_tank (k_tank _ k) ++ encq (k_envsat _ k) ++ enc_star (k_outs _ k) ++ enc_star (k_ins _ k).
Definition kind_step (maxiter : nat) (kd : kkind) (k : nknode) (o : kop) : option (nknode * list Z) :=
  match o with
  | KPushSet v =>
      match kd with
      | KRiver => let '(k', r) := rv_push_set _ k v in Some (k', ev r)
      | KRiverReservoir =>
          match rr_push_set _ nbport maxiter k v with None => None | Some (k', r) => Some (k', ev r) end
      | _ => let '(k', r) := st_push_set _ k v in Some (k', ev r)
      end
  | KPullSet q =>
      match kd with
      | KRiver => match rv_pull_set _ nbport maxiter k q with None => None | Some (k', r) => Some (k', ev r) end
      | _ => let '(k', r) := st_pull_set _ k q in Some (k', ev r)
      end
  | KPushCheck ov =>
      match kd with
      | KRiver => Some (k, ev (rv_push_check _ k ov))
      | KRiverReservoir => Some (k, ev (rr_push_check _ nbport k ov))
      | _ => Some (k, ev (st_push_check _ k ov))
      end
  | KPullCheck ov =>
      match kd with
      | KRiver => Some (k, ev (rv_pull_check _ nbport k ov))
      | _ => Some (k, ev (st_pull_check _ k ov))
      end
  | KDistribute =>
      match (match kd with
             | KGroundwater => gw_distribute _ nbport maxiter k
             | KRiver => rv_distribute _ nbport maxiter k
             | _ => st_distribute _ nbport maxiter k end) with
      | None => None | Some k' => Some (k', []) end
  | KInfiltrate => match gw_infiltrate _ nbport maxiter k with None => None | Some k' => Some (k', []) end
  | KAbstract => match rs_make_abstractions _ nbport maxiter k with None => None | Some k' => Some (k', []) end
  | KSatisfy => match rr_satisfy_environmental _ nbport maxiter k with None => None | Some k' => Some (k', []) end
  | KEnd T =>
      let k1 := k_end _ k T in
      Some (k_with _ k1 (k_tank _ k1) (end_star (k_outs _ k1)) (end_star (k_ins _ k1)) (k_envsat _ k1), [])
  | KOverride cap res thr pct len vel damp mrf env =>
      let t := k_tank _ k in
      Some (mkK _ (mkT cap (t_sto t) (t_sto_ t) (t_dec t) (t_decayed t) (t_res t)) (k_outs _ k) (k_ins _ k) (k_envsat _ k)
                res thr pct len vel damp mrf env, [])
  end.
Fixpoint run_kind (maxiter : nat) (kd : kkind) (k : nknode) (ops : list kop) : list Z :=
  match ops with
  | [] => []
  | o :: r =>
      match kind_step maxiter kd k o with
      | None => [(-999)%Z]
      | Some (k', out) => out ++ enc_knode k' ++ run_kind maxiter kd k' r
      end
  end.

(* ---------------- nodes on a queue tank: Sewer, QueueGroundwater (TimeArea.v) ---------------- *)
Inductive qkind := QSewer | QGroundwater.
Inductive qnop :=
| YPushTA (v : vqip)               (* Sewer: tags Land / Demand; QueueGroundwater: any push *)
| YPushPipe (v : vqip)             (* Sewer: default / Sewer tag *)
| YPushCheck (ov : option vqip) | YPullCheck (ov : option Q) | YPullSet (q : Q)
| YDischarge                       (* Sewer.make_discharge / QueueGroundwater.distribute *)
| YEnd (T : Q)
| YOverride (cap : Q) (pt : nat) (ta : list (nat * Q))
| YReinit (init : vqip).           (* Sewer.reinit (init = nothing) / Storage.reinit (the initial storage) *)
Definition nqnode := qnode (nb * nb).
Definition enc_qnode (L : nat) (n : nqnode) : list Z :=
  enc_qtank L (qn_t _ n) ++ enc_star (qn_outs _ n) ++ enc_star (qn_ins _ n).
Definition qnode_step (maxiter : nat) (kd : qkind) (n : nqnode) (o : qnop) : option (nqnode * list Z) :=
  match o with
  | YPushTA v => let '(n', r) := qn_push_timearea _ n v in Some (n', ev r)
  | YPushPipe v => let '(n', r) := sw_push_set_sewer _ n v in Some (n', ev r)
  | YPushCheck ov =>
      Some (n, ev (match kd with QSewer => sw_push_check _ n ov | QGroundwater => qg_push_check _ n ov end))
  | YPullCheck ov => Some (n, ev (qg_pull_check _ n ov))
  | YPullSet q => let '(n', r) := qg_pull_set _ n q in Some (n', ev r)
  | YDischarge =>
      match (match kd with QSewer => sw_make_discharge _ nbport maxiter n | QGroundwater => qg_distribute _ nbport maxiter n end) with
      | None => None | Some n' => Some (n', []) end
  | YEnd T =>
      let n1 := qn_end _ n T in
      Some (mkQN _ (qn_t _ n1) (end_star (qn_outs _ n1)) (end_star (qn_ins _ n1)) (qn_pt _ n1) (qn_ta _ n1), [])
  | YOverride cap pt ta => Some (sw_override _ n cap pt ta, [])
  | YReinit init => Some (qn_reinit _ n init, [])
  end.
Fixpoint run_qnode (L maxiter : nat) (kd : qkind) (n : nqnode) (ops : list qnop) : list Z :=
  match ops with
  | [] => []
  | o :: r =>
      match qnode_step maxiter kd n o with
      | None => [(-999)%Z]
      | Some (n', out) => out ++ enc_qnode L n' ++ run_qnode L maxiter kd n' r
      end
  end.

(* ---------------- Distribution with leakage (Leak.v) ---------------- *)
Inductive dop := DPullSet (q : Q) | DPullCheck (ov : option Q) | DOverride (l : Q) | DEnd.
Definition ndnode := dnode (nb * nb).
Definition enc_dnode (n : ndnode) : list Z := enc_star (dn_ins _ n) ++ enc_star (dn_outs _ n).
Definition dnode_step (maxiter : nat) (n : ndnode) (o : dop) : option (ndnode * list Z) :=
  match o with
  | DPullSet q => match dn_pull_set _ nbport maxiter n q with None => None | Some (n', r) => Some (n', ev r) end
  | DPullCheck ov => Some (n, ev (dn_pull_check _ nbport n ov))
  | DOverride l => Some (dn_override _ n l, [])
  | DEnd => Some (mkDN _ (end_star (dn_ins _ n)) (end_star (dn_outs _ n)) (dn_leak _ n), [])
  end.
Fixpoint run_dnode (maxiter : nat) (n : ndnode) (ops : list dop) : list Z :=
  match ops with
  | [] => []
  | o :: r =>
      match dnode_step maxiter n o with
      | None => [(-999)%Z]
      | Some (n', out) => out ++ enc_dnode n' ++ run_dnode maxiter n' r
      end
  end.

(* ---------------- Demand / ResidentialDemand (Demand.v) ---------------- *)
Inductive mop :=
| MCreatePlain (constant_demand : Q) (load : vec)
| MCreateRes (efficiency population per_capita : Q) (load : vec) (air ctemp weighting : Q) (other_nons : vec)
| MEnd.
Definition nmnode := dmnode (nb * nb).
Definition enc_mnode (n : nmnode) : list Z :=
  enc_star (dm_ins _ n) ++ enc_star (dm_outs _ n) ++ ev (dm_demand _ n) ++ ev (dm_backup _ n) ++ ev (dm_received _ n).
Definition mnode_step (maxiter : nat) (n : nmnode) (o : mop) : option nmnode :=
  match o with
  | MCreatePlain cd load => dm_create _ nbport maxiter n (items_plain cd load nn)
  | MCreateRes eff pop pc load air ctemp w others =>
      dm_create _ nbport maxiter n
        (items_residential _ nbport n na nn eff (house_demand pop pc load (house_temperature air ctemp w) others))
  | MEnd => let n1 := dm_end _ n in
            Some (mkDM _ (end_star (dm_ins _ n1)) (end_star (dm_outs _ n1)) (dm_demand _ n1) (dm_backup _ n1) (dm_received _ n1))
  end.
Fixpoint run_mnode (maxiter : nat) (n : nmnode) (ops : list mop) : list Z :=
  match ops with
  | [] => []
  | o :: r =>
      match mnode_step maxiter n o with
      | None => [(-999)%Z]
      | Some n' => enc_mnode n' ++ run_mnode maxiter n' r
      end
  end.

(* ---------------- WWTW (Wtw.v) ---------------- *)
Inductive wwop :=
| WwPushCheck (ov : option vqip) | WwPushSet (v : vqip) | WwCalc | WwMake | WwPullCheck | WwPullSet (q : Q) | WwEnd (T : Q)
| WwOverride (p : wparams) (tank_cap : Q).
Definition nwwtw := wwtw (nb * nb).
Definition enc_wwtw (w : nwwtw) : list Z :=
  ev (ww_cur _ w) ++ ev (ww_treated _ w) ++ ev (ww_liquor _ w) ++ ev (ww_liquor_ _ w) ++ ev (ww_solids _ w)
  ++ enc_tank (ww_tank _ w) ++ enc_star (ww_outs _ w).
Definition wwtw_step (maxiter : nat) (w : nwwtw) (o : wwop) : option (nwwtw * list Z) :=
  match o with
  | WwPushCheck ov => Some (w, ev (ww_push_check _ w ov))
  | WwPushSet v => let '(w', r) := ww_push_set _ w v in Some (w', ev r)
  | WwCalc => Some (ww_calculate_discharge _ w, [])
  | WwMake => match ww_make_discharge _ nbport maxiter w with None => None | Some w' => Some (w', []) end
  | WwPullCheck => Some (w, ev (ww_pull_check _ w))
  | WwPullSet q => let '(w', r) := ww_pull_set _ w q in Some (w', ev r)
  | WwEnd T =>
      let w1 := ww_end _ w T in
      Some (mkWW _ (ww_p _ w1) (ww_cur _ w1) (ww_treated _ w1) (ww_liquor _ w1) (ww_liquor_ _ w1) (ww_solids _ w1) (ww_prev _ w1)
                 (ww_tank _ w1) (end_star (ww_outs _ w1)), [])
  | WwOverride p tc => Some (ww_override _ w p tc, [])
  end.
Fixpoint run_wwtw (maxiter : nat) (w : nwwtw) (ops : list wwop) : list Z :=
  match ops with
  | [] => []
  | o :: r =>
      match wwtw_step maxiter w o with
      | None => [(-999)%Z]
      | Some (w', out) => out ++ enc_wwtw w' ++ run_wwtw maxiter w' r
      end
  end.

(* ---------------- FWTW (Wtw.v) ---------------- *)
Inductive fop := FTreat | FPullCheck (ov : option Q) | FPullSet (q : Q) | FEnd (T : Q) | FOverride (p : wparams) (tank_cap : Q).
Definition nfwtw := fwtw (nb * nb).
Definition enc_fwtw (f : nfwtw) : list Z :=
  ev (fw_cur _ f) ++ ev (fw_treated _ f) ++ ev (fw_liquor _ f) ++ ev (fw_solids _ f) ++ ev (fw_deficit _ f) ++ ev (fw_pulled _ f)
  ++ ev (fw_prev_pulled _ f) ++ ev (fw_unpushed _ f) ++ enc_tank (fw_tank _ f) ++ enc_star (fw_ins _ f) ++ enc_star (fw_outs _ f).
Definition fwtw_step (maxiter : nat) (f : nfwtw) (o : fop) : option (nfwtw * list Z) :=
  match o with
  | FTreat => match fw_treat_water _ nbport maxiter f with None => None | Some f' => Some (f', []) end
  | FPullCheck ov => Some (f, ev (fw_pull_check _ f ov))
  | FPullSet q => let '(f', r) := fw_pull_set _ f q in Some (f', ev r)
  | FEnd T =>
      let f1 := fw_end _ f T in
      Some (mkFW _ (fw_p _ f1) (fw_cur _ f1) (fw_treated _ f1) (fw_liquor _ f1) (fw_solids _ f1) (fw_deficit _ f1) (fw_pulled _ f1)
                 (fw_prev_pulled _ f1) (fw_unpushed _ f1) (fw_tank _ f1) (end_star (fw_ins _ f1)) (end_star (fw_outs _ f1)), [])
  | FOverride p tc => Some (fw_override _ f p tc, [])
  end.
Fixpoint run_fwtw (maxiter : nat) (f : nfwtw) (ops : list fop) : list Z :=
  match ops with
  | [] => []
  | o :: r =>
      match fwtw_step maxiter f o with
      | None => [(-999)%Z]
      | Some (f', out) => out ++ enc_fwtw f' ++ run_fwtw maxiter f' r
      end
  end.

(* ---------------- Land with impervious / pervious surfaces (LandV.v) ---------------- *)
Inductive lop := LRun (rain et0 T : Q) (tn : vec) | LFlood (v : vqip) | LEnd (T : Q).
Definition nland := land (nb * nb).
Definition enc_land (l : nland) : list Z :=
  flat_map (fun sf => enc_tank (sf_tank sf)) (ld_surfs _ l) ++ enc_tank (ld_sr _ l) ++ enc_tank (ld_ssr _ l) ++ enc_tank (ld_perc _ l)
  ++ ev (ld_in _ l) ++ ev (ld_out _ l) ++ enc_star (ld_outs _ l).
Definition land_step (maxiter : nat) (l : nland) (o : lop) : option (nland * list Z) :=
  match o with
  | LRun rain et0 T tn => match ld_run _ nbport maxiter l rain et0 T tn with None => None | Some l' => Some (l', []) end
  | LFlood v => let '(l', r) := ld_push_set_sewer _ l v in Some (l', ev r)
  | LEnd T =>
      let l1 := ld_end _ l T in
      Some (mkLD _ (ld_surfs _ l1) (ld_sr _ l1) (ld_ssr _ l1) (ld_perc _ l1) (ld_in _ l1) (ld_out _ l1) (end_star (ld_outs _ l1)), [])
  end.
Fixpoint run_land (maxiter : nat) (l : nland) (ops : list lop) : list Z :=
  match ops with
  | [] => []
  | o :: r =>
      match land_step maxiter l o with
      | None => [(-999)%Z]
      | Some (l', out) => out ++ enc_land l' ++ run_land maxiter l' r
      end
  end.

(* ---------------- catchment ---------------- *)
Inductive cop := CRoute | CPullCheck (ov : option Q) | CAbstract (j : nat) (q : Q) | CEnd.
Record cstate := mkCS { cs_outs : nstar; cs_unrouted : vqip }.
Definition catch_step (maxiter : nat) (flow : Q) (conc quality : vec) (c : cstate) (o : cop) : option (cstate * list Z) :=
  match o with
  | CRoute =>
      match ca_route _ nbport maxiter (cs_outs c) (cs_unrouted c) flow conc quality with
      | None => None
      | Some (outs', unr) => Some (mkCS outs' unr, [])
      end
  | CPullCheck ov => Some (c, ev (ca_pull_check _ (cs_outs c) flow conc quality ov))
  | CAbstract j q =>
      let '(outs', got) := ca_abstract _ (cs_outs c) flow conc quality j q in Some (mkCS outs' (cs_unrouted c), ev got)
  | CEnd => Some (mkCS (end_star (cs_outs c)) vzero, [])
  end.
(* the forcing row may change at every timestep end: ops come in per-timestep groups *)
Fixpoint run_catch (maxiter : nat) (c : cstate) (steps : list (Q * vec * vec * list cop)) : list Z :=
  match steps with
  | [] => []
  | (flow, conc, quality, ops) :: rest =>
      let fix go (c : cstate) (ops : list cop) : option (cstate * list Z) :=
        match ops with
        | [] => Some (c, [])
        | o :: r =>
            match catch_step maxiter flow conc quality c o with
            | None => None
            | Some (c', out) =>
                match go c' r with
                | None => None
                | Some (c'', out') =>
                    Some (c'', out ++ ev (ca_get_flow flow conc quality) ++ ev (cs_unrouted c') ++ enc_star (cs_outs c') ++ out')
                end
            end
        end in
      match go c ops with
      | None => [(-999)%Z]
      | Some (c', out) => out ++ run_catch maxiter c' rest
      end
  end.

(* ---------------- boundary functions ---------------- *)
Inductive bop := BRain (rain et0 : Q) (tn : vec) | BDep | BHouse (T : Q).
Fixpoint run_boundary (area coef : Q) (load : vec) (pop pc : Q) (dload : vec) (ctemp w : Q) (others : vec)
  (t : tank) (ops : list bop) : list Z :=
  match ops with
  | [] => []
  | o :: r =>
      let '(t', out) :=
        match o with
        | BRain rain et0 tn => let '(t', p, e) := imp_precip_evap t area coef rain et0 tn in (t', encq p ++ encq e)
        | BDep => match load with
                  | [] => (t, ev vzero)
                  | _ => let '(t', p) := simple_deposition t area load in (t', ev p)
                  end
        | BHouse T => (t, ev (house_demand pop pc dload (house_temperature T ctemp w) others))
        end in
      out ++ ev (t_sto t') ++ run_boundary area coef load pop pc dload ctemp w others t' r
  end.

(* ---------------- whole networks (Net.v) ---------------- *)
Inductive netop :=
| NOrch (o : ocall) | NPush (a : nat) (v : vqip) | NPull (a : nat) (q : Q)
| NPushCheck (a : nat) (ov : option vqip) | NPullCheck (a : nat) (ov : option Q) | NEnd.
Definition enc_net (s : net) : list Z :=
  flat_map (fun N => ev (t_sto (nn_tank N)) ++ ev (nn_unrouted N)) (n_nodes s)
  ++ flat_map (fun A => enc_arc (na_arc A)) (n_arcs s).
Definition net_end (s : net) : net :=
  mkNet (map (fun N => set_unrouted vzero (set_tank (t_end (nn_tank N) (20#1)) N)) (n_nodes s))
        (map (fun A => set_arc (a_end (na_arc A)) A) (n_arcs s)).
Definition net_step (maxiter fuel : nat) (s : net) (o : netop) : option (net * list Z) :=
  match o with
  | NOrch oc => match orch maxiter fuel s oc with None => None | Some s' => Some (s', []) end
  | NPush a v => match exec maxiter fuel s (RSendPush a v) with None => None | Some (s', r) => Some (s', ev r) end
  | NPull a q => match exec maxiter fuel s (RSendPull a q) with None => None | Some (s', r) => Some (s', ev r) end
  | NPushCheck a ov => match exec maxiter fuel s (RSendPushCheck a ov) with None => None | Some (s', r) => Some (s', ev r) end
  | NPullCheck a ov => match exec maxiter fuel s (RSendPullCheck a ov) with None => None | Some (s', r) => Some (s', ev r) end
  | NEnd => Some (net_end s, [])
  end.
Fixpoint run_net (maxiter fuel : nat) (s : net) (ops : list netop) : list Z :=
  match ops with
  | [] => []
  | o :: r =>
      match net_step maxiter fuel s o with
      | None => [(-999)%Z]
      | Some (s', out) => out ++ enc_net s' ++ run_net maxiter fuel s' r
      end
  end.
(* the hypothesis of the network ledger theorems (NetLaws.wf, via net_wfb_sound) evaluated on the very network the
   implementation built: first integer of the output *)
Definition run_net_checked (maxiter fuel : nat) (s : net) (ops : list netop) : list Z :=
  encb (net_wfb s) ++ run_net maxiter fuel s ops.
End Dim.
