(* CoreLaws.v — the flux algebra (property C10), proved about the definitions
   that harness/gen_core.py translated from wsimod/core/core.py (gen/GenCore.v),
   for every pollutant partition (vectors of any length). *)
From Coq Require Import QArith Qminmax Lqa Lia List Bool Setoid Morphisms.
From WSI Require Import Vqip.
From WSI.gen Require Import GenCore.
Import ListNotations.
Open Scope Q_scope.

Ltac zero_side := first [ reflexivity | (unfold Qdiv; ring) | lra ].
Ltac getsimp :=
  repeat first
    [ rewrite get_vmap2 by zero_side
    | rewrite get_map0 by zero_side
    | rewrite get_nil
    | rewrite get_Qred ];
  cbv beta.
Ltac split_dec :=
  repeat match goal with
         | |- context [Qlt_le_dec ?a ?b] => destruct (Qlt_le_dec a b)
         end.
Ltac open_cmp c := destruct c as [|k|k]; cbn [cmp vol adds nons conserved] in *.

(* ---------- sum ---------- *)
Lemma sum_vol a b : vol (gen_sum_vqip a b) == vol a + vol b.
Proof. reflexivity. Qed.
Lemma sum_add a b k : get (adds (gen_sum_vqip a b)) k == get (adds a) k + get (adds b) k.
Proof. unfold gen_sum_vqip; cbn [adds]. getsimp. reflexivity. Qed.
Lemma sum_conserved a b c : conserved c ->
  cmp c (gen_sum_vqip a b) == cmp c a + cmp c b.
Proof. intros Hc. open_cmp c; [reflexivity | apply sum_add | destruct Hc]. Qed.
Lemma sum_nonadd_mean a b k : 0 < vol a + vol b ->
  get (nons (gen_sum_vqip a b)) k ==
  (get (nons a) k * vol a + get (nons b) k * vol b) / (vol a + vol b).
Proof.
  intros H. unfold gen_sum_vqip; cbn [nons]. split_dec; [|lra]. getsimp. field; lra.
Qed.
Lemma sum_nonadd_dry a b k : vol a + vol b <= 0 ->
  get (nons (gen_sum_vqip a b)) k == get (nons a) k.
Proof. intros H. unfold gen_sum_vqip; cbn [nons]. split_dec; [lra|reflexivity]. Qed.

Lemma wmean_between x y p q : 0 <= p -> 0 <= q -> 0 < p + q ->
  Qmin x y <= (x * p + y * q) / (p + q) <= Qmax x y.
Proof.
  intros Hp Hq Hs.
  assert (Hm : Qmin x y <= x /\ Qmin x y <= y) by (split; [apply Q.le_min_l | apply Q.le_min_r]).
  assert (HM : x <= Qmax x y /\ y <= Qmax x y) by (split; [apply Q.le_max_l | apply Q.le_max_r]).
  destruct Hm as [m1 m2], HM as [M1 M2].
  split.
  - apply Qle_shift_div_l; [exact Hs|]. nra.
  - apply Qle_shift_div_r; [exact Hs|]. nra.
Qed.
Lemma sum_nonadd_between a b k : 0 <= vol a -> 0 <= vol b -> 0 < vol a + vol b ->
  Qmin (get (nons a) k) (get (nons b) k) <= get (nons (gen_sum_vqip a b)) k
    <= Qmax (get (nons a) k) (get (nons b) k).
Proof.
  intros Ha Hb Hs. rewrite sum_nonadd_mean by exact Hs. apply wmean_between; assumption.
Qed.

Lemma sum_comm_conserved a b : gen_sum_vqip a b ≐ gen_sum_vqip b a.
Proof. intros c Hc. rewrite !sum_conserved by exact Hc. ring. Qed.
Lemma sum_comm a b : 0 < vol a + vol b -> gen_sum_vqip a b ≡ gen_sum_vqip b a.
Proof.
  intros H c. destruct c as [|k|k].
  - cbn [cmp]. rewrite !sum_vol. ring.
  - cbn [cmp]. rewrite !sum_add. ring.
  - cbn [cmp]. rewrite !sum_nonadd_mean by lra. field; lra.
Qed.
Lemma sum_assoc_conserved a b d :
  gen_sum_vqip (gen_sum_vqip a b) d ≐ gen_sum_vqip a (gen_sum_vqip b d).
Proof. intros c Hc. rewrite !sum_conserved by exact Hc. ring. Qed.

Lemma sum_assoc_non a b d k :
  0 <= vol a -> 0 <= vol b -> 0 <= vol d -> 0 < vol a + vol b + vol d ->
  get (nons (gen_sum_vqip (gen_sum_vqip a b) d)) k ==
  get (nons (gen_sum_vqip a (gen_sum_vqip b d))) k.
Proof.
  intros Ha Hb Hd Hs.
  rewrite (sum_nonadd_mean (gen_sum_vqip a b) d) by (rewrite sum_vol; lra).
  rewrite (sum_nonadd_mean a (gen_sum_vqip b d)) by (rewrite sum_vol; lra).
  rewrite !sum_vol.
  destruct (Qlt_le_dec 0 (vol a + vol b)) as [Hab|Hab];
    destruct (Qlt_le_dec 0 (vol b + vol d)) as [Hbd|Hbd].
  - rewrite (sum_nonadd_mean a b), (sum_nonadd_mean b d) by lra. field; lra.
  - rewrite (sum_nonadd_mean a b) by lra. rewrite (sum_nonadd_dry b d) by lra.
    assert (E1 : vol b == 0) by lra. assert (E2 : vol d == 0) by lra.
    rewrite E1, E2. field; lra.
  - rewrite (sum_nonadd_dry a b) by lra. rewrite (sum_nonadd_mean b d) by lra.
    assert (E1 : vol a == 0) by lra. assert (E2 : vol b == 0) by lra.
    rewrite E1, E2. field; lra.
  - lra.
Qed.
Theorem sum_assoc a b d :
  0 <= vol a -> 0 <= vol b -> 0 <= vol d -> 0 < vol a + vol b + vol d ->
  gen_sum_vqip (gen_sum_vqip a b) d ≡ gen_sum_vqip a (gen_sum_vqip b d).
Proof.
  intros Ha Hb Hd Hs c. destruct c as [|k|k].
  - apply sum_assoc_conserved; exact I.
  - apply (sum_assoc_conserved a b d (SAdd k)); exact I.
  - cbn [cmp]. apply sum_assoc_non; assumption.
Qed.

(* ---------- extract / ds ---------- *)
Lemma extract_conserved a b c : conserved c ->
  cmp c (gen_extract_vqip a b) == cmp c a - cmp c b.
Proof.
  intros Hc. open_cmp c; [reflexivity | | destruct Hc].
  unfold gen_extract_vqip; cbn [adds]. getsimp. reflexivity.
Qed.
Lemma extract_non a b k : get (nons (gen_extract_vqip a b)) k == get (nons a) k.
Proof. reflexivity. Qed.
Theorem extract_sum_inverse a b : gen_extract_vqip (gen_sum_vqip a b) b ≐ a.
Proof. intros c Hc. rewrite extract_conserved, sum_conserved by exact Hc. ring. Qed.
Theorem sum_extract_inverse a b : gen_sum_vqip (gen_extract_vqip a b) b ≐ a.
Proof. intros c Hc. rewrite sum_conserved, extract_conserved by exact Hc. ring. Qed.
Theorem ds_is_difference a b c : conserved c ->
  cmp c (gen_ds_vqip a b) == cmp c a - cmp c b.
Proof.
  intros Hc. open_cmp c; [reflexivity | | destruct Hc].
  unfold gen_ds_vqip; cbn [adds]. getsimp. reflexivity.
Qed.
Lemma ds_non a b k : get (nons (gen_ds_vqip a b)) k == 0.
Proof. unfold gen_ds_vqip; cbn [nons]. getsimp. reflexivity. Qed.

(* ---------- v_change / v_distill ---------- *)
Theorem v_change_vol t v : vol (gen_v_change_vqip t v) == v.
Proof. unfold gen_v_change_vqip; cbn [vol]. split_dec; [field; lra | reflexivity]. Qed.
Lemma v_change_add_pos t v k : 0 < vol t ->
  get (adds (gen_v_change_vqip t v)) k == get (adds t) k * (v / vol t).
Proof. intros H. unfold gen_v_change_vqip; cbn [adds]. split_dec; [|lra]. getsimp. reflexivity. Qed.
Theorem v_change_keeps_concentration t v k : 0 < vol t -> 0 < v ->
  get (adds (gen_v_change_vqip t v)) k / vol (gen_v_change_vqip t v) == get (adds t) k / vol t.
Proof. intros Ht Hv. rewrite v_change_vol, v_change_add_pos by exact Ht. field; lra. Qed.
Theorem v_change_keeps_quality t v k :
  get (nons (gen_v_change_vqip t v)) k == get (nons t) k.
Proof. reflexivity. Qed.
Theorem v_change_dry t v k : vol t <= 0 ->
  get (adds (gen_v_change_vqip t v)) k == get (adds t) k.
Proof. intros H. unfold gen_v_change_vqip; cbn [adds]. split_dec; [lra|reflexivity]. Qed.
Lemma v_change_conserved_pos t v c : conserved c -> 0 < vol t ->
  cmp c (gen_v_change_vqip t v) == cmp c t * (v / vol t).
Proof.
  intros Hc H. destruct c as [|k|k]; [| |destruct Hc]; cbn [cmp].
  - rewrite v_change_vol. field; lra.
  - apply v_change_add_pos; exact H.
Qed.
Theorem v_change_split t x : 0 < vol t ->
  gen_sum_vqip (gen_v_change_vqip t x) (gen_v_change_vqip t (vol t - x)) ≐ t.
Proof.
  intros H c Hc. rewrite sum_conserved by exact Hc.
  rewrite !v_change_conserved_pos by assumption. field; lra.
Qed.
Theorem v_change_le t v c : conserved c -> 0 < vol t -> 0 <= cmp c t -> 0 <= v <= vol t ->
  0 <= cmp c (gen_v_change_vqip t v) <= cmp c t.
Proof.
  intros Hc Ht Hx [Hv0 Hv1]. rewrite v_change_conserved_pos by assumption.
  assert (0 <= v / vol t <= 1).
  { split; [apply Qle_shift_div_l; lra | apply Qle_shift_div_r; lra]. }
  nra.
Qed.
Theorem distill_only_volume t v :
  vol (gen_v_distill_vqip t v) == vol t - v /\
  (forall k, get (adds (gen_v_distill_vqip t v)) k == get (adds t) k) /\
  (forall k, get (nons (gen_v_distill_vqip t v)) k == get (nons t) k).
Proof. repeat split; reflexivity. Qed.

(* ---------- concentration <-> total ---------- *)
Theorem c2t_t2c_roundtrip t : ~ vol t == 0 ->
  gen_concentration_to_total (gen_total_to_concentration t) ≡ t.
Proof.
  intros H c. unfold gen_concentration_to_total, gen_total_to_concentration.
  open_cmp c; try reflexivity. getsimp. field; exact H.
Qed.
Theorem t2c_c2t_roundtrip c0 : ~ vol c0 == 0 ->
  gen_total_to_concentration (gen_concentration_to_total c0) ≡ c0.
Proof.
  intros H c. unfold gen_concentration_to_total, gen_total_to_concentration.
  open_cmp c; try reflexivity. getsimp. field; exact H.
Qed.
Theorem t2c_defined_iff t : gen_total_to_concentration_divok t = true <-> ~ vol t == 0.
Proof.
  unfold gen_total_to_concentration_divok. cbn [implb]. rewrite negb_true_iff.
  split.
  - intros H E. apply Qeq_bool_iff in E. congruence.
  - intros H. destruct (Qeq_bool (vol t) 0) eqn:E; [|reflexivity].
    apply Qeq_bool_iff in E. contradiction.
Qed.

(* ---------- blend (concentration form) and the _c variants ---------- *)
Theorem blend_is_sum_in_concentration_form c1 c2 : 0 < vol c1 + vol c2 ->
  gen_concentration_to_total (gen_blend_vqip c1 c2) ≐
  gen_sum_vqip (gen_concentration_to_total c1) (gen_concentration_to_total c2).
Proof.
  intros H c Hc. rewrite sum_conserved by exact Hc.
  unfold gen_concentration_to_total, gen_blend_vqip.
  open_cmp c; [reflexivity | | destruct Hc]. split_dec; [|lra]. getsimp. field; lra.
Qed.
Theorem blend_quality_is_mean c1 c2 k : 0 < vol c1 + vol c2 ->
  get (nons (gen_blend_vqip c1 c2)) k ==
  (get (nons c1) k * vol c1 + get (nons c2) k * vol c2) / (vol c1 + vol c2).
Proof.
  intros H. unfold gen_blend_vqip; cbn [nons]. split_dec; [|lra]. getsimp. reflexivity.
Qed.
Theorem ds_c_square c c_ :
  gen_ds_vqip_c c c_ ≐ gen_ds_vqip (gen_concentration_to_total c) (gen_concentration_to_total c_).
Proof.
  intros s Hs. rewrite ds_is_difference by exact Hs.
  unfold gen_ds_vqip_c, gen_concentration_to_total.
  open_cmp s; [reflexivity | | destruct Hs]. getsimp. ring.
Qed.
Theorem extract_c_square c1 c2 : 0 < vol c1 - vol c2 ->
  gen_concentration_to_total (gen_extract_vqip_c c1 c2) ≐
  gen_extract_vqip (gen_concentration_to_total c1) (gen_concentration_to_total c2).
Proof.
  intros H s Hs. rewrite extract_conserved by exact Hs.
  unfold gen_extract_vqip_c, gen_concentration_to_total.
  open_cmp s; [reflexivity | | destruct Hs]. split_dec; [|lra]. getsimp. field; lra.
Qed.
Theorem v_change_c_square c v k :
  vol (gen_v_change_vqip_c c v) == v /\
  get (adds (gen_v_change_vqip_c c v)) k == get (adds c) k /\
  get (nons (gen_v_change_vqip_c c v)) k == get (nons c) k.
Proof. repeat split; reflexivity. Qed.
Theorem distill_c_square c v : 0 < vol c - v ->
  gen_concentration_to_total (gen_v_distill_vqip_c c v) ≐
  gen_v_distill_vqip (gen_concentration_to_total c) v.
Proof.
  intros H s Hs. unfold gen_v_distill_vqip_c, gen_v_distill_vqip, gen_concentration_to_total, gen_blend_vqip.
  open_cmp s; [ring | | destruct Hs].
  split_dec; [|lra]. getsimp. field; lra.
Qed.
Theorem distill_c_keeps_quality c v k :
  get (nons (gen_v_distill_vqip_c c v)) k == get (nons c) k.
Proof. reflexivity. Qed.

(* ---------- purity: no operation modifies its arguments ---------- *)
Lemma eta v : mkV (vol v) (adds v) (nons v) = v. Proof. destruct v; reflexivity. Qed.
Ltac pure := intros; cbv delta [gen_blend_vqip_after gen_sum_vqip_after
  gen_concentration_to_total_after gen_total_to_concentration_after gen_extract_vqip_after
  gen_extract_vqip_c_after gen_v_distill_vqip_after gen_v_distill_vqip_c_after
  gen_v_change_vqip_after gen_v_change_vqip_c_after gen_ds_vqip_after gen_ds_vqip_c_after] beta;
  rewrite ?eta; reflexivity.
Theorem blend_pure a b : gen_blend_vqip_after a b = (a, b). Proof. pure. Qed.
Theorem sum_pure a b : gen_sum_vqip_after a b = (a, b). Proof. pure. Qed.
Theorem c2t_pure a : gen_concentration_to_total_after a = a. Proof. pure. Qed.
Theorem t2c_pure a : gen_total_to_concentration_after a = a. Proof. pure. Qed.
Theorem extract_pure a b : gen_extract_vqip_after a b = (a, b). Proof. pure. Qed.
Theorem extract_c_pure a b : gen_extract_vqip_c_after a b = (a, b). Proof. pure. Qed.
Theorem distill_pure a v : gen_v_distill_vqip_after a v = a. Proof. pure. Qed.
Theorem distill_c_pure a v : gen_v_distill_vqip_c_after a v = a. Proof. pure. Qed.
Theorem change_pure a v : gen_v_change_vqip_after a v = a. Proof. pure. Qed.
Theorem change_c_pure a v : gen_v_change_vqip_c_after a v = a. Proof. pure. Qed.
Theorem ds_pure a b : gen_ds_vqip_after a b = (a, b). Proof. pure. Qed.
Theorem ds_c_pure a b : gen_ds_vqip_c_after a b = (a, b). Proof. pure. Qed.
