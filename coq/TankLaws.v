(* TankLaws.v — laws of the Tank / ResidenceTank / DecayTank model (Tank.v),
   stated over the interpreter step used by the correspondence check
   (Run.tank_step), for every operation sequence and every prefix. *)
From Coq Require Import QArith Qminmax Lqa Lia List Bool Setoid Morphisms.
From WSI Require Import Vqip Pow Enc Tank Arc QTank Run.
Import ListNotations.
Open Scope Q_scope.

Ltac spec_max a b := let H := fresh "Hmx" in let I := fresh "Hmi" in destruct (Q.max_spec a b) as [[I H]|[I H]].
Ltac spec_min a b := let H := fresh "Hmn" in let I := fresh "Hmj" in destruct (Q.min_spec a b) as [[I H]|[I H]].

Lemma vol_sub a b : vol (vsub a b) == vol a - vol b.
Proof. apply (cmp_sub SVol a b I). Qed.
Lemma add_sum k a b : get (adds (vsum a b)) k == get (adds a) k + get (adds b) k.
Proof. apply (cmp_sum (SAdd k) a b I). Qed.
Lemma add_sub k a b : get (adds (vsub a b)) k == get (adds a) k - get (adds b) k.
Proof. apply (cmp_sub (SAdd k) a b I). Qed.
Lemma cmp_vzero c : cmp c vzero == 0. Proof. apply cmp_zero. Qed.
Lemma nonneg_zero : nonneg vzero.
Proof. intros c _. rewrite cmp_zero. lra. Qed.

(* the conserved components of a rescaled flux, in all cases *)
Lemma cmp_change_cases c t v : conserved c ->
  (0 < vol t /\ cmp c (vchange t v) == cmp c t * (v / vol t)) \/
  (vol t <= 0 /\ cmp c (vchange t v) == match c with SVol => v | _ => cmp c t end).
Proof.
  intros Hc. destruct (Qlt_le_dec 0 (vol t)) as [H|H].
  - left. split; [exact H|]. apply cmp_change_pos; assumption.
  - right. split; [exact H|]. destruct c as [|k|k]; [apply vol_change | apply add_change_dry; exact H | destruct Hc].
Qed.

(* rescaling a wet non-negative flux to a part of its volume stays within it *)
Lemma change_within c t v : conserved c -> nonneg t -> 0 <= v <= vol t ->
  (vol t <= 0 -> forall k, get (adds t) k == 0) ->
  0 <= cmp c (vchange t v) <= cmp c t.
Proof.
  intros Hc Hn [Hv0 Hv1] Hdry. pose proof (Hn c Hc) as Hx.
  destruct (cmp_change_cases c t v Hc) as [[Hp E]|[Hp E]]; rewrite E.
  - assert (0 <= v / vol t <= 1) by (split; [apply Qle_shift_div_l; lra | apply Qle_shift_div_r; lra]). nra.
  - destruct c as [|k|k]; [cbn [cmp]; lra | | destruct Hc]. cbn [cmp] in *. rewrite (Hdry Hp k). lra.
Qed.

(* wet split: the two parts of a wet flux add up to it *)
Lemma change_split_wet c t x : conserved c -> wet t ->
  cmp c (vchange t x) + cmp c (vchange t (vol t - x)) == cmp c t.
Proof.
  intros Hc [Hn Hdry].
  destruct (cmp_change_cases c t x Hc) as [[Hp E1]|[Hp E1]];
  destruct (cmp_change_cases c t (vol t - x) Hc) as [[Hp' E2]|[Hp' E2]]; try lra; rewrite E1, E2.
  - field; lra.
  - destruct c as [|k|k]; [cbn [cmp]; ring | | destruct Hc]. cbn [cmp]. rewrite (Hdry Hp k). ring.
Qed.

(* ---------------- Tank.push_storage ---------------- *)
Section Push.
Variables (t : tank) (v : vqip).
Let s := vol (t_sto t).
Let excess := Qmax (t_cap t - s) 0.
Let rvol := Qmax (vol v - excess) 0.

Lemma t_excess_vol ov :
  vol (t_get_excess t ov) ==
  match ov with Some x => Qmin x (Qmax (t_cap t - vol (t_sto t)) 0) | None => Qmax (t_cap t - vol (t_sto t)) 0 end.
Proof. unfold t_get_excess. rewrite vol_change. destruct ov; reflexivity. Qed.

Lemma t_push_reply_vol : vol (snd (t_push t v false)) == rvol.
Proof.
  unfold t_push; cbn [snd]. rewrite vol_change. rewrite (t_excess_vol None). reflexivity.
Qed.
Lemma t_push_reply_cmp c : cmp c (snd (t_push t v false)) == cmp c (vchange v rvol).
Proof.
  unfold t_push; cbn [snd]. apply vchange_ext. rewrite (t_excess_vol None). reflexivity.
Qed.
Lemma t_push_sto_vol : vol (t_sto (fst (t_push t v false))) == s + (vol v - rvol).
Proof.
  unfold t_push; cbn [fst t_with t_sto]. rewrite vol_sum, !vol_change, (t_excess_vol None). reflexivity.
Qed.
(* an unforced push never raises the store above max(capacity, current level) *)
Lemma t_push_fill : vol (t_sto (fst (t_push t v false))) <= Qmax (t_cap t) s.
Proof.
  rewrite t_push_sto_vol. unfold rvol, excess.
  spec_max (t_cap t - s) 0; spec_max (vol v - Qmax (t_cap t - s) 0) 0; spec_max (t_cap t) s; lra.
Qed.
(* the reply is between nothing and the offer; what entered plus reply is the offer *)
Lemma t_push_reply_range : 0 <= vol v -> 0 <= vol (snd (t_push t v false)) <= vol v.
Proof.
  intros Hv. rewrite t_push_reply_vol. unfold rvol, excess.
  spec_max (t_cap t - s) 0; spec_max (vol v - Qmax (t_cap t - s) 0) 0; lra.
Qed.
Lemma t_push_conserves c : conserved c -> wet v ->
  cmp c (t_sto (fst (t_push t v false))) + cmp c (snd (t_push t v false)) == cmp c (t_sto t) + cmp c v.
Proof.
  intros Hc Hw. unfold t_push; cbn [fst snd t_with t_sto].
  rewrite cmp_sum by exact Hc.
  set (r := Qmax (vol v - vol (t_get_excess t None)) 0).
  rewrite (vchange_ext v (vol v - vol (vchange v r)) (vol v - r) c) by (rewrite vol_change; reflexivity).
  pose proof (change_split_wet c v r Hc Hw). lra.
Qed.
Lemma t_push_forced c : conserved c ->
  cmp c (t_sto (fst (t_push t v true))) == cmp c (t_sto t) + cmp c v /\ cmp c (snd (t_push t v true)) == 0.
Proof.
  intros Hc. unfold t_push; cbn [fst snd t_with t_sto]. rewrite cmp_sum by exact Hc. rewrite cmp_zero. split; reflexivity.
Qed.
Lemma t_push_nonneg force : nonneg (t_sto t) -> wet v ->
  nonneg (t_sto (fst (t_push t v force))) /\ nonneg (snd (t_push t v force)).
Proof.
  intros Hs Hw. destruct force.
  - split; intros c Hc; destruct (t_push_forced c Hc) as [E1 E2]; rewrite ?E1, ?E2;
      [pose proof (Hs c Hc); pose proof (proj1 Hw c Hc); lra | lra].
  - assert (R : 0 <= rvol <= vol v).
    { pose proof (proj1 Hw SVol I) as Hv. cbn [cmp] in Hv.
      rewrite <- t_push_reply_vol. apply t_push_reply_range; exact Hv. }
    assert (Hr : forall c, conserved c -> 0 <= cmp c (snd (t_push t v false)) <= cmp c v).
    { intros c Hc. rewrite t_push_reply_cmp.
      apply change_within; [exact Hc | exact (proj1 Hw) | exact R | exact (proj2 Hw)]. }
    split; intros c Hc; [|apply Hr; exact Hc].
    pose proof (t_push_conserves c Hc Hw). pose proof (Hr c Hc). pose proof (Hs c Hc). lra.
Qed.
End Push.

(* ---------------- pulls and evaporation ---------------- *)
Lemma t_pull_spec t v c : conserved c -> nonneg (t_sto t) -> 0 <= v ->
  0 <= cmp c (snd (t_pull t v)) <= cmp c (t_sto t) /\
  cmp c (t_sto (fst (t_pull t v))) == cmp c (t_sto t) - cmp c (snd (t_pull t v)) /\
  vol (snd (t_pull t v)) <= v.
Proof.
  intros Hc Hn Hv. unfold t_pull. destruct (Qeq_bool (vol (t_sto t)) 0) eqn:E.
  - cbn [fst snd]. rewrite !cmp_zero. pose proof (Hn c Hc). cbn [vol vzero]. repeat split; lra.
  - cbn [fst snd t_with t_sto]. rewrite cmp_sub by exact Hc.
    assert (Hp : 0 < vol (t_sto t)).
    { pose proof (Hn SVol I) as H0; cbn [cmp] in H0. destruct (Qlt_le_dec 0 (vol (t_sto t))) as [H|H]; [exact H|].
      assert (vol (t_sto t) == 0) by lra. apply Qeq_bool_iff in H1. congruence. }
    rewrite vol_change.
    assert (Hm : 0 <= Qmin v (vol (t_sto t)) <= vol (t_sto t)).
    { split; [apply Q.min_glb; lra | apply Q.le_min_r]. }
    split; [apply change_within; [exact Hc | exact Hn | exact Hm | lra] |].
    split; [reflexivity | apply Q.le_min_l].
Qed.
Lemma t_evaporate_spec t e : 0 <= e -> 0 <= vol (t_sto t) ->
  snd (t_evaporate t e) <= e /\ 0 <= snd (t_evaporate t e) <= vol (t_sto t) /\
  vol (t_sto (fst (t_evaporate t e))) == vol (t_sto t) - snd (t_evaporate t e) /\
  (forall k, get (adds (t_sto (fst (t_evaporate t e)))) k == get (adds (t_sto t)) k).
Proof.
  intros He Hs. unfold t_evaporate; cbn [fst snd t_with t_sto]. rewrite Qred_correct, vol_distill.
  repeat split; try (apply Q.le_min_l); try (apply Q.le_min_r); try (apply Q.min_glb; lra); try reflexivity.
  intros k. apply add_distill.
Qed.
Lemma t_pull_pollutants_spec t v c : conserved c -> nonneg (t_sto t) -> nonneg v ->
  0 <= cmp c (snd (t_pull_pollutants t v)) <= cmp c (t_sto t) /\
  cmp c (snd (t_pull_pollutants t v)) <= cmp c v /\
  cmp c (t_sto (fst (t_pull_pollutants t v))) == cmp c (t_sto t) - cmp c (snd (t_pull_pollutants t v)).
Proof.
  intros Hc Hn Hv. unfold t_pull_pollutants; cbn [fst snd t_with t_sto].
  rewrite cmp_sub by exact Hc. rewrite cmp_norm.
  pose proof (Hn c Hc) as H1. pose proof (Hv c Hc) as H2.
  destruct c as [|k|k]; [| |destruct Hc]; cbn [cmp vol adds] in *.
  - repeat split; try reflexivity; try (apply Q.min_glb; lra); [apply Q.le_min_l | apply Q.le_min_r].
  - rewrite get_vmap2 by reflexivity.
    repeat split; try reflexivity; try (apply Q.min_glb; lra); [apply Q.le_min_l | apply Q.le_min_r].
Qed.

(* ---------------- close-out ---------------- *)
Lemma vdecay_partition d T v k :
  get (adds (fst (vdecay d T v))) k + get (adds (snd (vdecay d T v))) k == get (adds v) k.
Proof.
  unfold vdecay; cbn [fst snd]. unfold vnorm; cbn [adds]. rewrite !get_Qred.
  rewrite !get_vmap2 by (first [reflexivity | ring]). ring.
Qed.
Lemma vdecay_vol d T v : vol (fst (vdecay d T v)) == vol v /\ vol (snd (vdecay d T v)) == 0.
Proof. unfold vdecay, vnorm; cbn [fst snd vol]. rewrite !Qred_correct. split; reflexivity. Qed.
Lemma vdecay_conserved d T v c : conserved c ->
  cmp c (fst (vdecay d T v)) + cmp c (snd (vdecay d T v)) == cmp c v.
Proof.
  intros Hc. destruct c as [|k|k]; [| |destruct Hc]; cbn [cmp].
  - destruct (vdecay_vol d T v) as [E1 E2]. rewrite E1, E2. ring.
  - apply vdecay_partition.
Qed.
(* close-out: the physical store changes only by what total_decayed records,
   and the lagged copy is the store before decay *)
Lemma t_end_closeout t T c : conserved c ->
  cmp c (t_sto (t_end t T)) + (match t_dec t with [] => 0 | _ => cmp c (t_decayed (t_end t T)) end)
    == cmp c (t_sto t) /\
  t_sto_ (t_end t T) = t_sto t.
Proof.
  intros Hc. unfold t_end. destruct (t_dec t) as [|p d] eqn:E.
  - cbn [t_sto t_sto_]. split; [ring | reflexivity].
  - destruct (vdecay (p :: d) T (t_sto t)) as [rem diff] eqn:Ed. cbn [t_sto t_sto_ t_decayed].
    split; [|reflexivity]. rewrite cmp_sum by exact Hc. rewrite cmp_zero.
    pose proof (vdecay_conserved (p :: d) T (t_sto t) c Hc) as H. rewrite Ed in H. cbn [fst snd] in H. lra.
Qed.
(* the reported change of a tank (ds) is physical change + decay *)
Lemma t_ds_reports t c : conserved c ->
  cmp c (t_ds t) == cmp c (t_sto t) - cmp c (t_sto_ t)
                    + (match t_dec t with [] => 0 | _ => cmp c (t_decayed t) end).
Proof.
  intros Hc. unfold t_ds. destruct (t_dec t).
  - rewrite cmp_ds by exact Hc. ring.
  - rewrite cmp_sum, cmp_ds by exact Hc. ring.
Qed.

(* the remainder of an unforced push lies between nothing and the offer, component-wise *)
Lemma t_push_reply_within t v c : conserved c -> wet v ->
  0 <= cmp c (snd (t_push t v false)) <= cmp c v.
Proof.
  intros Hc Hw. rewrite t_push_reply_cmp.
  assert (R : 0 <= Qmax (vol v - Qmax (t_cap t - vol (t_sto t)) 0) 0 <= vol v).
  { pose proof (proj1 Hw SVol I) as Hv. cbn [cmp] in Hv.
    rewrite <- t_push_reply_vol. apply t_push_reply_range; exact Hv. }
  apply change_within; [exact Hc | exact (proj1 Hw) | exact R | exact (proj2 Hw)].
Qed.
Lemma t_pull_nonneg t v : nonneg (t_sto t) -> 0 <= v ->
  nonneg (t_sto (fst (t_pull t v))) /\ nonneg (snd (t_pull t v)).
Proof.
  intros Hn Hv. split; intros c Hc; destruct (t_pull_spec t v c Hc Hn Hv) as (H1 & H2 & H3); [rewrite H2|]; lra.
Qed.
