(* Tank.v — executable model of wsimod.nodes.tanks.{Tank, ResidenceTank,
   DecayTank}.  Model file: definitions only.  Every method is a function from
   the fields it reads to the fields it writes and its return value. *)
From Coq Require Import QArith Qminmax List Bool.
From WSI Require Import Vqip Pow.
Import ListNotations.
Open Scope Q_scope.

(* make_decay on a flux: (remaining, removed); decays aligned with the additive
   pollutants, a pollutant without parameters has constant 0 *)
Definition dfrac (T : Q) (p : Q * Q) : Q := Qmin (fst p * pow_s (snd p) (T - (20#1))) 1.
Definition vdecay (d : list (Q * Q)) (T : Q) (v : vqip) : vqip * vqip :=
  let diff := vmap2 Qmult (adds v) (map (dfrac T) d) in
  (vnorm (mkV (vol v) (vmap2 Qminus (adds v) diff) (nons v)), vnorm (mkV 0 diff [])).

Record tank := mkT {
  t_cap : Q; t_sto : vqip; t_sto_ : vqip;
  t_dec : list (Q * Q);       (* [] for a non-decaying tank *)
  t_decayed : vqip;           (* DecayTank.total_decayed *)
  t_res : Q                   (* ResidenceTank.residence_time *)
}.
Definition t_with (t : tank) (s : vqip) : tank :=
  mkT (t_cap t) s (t_sto_ t) (t_dec t) (t_decayed t) (t_res t).

Definition t_init (cap : Q) (init : vqip) (dec : list (Q * Q)) (res : Q) : tank :=
  mkT cap init init dec vzero res.

Definition t_get_excess (t : tank) (ov : option Q) : vqip :=
  let v0 := Qmax (t_cap t - vol (t_sto t)) 0 in
  let v1 := match ov with Some v => Qmin v v0 | None => v0 end in
  vchange (t_sto t) v1.
Definition t_get_avail (t : tank) (ov : option Q) : vqip :=
  match ov with
  | None => t_sto t
  | Some v => vchange (t_sto t) (Qmin (vol (t_sto t)) v)
  end.
Definition t_push (t : tank) (v : vqip) (force : bool) : tank * vqip :=
  if force then (t_with t (vsum (t_sto t) v), vzero)
  else
    let excess := vol (t_get_excess t None) in
    let reply := vchange v (Qmax (vol v - excess) 0) in
    let entered := vchange v (vol v - vol reply) in
    (t_with t (vsum (t_sto t) entered), reply).
Definition t_pull (t : tank) (v : Q) : tank * vqip :=
  if Qeq_bool (vol (t_sto t)) 0 then (t, vzero)
  else
    let reply := vchange (t_sto t) (Qmin v (vol (t_sto t))) in
    (t_with t (vsub (t_sto t) reply), reply).
Definition t_pull_pollutants (t : tank) (v : vqip) : tank * vqip :=
  let w := vnorm (mkV (Qmin (vol (t_sto t)) (vol v)) (vmap2 Qmin (adds (t_sto t)) (adds v)) (nons v)) in
  (t_with t (vsub (t_sto t) w), w).
Definition t_pull_ponded (t : tank) : tank * vqip :=
  t_pull t (Qmax (vol (t_sto t) - t_cap t) 0).
Definition t_evaporate (t : tank) (e : Q) : tank * Q :=
  let e' := Qmin e (vol (t_sto t)) in
  (t_with t (vdistill (t_sto t) e'), Qred e').
Definition t_pull_outflow (t : tank) : tank * vqip :=
  t_pull t (vol (vchange (t_sto t) (vol (t_sto t) / t_res t))).
(* close-out: plain tank copies; decaying tank copies, then decays and records *)
Definition t_end (t : tank) (T : Q) : tank :=
  match t_dec t with
  | [] => mkT (t_cap t) (t_sto t) (t_sto t) [] (t_decayed t) (t_res t)
  | d => let '(rem, diff) := vdecay d T (t_sto t) in
         mkT (t_cap t) rem (t_sto t) d (vsum vzero diff) (t_res t)
  end.
Definition t_ds (t : tank) : vqip :=
  match t_dec t with
  | [] => vds (t_sto t) (t_sto_ t)
  | _ => vsum (vds (t_sto t) (t_sto_ t)) (t_decayed t)
  end.
