(* ParamLaws.v — laws of the parameter models of Params.v (C14, C15):
     * an override behaves like construction with the merged arguments (… _as_ctor),
       for every sequence of overrides (… _seq);
     * applying the same override again changes nothing (… _idem);
     * derived quantities stay consistent in every reachable state (… _consistent);
     * constructing from what save writes gives the component back (… _save_load), and the
       arguments written by a second save are those of the first (… _second_generation);
     * a component that copies its dict-valued parameters is never changed by an override
       of another component, nor is the default argument (no_cross_talk, fresh_default). *)
From Coq Require Import QArith Qfield Lqa Lia List Bool Arith.
From WSI Require Import Params.
Import ListNotations.
Open Scope Q_scope.

Lemma qred_eq a b : a == b -> Qred a = Qred b.
Proof. apply Qred_complete. Qed.

Lemma ov_idem o x : ov o (ov o x) = ov o x.
Proof. destruct o; reflexivity. Qed.

Lemma dupdate_self u : dupdate u u = u.
Proof. induction u as [|z l IHl]; cbn [dupdate]; [reflexivity|]. f_equal; [destruct z; reflexivity | exact IHl]. Qed.
Lemma dupdate_idem c u : dupdate (dupdate c u) u = dupdate c u.
Proof.
  revert u; induction c as [|x c IH]; intros [|y u]; try reflexivity.
  - change (dupdate [] (y :: u)) with (y :: u). apply dupdate_self.
  - cbn [dupdate]. f_equal; [destruct y; reflexivity | apply IH].
Qed.

Lemma qeqb_false x : ~ x == 0 -> Qeq_bool x 0 = false.
Proof. intros H. destruct (Qeq_bool x 0) eqn:E; [apply Qeq_bool_eq in E; contradiction | reflexivity]. Qed.

(* ------------------------------------------------------------------ Tank, Arc *)
Lemma tank_as_ctor a o : tank_ov (tank_mk a) o = tank_mk (tank_merge a o).
Proof. reflexivity. Qed.
Lemma tank_idem t o : tank_ov (tank_ov t o) o = tank_ov t o.
Proof. unfold tank_ov; cbn [pt_cap pt_area pt_datum]; rewrite !ov_idem; reflexivity. Qed.
Lemma arc_as_ctor a o : arc_ov (arc_mk a) o = arc_mk (arc_merge a o).
Proof. reflexivity. Qed.
Lemma arc_idem t o : arc_ov (arc_ov t o) o = arc_ov t o.
Proof. unfold arc_ov; cbn [pa_cap pa_pref]; rewrite !ov_idem; reflexivity. Qed.
Lemma arc_save_load t : arc_mk (arc_save t) = t.
Proof. reflexivity. Qed.

(* --------------------------------------------------------------------- Surface *)
Lemma surf_as_ctor a o : surf_ov (surf_mk a) o = surf_mk (surf_merge a o).
Proof. reflexivity. Qed.
Lemma surf_seq a os : fold_left surf_ov os (surf_mk a) = surf_mk (fold_left surf_merge os a).
Proof.
  revert a; induction os as [|o os IH]; intros a; cbn [fold_left]; [reflexivity|].
  rewrite surf_as_ctor; apply IH.
Qed.
Lemma surf_idem s o : surf_ov (surf_ov s o) o = surf_ov s o.
Proof. unfold surf_ov; cbn [s_area s_depth s_load]; rewrite !ov_idem, dupdate_idem; reflexivity. Qed.
Definition surf_ok (s : psurf) : Prop := s_cap s = qmul (s_area s) (s_depth s).
Lemma surf_consistent a os : surf_ok (fold_left surf_ov os (surf_mk a)).
Proof. rewrite surf_seq; reflexivity. Qed.
Lemma surf_save_load_ok s : surf_ok s -> surf_mk (surf_save s) = s.
Proof. destruct s as [ar d c l]; unfold surf_ok, surf_mk, surf_save; cbn; intros ->; reflexivity. Qed.
Lemma surf_save_load a os : let s := fold_left surf_ov os (surf_mk a) in surf_mk (surf_save s) = s.
Proof. cbv zeta; apply surf_save_load_ok, surf_consistent. Qed.
Lemma surf_second_generation s : surf_save (surf_mk (surf_save s)) = surf_save s.
Proof. reflexivity. Qed.
(* an override of the capacity alone is ignored *)
Lemma surf_capacity_override_ignored s c : surf_ok s -> surf_ov s (mkOS None None (Some c) []) = mkPS (s_area s) (s_depth s) (s_cap s) (dupdate (s_load s) []).
Proof. intros H; unfold surf_ov; cbn [os_area os_depth os_load ov]; rewrite H; reflexivity. Qed.

(* ----------------------------------------------------------- ImperviousSurface *)
Lemma imp_as_ctor a o : imp_ov (imp_mk a) o = imp_mk (imp_merge a o).
Proof. reflexivity. Qed.
Lemma imp_seq a os : fold_left imp_ov os (imp_mk a) = imp_mk (fold_left imp_merge os a).
Proof.
  revert a; induction os as [|o os IH]; intros a; cbn [fold_left]; [reflexivity|].
  rewrite imp_as_ctor; apply IH.
Qed.
Lemma imp_idem s o : imp_ov (imp_ov s o) o = imp_ov s o.
Proof. unfold imp_ov; cbn [i_area i_pore i_e i_load]; rewrite !ov_idem, dupdate_idem; reflexivity. Qed.
Definition imp_ok (s : pimp) : Prop := i_depth s = i_pore s /\ i_cap s = qmul (i_area s) (i_pore s).
Lemma imp_consistent a os : imp_ok (fold_left imp_ov os (imp_mk a)).
Proof. rewrite imp_seq; split; reflexivity. Qed.
Lemma imp_save_load a os : let s := fold_left imp_ov os (imp_mk a) in imp_mk (imp_save s) = s.
Proof. cbv zeta; rewrite imp_seq; reflexivity. Qed.
Lemma imp_second_generation s : imp_save (imp_mk (imp_save s)) = imp_save s.
Proof. reflexivity. Qed.

(* ------------------------------------------------------------- PerviousSurface *)
Lemma phys_back d tp : ~ tp == 0 -> qdiv (qmul d tp) tp == d.
Proof. intros H; unfold qdiv, qmul; rewrite !Qred_correct; field; exact H. Qed.

Lemma perv_as_ctor a o : ~ ap_tp a == 0 -> perv_ov (perv_mk a) o = Some (perv_mk (perv_merge a o)).
Proof.
  intros Htp. unfold perv_ov.
  cbn [perv_mk v_tp v_depth v_fc v_wp v_inf v_perc v_area v_load].
  rewrite (qeqb_false _ Htp). f_equal.
  pose proof (phys_back (ap_depth a) (ap_tp a) Htp) as Hp.
  unfold perv_mk, perv_merge; cbn [ap_area ap_depth ap_tp ap_fc ap_wp ap_perc ap_inf ap_load].
  assert (Hd : ov (op_depth o) (qdiv (qmul (ap_depth a) (ap_tp a)) (ap_tp a)) == ov (op_depth o) (ap_depth a))
    by (destruct (op_depth o); cbn [ov]; [reflexivity | exact Hp]).
  assert (E1 : qmul (ov (op_depth o) (qdiv (qmul (ap_depth a) (ap_tp a)) (ap_tp a))) (ov (op_tp o) (ap_tp a))
               = qmul (ov (op_depth o) (ap_depth a)) (ov (op_tp o) (ap_tp a)))
    by (apply qred_eq; rewrite Hd; reflexivity).
  rewrite E1.
  f_equal; apply qred_eq; try rewrite Hd; try reflexivity; ring.
Qed.

Definition perv_bind (s : option pperv) (o : operv) : option pperv :=
  match s with Some s => perv_ov s o | None => None end.
Definition perv_run (s : pperv) (os : list operv) : option pperv := fold_left perv_bind os (Some s).
(* every porosity on the way is non-zero *)
Fixpoint tps_nonzero (tp : Q) (os : list operv) : Prop :=
  ~ tp == 0 /\ match os with [] => True | o :: os' => tps_nonzero (ov (op_tp o) tp) os' end.

Lemma perv_bind_none os : fold_left perv_bind os None = None.
Proof. induction os as [|o os IH]; [reflexivity | exact IH]. Qed.

Lemma perv_seq a os : tps_nonzero (ap_tp a) os ->
  perv_run (perv_mk a) os = Some (perv_mk (fold_left perv_merge os a)).
Proof.
  unfold perv_run. revert a; induction os as [|o os IH]; intros a H; cbn [fold_left]; [reflexivity|].
  destruct H as [H0 H1]. cbn [perv_bind]. rewrite (perv_as_ctor a o H0).
  apply IH. exact H1.
Qed.

Lemma perv_idem s o s1 : perv_ov s o = Some s1 -> ~ v_tp s1 == 0 -> perv_ov s1 o = Some s1.
Proof.
  unfold perv_ov. destruct (Qeq_bool (v_tp s) 0) eqn:E0; [discriminate|].
  intros H; injection H as <-. cbn [v_tp v_depth v_fc v_wp v_inf v_perc v_area v_load].
  intros Htp. rewrite (qeqb_false _ Htp). f_equal.
  rewrite !ov_idem, dupdate_idem.
  set (phys := qdiv (v_depth s) (v_tp s)).
  set (tp := ov (op_tp o) (v_tp s)) in *.
  pose proof (phys_back (ov (op_depth o) phys) tp Htp) as Hp.
  assert (Hd : ov (op_depth o) (qdiv (qmul (ov (op_depth o) phys) tp) tp) == ov (op_depth o) phys)
    by (destruct (op_depth o); cbn [ov] in *; [reflexivity | exact Hp]).
  assert (E1 : qmul (ov (op_depth o) (qdiv (qmul (ov (op_depth o) phys) tp) tp)) tp = qmul (ov (op_depth o) phys) tp)
    by (apply qred_eq; rewrite Hd; reflexivity).
  rewrite E1.
  f_equal; apply qred_eq; rewrite Hd; reflexivity.
Qed.

Definition perv_ok (s : pperv) : Prop :=
  exists depth, ~ v_tp s == 0 /\ v_depth s = qmul depth (v_tp s) /\ v_cap s = qmul (v_area s) (v_depth s)
                /\ v_fcm s = qmul (v_fc s) depth /\ v_wpm s = qmul (v_wp s) depth /\ v_subs s = qsub 1 (v_perc s).
Lemma perv_mk_ok a : ~ ap_tp a == 0 -> perv_ok (perv_mk a).
Proof. intros H; exists (ap_depth a); repeat split; try reflexivity; exact H. Qed.
Lemma tps_last tp os : tps_nonzero tp os -> ~ fold_left (fun t o => ov (op_tp o) t) os tp == 0.
Proof.
  revert tp; induction os as [|o os IH]; intros tp [H0 H1]; cbn [fold_left]; [exact H0 | apply IH, H1].
Qed.
Lemma merge_tp a os : ap_tp (fold_left perv_merge os a) = fold_left (fun t o => ov (op_tp o) t) os (ap_tp a).
Proof. revert a; induction os as [|o os IH]; intros a; cbn [fold_left]; [reflexivity | rewrite IH; reflexivity]. Qed.
Lemma perv_consistent a os s : tps_nonzero (ap_tp a) os -> perv_run (perv_mk a) os = Some s -> perv_ok s.
Proof.
  intros H R. rewrite (perv_seq a os H) in R. injection R as <-.
  apply perv_mk_ok. rewrite merge_tp. apply tps_last, H.
Qed.

Lemma perv_save_load_mk a : ~ ap_tp a == 0 ->
  exists a', perv_save (perv_mk a) = Some a' /\ perv_mk a' = perv_mk a.
Proof.
  intros Htp. unfold perv_save. cbn [perv_mk v_tp v_depth v_area v_fc v_wp v_perc v_inf v_load].
  rewrite (qeqb_false _ Htp). eexists; split; [reflexivity|].
  pose proof (phys_back (ap_depth a) (ap_tp a) Htp) as Hp.
  unfold perv_mk; cbn [ap_area ap_depth ap_tp ap_fc ap_wp ap_perc ap_inf ap_load].
  assert (E1 : qmul (qdiv (qmul (ap_depth a) (ap_tp a)) (ap_tp a)) (ap_tp a) = qmul (ap_depth a) (ap_tp a))
    by (apply qred_eq; rewrite Hp; reflexivity).
  rewrite E1. f_equal; apply qred_eq; rewrite Hp; reflexivity.
Qed.
Lemma perv_save_load a os s : tps_nonzero (ap_tp a) os -> perv_run (perv_mk a) os = Some s ->
  exists a', perv_save s = Some a' /\ perv_mk a' = s.
Proof.
  intros H R. rewrite (perv_seq a os H) in R. injection R as <-.
  apply perv_save_load_mk. rewrite merge_tp. apply tps_last, H.
Qed.
(* what a second save writes is what the first one wrote *)
Lemma perv_second_generation a a1 : ~ ap_tp a == 0 -> perv_save (perv_mk a) = Some a1 ->
  perv_save (perv_mk a1) = Some a1.
Proof.
  intros Htp. unfold perv_save. cbn [perv_mk v_tp v_depth v_area v_fc v_wp v_perc v_inf v_load].
  rewrite (qeqb_false _ Htp). intros H; injection H as <-.
  cbn [ap_tp ap_depth ap_area ap_fc ap_wp ap_perc ap_inf ap_load]. rewrite (qeqb_false _ Htp).
  f_equal. f_equal. apply qred_eq.
  pose proof (phys_back (ap_depth a) (ap_tp a) Htp) as Hp.
  unfold qmul at 1. rewrite Qred_correct, Hp. unfold qmul; rewrite Qred_correct; reflexivity.
Qed.
(* writing the attribute itself (the tree before the repair) loses the depth *)
Lemma perv_save_attr_refuted : exists a, ~ ap_tp a == 0 /\ perv_mk (perv_save_attr (perv_mk a)) <> perv_mk a.
Proof.
  exists (mkAP 10 (1#2) (2#5) (3#10) (1#10) (1#5) (1#2) []). split; [discriminate|].
  vm_compute. discriminate.
Qed.

(* --------------------------------------------------------------------- Storage *)
Definition store_ok (s : pstore) : Prop := n_tank s = mkPT (n_cap s) (n_area s) (n_datum s).
Lemma store_as_ctor a o : store_ov (store_mk a) o = store_mk (tank_merge a o).
Proof. destruct a; reflexivity. Qed.
Lemma store_seq a os : fold_left store_ov os (store_mk a) = store_mk (fold_left tank_merge os a).
Proof.
  revert a; induction os as [|o os IH]; intros a; cbn [fold_left]; [reflexivity|].
  rewrite store_as_ctor; apply IH.
Qed.
Lemma store_idem s o : store_ov (store_ov s o) o = store_ov s o.
Proof. unfold store_ov; cbn [n_cap n_area n_datum n_tank]; rewrite !ov_idem, tank_idem; reflexivity. Qed.
Lemma store_consistent a os : store_ok (fold_left store_ov os (store_mk a)).
Proof. rewrite store_seq. destruct (fold_left tank_merge os a); reflexivity. Qed.
Lemma store_save_load a os : let s := fold_left store_ov os (store_mk a) in store_mk (store_save s) = s.
Proof. cbv zeta; rewrite store_seq. destruct (fold_left tank_merge os a); reflexivity. Qed.

(* ----------------------------------------------------------------------- River *)
Lemma river_as_ctor U a o : river_ov U (river_mk U a) o = river_mk U (river_merge a o).
Proof. reflexivity. Qed.
Lemma river_seq U a os : fold_left (river_ov U) os (river_mk U a) = river_mk U (fold_left river_merge os a).
Proof.
  revert a; induction os as [|o os IH]; intros a; cbn [fold_left]; [reflexivity|].
  rewrite river_as_ctor; apply IH.
Qed.
Lemma river_idem U s o : river_ov U (river_ov U s o) o = river_ov U s o.
Proof.
  unfold river_ov, store_ov, tank_ov; cbn [r_len r_wid r_vel r_damp r_mrf r_store n_cap n_area n_datum n_tank
    ot_cap ot_area ot_datum pt_cap pt_area pt_datum ov]; rewrite !ov_idem; reflexivity.
Qed.
(* the tank's area is length x width and its capacity is unbounded, whatever was overridden *)
Definition river_ok (U : Q) (s : priver) : Prop :=
  store_ok (r_store s) /\ n_area (r_store s) = qmul (r_len s) (r_wid s) /\ n_cap (r_store s) = U.
Lemma river_consistent U a os : river_ok U (fold_left (river_ov U) os (river_mk U a)).
Proof. rewrite river_seq; repeat split. Qed.
Lemma river_save_load U a os : let s := fold_left (river_ov U) os (river_mk U a) in river_mk U (river_save s) = s.
Proof. cbv zeta; rewrite river_seq; reflexivity. Qed.
Lemma river_second_generation U s : river_save (river_mk U (river_save s)) = river_save s.
Proof. reflexivity. Qed.

(* ------------------------------------------------------------------------- WTW *)
Lemma wtw_as_ctor a o : wtw_ov (wtw_mk a) o = wtw_mk (wtw_merge a o).
Proof. reflexivity. Qed.
Lemma wtw_seq a os : fold_left wtw_ov os (wtw_mk a) = wtw_mk (fold_left wtw_merge os a).
Proof.
  revert a; induction os as [|o os IH]; intros a; cbn [fold_left]; [reflexivity|].
  rewrite wtw_as_ctor; apply IH.
Qed.
Lemma wtw_idem s o : wtw_ov (wtw_ov s o) o = wtw_ov s o.
Proof. unfold wtw_ov; cbn [w_solids w_liquor w_through]; rewrite !ov_idem; reflexivity. Qed.
Definition wtw_ok (s : pwtw) : Prop := w_volc s == 1 - w_solids s - w_liquor s.
Lemma wtw_consistent a os : wtw_ok (fold_left wtw_ov os (wtw_mk a)).
Proof. rewrite wtw_seq; unfold wtw_ok, wtw_mk, wtw_volc; cbn [w_volc w_solids w_liquor]; apply Qred_correct. Qed.
Lemma wtw_save_load a os : let s := fold_left wtw_ov os (wtw_mk a) in wtw_mk (wtw_save s) = s.
Proof. cbv zeta; rewrite wtw_seq; reflexivity. Qed.

(* ------------------------------------------------------------------------------
   ownership of dict-valued parameters *)
Lemma set_nth_length {A} (l : list A) k x : length (set_nth l k x) = length l.
Proof. revert k; induction l as [|y l IH]; intros [|k]; cbn [set_nth length]; try reflexivity. rewrite IH; reflexivity. Qed.
Lemma nth_set_nth_eq {A} (l : list A) k x d : (k < length l)%nat -> nth k (set_nth l k x) d = x.
Proof.
  revert k; induction l as [|y l IH]; intros [|k] H; cbn [set_nth nth length] in *; try lia; [reflexivity|].
  apply IH; lia.
Qed.
Lemma nth_set_nth_neq {A} (l : list A) k j x d : j <> k -> nth j (set_nth l k x) d = nth j l d.
Proof.
  revert k j; induction l as [|y l IH]; intros [|k] [|j] H; cbn [set_nth nth]; try reflexivity; try congruence.
  apply IH; congruence.
Qed.

Definition winv (w : world) : Prop :=
  (0 < length (cells w))%nat /\ NoDup (insts w)
  /\ forall c, In c (insts w) -> (0 < c < length (cells w))%nat.

Lemma NoDup_snoc {A} (l : list A) x : NoDup l -> ~ In x l -> NoDup (l ++ [x]).
Proof.
  induction l as [|y l IH]; intros Hn Hx; cbn [app]; [constructor; [intros [] | constructor]|].
  inversion Hn as [|? ? Hy Hl]; subst. constructor.
  - intros Hin; apply in_app_or in Hin as [Hin | [<- | []]]; [contradiction | apply Hx; left; reflexivity].
  - apply IH; [exact Hl | intros Hin; apply Hx; right; exact Hin].
Qed.

Lemma winv0 d : winv (world0 d).
Proof. unfold winv, world0; cbn [cells insts length]. split; [lia|]. split; [constructor|]. intros c []. Qed.

Lemma copy_inv w g : winv w -> winv (construct_copy w g).
Proof.
  intros (Hc & Hn & Hr). unfold construct_copy, winv; cbn [cells insts].
  rewrite app_length; cbn [length]. split; [lia|]. split.
  - apply NoDup_snoc; [exact Hn|].
    intros Hin; apply Hr in Hin; lia.
  - intros c Hin. apply in_app_or in Hin as [Hin | [<- | []]]; [apply Hr in Hin; lia | lia].
Qed.

Lemma override_inv w i u : winv w -> winv (override_dict w i u).
Proof.
  intros (Hc & Hn & Hr). unfold override_dict, winv; cbn [cells insts]. rewrite set_nth_length.
  repeat split; try assumption; apply Hr; assumption.
Qed.
Lemma wstep_inv w o : winv w -> winv (wstep false w o).
Proof.
  intros H. destruct o as [g | i u]; cbn [wstep]; [apply copy_inv, H|].
  destruct (Nat.ltb i (length (insts w))); [apply override_inv, H | exact H].
Qed.
Definition wrun (alias : bool) (d : dict) (ops : list wop) : world := fold_left (wstep alias) ops (world0 d).
Lemma wfold_inv ops w : winv w -> winv (fold_left (wstep false) ops w).
Proof. revert w; induction ops as [|o ops IH]; intros w H; cbn [fold_left]; [exact H | apply IH, wstep_inv, H]. Qed.
Lemma wrun_inv d ops : winv (wrun false d ops).
Proof. apply wfold_inv, winv0. Qed.

Lemma inst_in w i : (i < length (insts w))%nat -> In (nth i (insts w) 0%nat) (insts w).
Proof. intros H; apply nth_In; exact H. Qed.

Lemma override_frame w i j u : winv w -> (i < length (insts w))%nat -> (j < length (insts w))%nat -> j <> i ->
  view (override_dict w i u) j = view w j.
Proof.
  intros (Hc & Hn & Hr) Hi Hj Hne. unfold view, cell, override_dict; cbn [cells insts].
  apply nth_set_nth_neq. intros E. apply Hne.
  apply (proj1 (NoDup_nth (insts w) 0%nat) Hn j i Hj Hi E).
Qed.
Lemma override_default w i u : winv w -> (i < length (insts w))%nat -> cell (override_dict w i u) 0 = cell w 0.
Proof.
  intros (Hc & Hn & Hr) Hi. unfold cell, override_dict; cbn [cells].
  apply nth_set_nth_neq. pose proof (Hr _ (inst_in w i Hi)). lia.
Qed.
Lemma override_self w i u : winv w -> (i < length (insts w))%nat ->
  view (override_dict w i u) i = dupdate (view w i) u.
Proof.
  intros (Hc & Hn & Hr) Hi. unfold view, cell, override_dict; cbn [cells insts].
  apply nth_set_nth_eq. pose proof (Hr _ (inst_in w i Hi)). lia.
Qed.
Lemma copy_views w g j : winv w -> (j < length (insts w))%nat -> view (construct_copy w g) j = view w j.
Proof.
  intros (Hc & Hn & Hr) Hj. unfold view, cell, construct_copy; cbn [cells insts].
  rewrite (app_nth1 (insts w)) by exact Hj.
  apply app_nth1. pose proof (Hr _ (inst_in w j Hj)). lia.
Qed.
Lemma copy_default w g : winv w -> cell (construct_copy w g) 0 = cell w 0.
Proof. intros (Hc & _). unfold cell, construct_copy; cbn [cells]. apply app_nth1; exact Hc. Qed.
Lemma copy_new w g : view (construct_copy w g) (length (insts w)) = match g with Some d => d | None => cell w 0 end.
Proof.
  unfold view, construct_copy; cbn [cells insts].
  rewrite app_nth2 by lia. rewrite Nat.sub_diag; cbn [nth].
  unfold cell; cbn [cells]. rewrite app_nth2 by lia. rewrite Nat.sub_diag; reflexivity.
Qed.

Lemma wstep_default w o : winv w -> cell (wstep false w o) 0 = cell w 0.
Proof.
  intros H. destruct o as [g | i u]; cbn [wstep]; [apply copy_default, H|].
  destruct (Nat.ltb i (length (insts w))) eqn:E; [|reflexivity].
  apply override_default; [exact H | apply Nat.ltb_lt, E].
Qed.
Lemma wfold_default ops w : winv w -> cell (fold_left (wstep false) ops w) 0 = cell w 0.
Proof.
  revert w; induction ops as [|o ops IH]; intros w H; cbn [fold_left]; [reflexivity|].
  rewrite IH by (apply wstep_inv, H). apply wstep_default, H.
Qed.

(* whatever has been constructed and overridden, the default argument is what it was *)
Theorem default_never_changes d ops : cell (wrun false d ops) 0 = d.
Proof. unfold wrun. rewrite wfold_default by apply winv0. reflexivity. Qed.
(* ... so a component constructed later with default arguments holds the declared default *)
Theorem fresh_default d ops : let w := wrun false d ops in view (construct_copy w None) (length (insts w)) = d.
Proof. cbv zeta. rewrite copy_new. apply default_never_changes. Qed.
(* an override of one component changes its own parameter as dict.update does, and nobody else's *)
Theorem no_cross_talk d ops i u j : let w := wrun false d ops in
  (i < length (insts w))%nat -> (j < length (insts w))%nat -> j <> i ->
  view (wstep false w (WOverride i u)) j = view w j /\ view (wstep false w (WOverride i u)) i = dupdate (view w i) u.
Proof.
  cbv zeta. intros Hi Hj Hne. cbn [wstep]. rewrite (proj2 (Nat.ltb_lt _ _) Hi).
  split; [apply override_frame | apply override_self]; try assumption; apply wrun_inv.
Qed.
(* constructing a component leaves every existing one alone *)
Theorem construction_frame d ops g j : let w := wrun false d ops in
  (j < length (insts w))%nat -> view (wstep false w (WNew g)) j = view w j.
Proof. cbv zeta. intros Hj. cbn [wstep]. apply copy_views; [apply wrun_inv | exact Hj]. Qed.
(* storing the default object itself (the tree before the repair): overriding the first of two
   default-constructed components changes the second, and the default of every later one *)
Theorem alias_refuted : exists d ops u,
  let w := wrun true d ops in
  view (wstep true w (WOverride 0 u)) 1 <> view w 1 /\ cell (wstep true w (WOverride 0 u)) 0 <> d.
Proof.
  exists [], [WNew None; WNew None], [Some 1]. vm_compute. split; discriminate.
Qed.

(* the laws above, bundled per property clause *)
Lemma as_ctor_tank_arc a o b p :
  tank_ov (tank_mk a) o = tank_mk (tank_merge a o) /\ arc_ov (arc_mk b) p = arc_mk (arc_merge b p).
Proof. exact (conj (tank_as_ctor a o) (arc_as_ctor b p)). Qed.
Lemma all_idem (t : ptank) ot (r : parc) oa (s : psurf) os (i : pimp) oi (n : pstore) on U (v : priver) ov_ (w : pwtw) ow :
  tank_ov (tank_ov t ot) ot = tank_ov t ot /\ arc_ov (arc_ov r oa) oa = arc_ov r oa /\
  surf_ov (surf_ov s os) os = surf_ov s os /\ imp_ov (imp_ov i oi) oi = imp_ov i oi /\
  store_ov (store_ov n on) on = store_ov n on /\ river_ov U (river_ov U v ov_) ov_ = river_ov U v ov_ /\
  wtw_ov (wtw_ov w ow) ow = wtw_ov w ow.
Proof.
  exact (conj (tank_idem t ot) (conj (arc_idem r oa) (conj (surf_idem s os) (conj (imp_idem i oi)
        (conj (store_idem n on) (conj (river_idem U v ov_) (wtw_idem w ow))))))).
Qed.
Lemma all_consistent (a : asurf) os (b : aimp) oi (c : ptank) on U (d : ariver) ov_ (e : awtw) ow :
  surf_ok (fold_left surf_ov os (surf_mk a)) /\ imp_ok (fold_left imp_ov oi (imp_mk b)) /\
  store_ok (fold_left store_ov on (store_mk c)) /\ river_ok U (fold_left (river_ov U) ov_ (river_mk U d)) /\
  wtw_ok (fold_left wtw_ov ow (wtw_mk e)).
Proof.
  exact (conj (surf_consistent a os) (conj (imp_consistent b oi) (conj (store_consistent c on)
        (conj (river_consistent U d ov_) (wtw_consistent e ow))))).
Qed.
