(* TimeAreaArrival.v — a time-area push sends every fraction with its own delay (C09): after push_set_land /
   push_set_timearea on a (plain) queue tank, the bucket with k close-outs to go has grown by exactly the fractions whose
   delay is k, each less what the tank handed back of it; what has arrived has grown by the fractions with delay 0;
   the tank is still well-formed.  `ta_landed` names the sum of the fractions that belong to delay k. *)
From Coq Require Import QArith Qminmax Lqa List Bool Arith.
From WSI Require Import Vqip Pow Tank Arc QTank Distrib Kinds TimeArea TankLaws ArcLaws QTankLaws.
Import ListNotations.
Open Scope Q_scope.

Fixpoint ta_landed (c : sel) (t : qtank) (v : vqip) (ta : list (nat * Q)) (k : nat) : Q :=
  match ta with
  | [] => 0
  | (time, f) :: r =>
      let part := vchange v (vol v * f) in
      let '(t', r_) := qt_push t part time false in
      (if Nat.eqb k (time + delay t) then cmp c part - cmp c r_ else 0) + ta_landed c t' v r k
  end.

Theorem ta_push_lands ta : forall t v reply, qt_ok t -> wet v ->
  (forall tf, In tf ta -> 0 <= snd tf <= 1 /\ eps <= vol v * snd tf) ->
  let t' := fst (ta_push t v ta reply) in
  qt_ok t' /\ delay t' = delay t /\
  (forall c, conserved c -> cmp c (act t') == cmp c (act t) + ta_landed c t v ta 0) /\
  (forall c k, conserved c -> k <> O -> cmp c (bucket t' k) == cmp c (bucket t k) + ta_landed c t v ta k).
Proof.
  induction ta as [|[time f] r IH]; intros t v reply Hok Hw Hf; cbn [ta_push ta_landed].
  - cbn [fst]. split; [exact Hok|]. split; [reflexivity|]. split; intros; ring.
  - destruct (Hf (time, f) (or_introl eq_refl)) as [[Hf0 Hf1] Heps]. cbn [snd] in *.
    assert (Hwp : wet (vchange v (vol v * f))).
    { apply wet_part; [exact Hw|]. pose proof (proj1 Hw SVol I) as H0. cbn [cmp] in H0. nra. }
    assert (Hvol : eps <= vol (vchange v (vol v * f))) by (rewrite vol_change; exact Heps).
    pose proof (qt_push_spec t (vchange v (vol v * f)) time Hok Hwp Hvol) as (Hok1 & _ & _ & _ & Hact & Hbk & _ & Hdelay).
    destruct (qt_push t (vchange v (vol v * f)) time false) as [t1 r1]. cbn [fst snd] in *.
    specialize (IH t1 v (vsum reply r1) Hok1 Hw (fun tf Hin => Hf tf (or_intror Hin))). cbv zeta in IH.
    destruct IH as (I1 & I2 & I3 & I4).
    split; [exact I1|]. split; [rewrite I2; exact Hdelay|]. split.
    + intros c Hc. rewrite (I3 c Hc), (Hact c Hc).
      replace (Nat.eqb 0 (time + delay t)) with (Nat.eqb (time + delay t) 0) by apply Nat.eqb_sym. ring.
    + intros c k Hc Hk. rewrite (I4 c k Hc Hk), (Hbk c k Hc Hk). ring.
Qed.
