(* Boundary.v — executable models of the boundary functions (what enters and
   leaves a model): ImperviousSurface.precipitation_evaporation, the simple
   pollutant deposition of a Surface (wsimod/nodes/land.py), ResidentialDemand.
   get_house_demand (wsimod/nodes/demand.py), laws in BoundaryLaws.v (C17).  The
   catchment functions are in Kinds.v / KindLaws.v.  Model file: definitions only. *)
From Coq Require Import QArith Qminmax Lqa List Bool.
From WSI Require Import Vqip Pow Tank.
Import ListNotations.
Open Scope Q_scope.

(* ImperviousSurface.precipitation_evaporation on a surface store `t` of area `area`:
   returns (store', precipitation volume, evaporation volume) *)
Definition imp_precip_evap (t : tank) (area et0_to_e : Q) (rain et0 : Q) (temperature_nons : vec)
  : tank * Q * Q :=
  let evap_depth := et0 * et0_to_e in
  if Qlt_le_dec rain evap_depth then
    let '(t', from_pores) := t_evaporate t ((evap_depth - rain) * area) in
    (t', Qred (rain * area), Qred (from_pores + rain * area))
  else
    let net := mkV (Qred ((rain - evap_depth) * area)) [] temperature_nons in
    let '(t', _) := t_push t net true in
    (t', Qred (rain * area), Qred (evap_depth * area)).

(* Surface.simple_deposition: load x area for additive pollutants, no water *)
Definition simple_deposition (t : tank) (area : Q) (load : vec) : tank * vqip :=
  let pollution := vnorm (mkV 0 (map (fun l => l * area) load) []) in
  let '(t', _) := t_push t pollution true in (t', pollution).

(* ResidentialDemand.get_house_demand *)
Definition house_demand (population per_capita : Q) (load : vec) (temperature : Q) (other_nons : vec) : vqip :=
  vnorm (mkV (population * per_capita) (map (fun l => l * population) load) (temperature :: other_nons)).
Definition house_temperature (air constant_temp weighting : Q) : Q :=
  Qred (air * (1 - weighting) + constant_temp * weighting).

