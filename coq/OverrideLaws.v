(* OverrideLaws.v — apply_overrides on the node models (TimeArea.v, Leak.v, Wtw.v; C15): an override sets exactly the
   parameters it names, keeps what the node holds, is idempotent, keeps the derived quantity (the tank's capacity is the
   node's capacity) - and a node that is overridden behaves from then on like the node that holds the same contents and
   was given those parameters to begin with (the two are the same record, so every later operation agrees).  The
   families tarea, leak and wtw apply overrides to nodes that have been used and compare every later operation. *)
From Coq Require Import QArith Qminmax List Bool Arith.
From WSI Require Import Vqip Pow Tank Arc QTank Distrib Kinds TimeArea Leak Wtw.
Import ListNotations.
Open Scope Q_scope.

Section Ov.
Variable S : Type.

(* Sewer / QueueGroundwater *)
Lemma sw_override_sets (n : qnode S) cap pt ta :
  let n' := sw_override S n cap pt ta in
  s_cap (qt_s (qn_t S n')) = cap /\ qn_pt S n' = pt /\ qn_ta S n' = ta /\
  (* contents, queue and arcs are kept *)
  s_sto (qt_s (qn_t S n')) = s_sto (qt_s (qn_t S n)) /\ s_act (qt_s (qn_t S n')) = s_act (qt_s (qn_t S n)) /\
  qt_l (qn_t S n') = qt_l (qn_t S n) /\ qn_outs S n' = qn_outs S n /\ qn_ins S n' = qn_ins S n.
Proof. cbn. repeat split. Qed.
Lemma sw_override_idem (n : qnode S) cap pt ta :
  sw_override S (sw_override S n cap pt ta) cap pt ta = sw_override S n cap pt ta.
Proof. reflexivity. Qed.
Lemma sw_override_last_wins (n : qnode S) cap pt ta cap' pt' ta' :
  sw_override S (sw_override S n cap pt ta) cap' pt' ta' = sw_override S n cap' pt' ta'.
Proof. reflexivity. Qed.
(* in particular the internal queue keeps its own (zero) built-in delay: the pipe delay is a parameter of the node, not
   of its tank (a change that forwards it to the tank doubles the delay) *)
Lemma sw_override_keeps_tank_delay (n : qnode S) cap pt ta :
  l_n (qt_l (qn_t S (sw_override S n cap pt ta))) = l_n (qt_l (qn_t S n)).
Proof. reflexivity. Qed.

(* Distribution *)
Lemma dn_override_sets (n : dnode S) l :
  dn_leak S (dn_override S n l) = l /\ dn_ins S (dn_override S n l) = dn_ins S n /\ dn_outs S (dn_override S n l) = dn_outs S n.
Proof. repeat split. Qed.
Lemma dn_override_idem (n : dnode S) l : dn_override S (dn_override S n l) l = dn_override S n l.
Proof. reflexivity. Qed.
(* leakage overridden to zero gives the plain junction behaviour back, however often leakage was set before *)
Lemma dn_override_zero_plain (n : dnode S) (P : port S) maxiter l q :
  dn_pull_set S P maxiter (dn_override S (dn_override S n l) 0) q =
  match pull_distributed S P maxiter None (dn_ins S n) q with
  | None => None
  | Some (ins', got, _) => Some (mkDN S ins' (dn_outs S n) 0, got)
  end.
Proof. reflexivity. Qed.

(* WWTW / FWTW *)
Lemma ww_override_sets (w : wwtw S) p tc :
  let w' := ww_override S w p tc in
  ww_p S w' = p /\ t_cap (ww_tank S w') = tc /\ t_sto (ww_tank S w') = t_sto (ww_tank S w) /\
  ww_cur S w' = ww_cur S w /\ ww_treated S w' = ww_treated S w /\ ww_liquor S w' = ww_liquor S w /\ ww_outs S w' = ww_outs S w.
Proof. cbn. repeat split. Qed.
Lemma ww_override_idem (w : wwtw S) p tc : ww_override S (ww_override S w p tc) p tc = ww_override S w p tc.
Proof. reflexivity. Qed.
(* the derived share of treated water follows the two shares it is derived from *)
Lemma w_volconst_derived p : w_volconst p + w_ps p + w_lmvol p == 1.
Proof. unfold w_volconst. ring. Qed.
Lemma fw_override_idem (f : fwtw S) p tc : fw_override S (fw_override S f p tc) p tc = fw_override S f p tc.
Proof. reflexivity. Qed.

End Ov.
