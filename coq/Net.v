(* Net.v — executable model of a whole network of nodes and plain arcs: the
   request / check protocol of wsimod (Node.push_set / pull_set / push_check /
   pull_check through handler tables, Arc.send_*_request / send_*_check,
   Node.npush_distributed / npull_distributed / get_connected / ncheck_basic) as ONE
   open-recursive interpreter over a shared network state, so that re-entrant
   calls through junction chains, confluences and cycles are represented and
   not idealised away.  Node kinds: junction Node, Waste, store-backed nodes
   (Storage / Reservoir / Groundwater handlers), River (hydraulics + minimum
   flow), Catchment.  Model file: definitions only.

   exec_body rec s r: `rec` answers the nested requests; exec (S fuel) =
   exec_body (exec fuel); None = the implementation raises (ZeroDivisionError /
   RecursionError when fuel runs out). *)
From Coq Require Import QArith Qminmax List Bool Arith.
From WSI Require Import Vqip Pow Tank Arc QTank Distrib Kinds.
Import ListNotations.
Open Scope Q_scope.

Inductive nkind := NJunction | NWaste | NStore | NRiver | NCatchment.

Record nnode := mkNN {
  nn_kind : nkind;
  nn_ty : nat;                    (* class name as neighbours see it (ids of Kinds.v; 6 = Storage, 7 = Catchment) *)
  nn_tank : tank;
  nn_outs : list nat;             (* out-arc ids, creation order *)
  nn_ins : list nat;              (* in-arc ids, creation order *)
  nn_res : Q;                     (* Groundwater residence time *)
  nn_len : Q; nn_vel : Q; nn_damp : Q; nn_mrf : Q;      (* River *)
  nn_unrouted : vqip;             (* Catchment.unrouted_water *)
  nn_flow : vqip                  (* Catchment.get_flow() of the current timestep *)
}.
Record narc := mkNA { na_arc : arc; na_pref : Q; na_src : nat; na_dst : nat }.
Record net := mkNet { n_nodes : list nnode; n_arcs : list narc }.

Definition T_STORAGE : nat := 6.
Definition T_CATCHMENT : nat := 7.

Inductive req :=
| RPushSet (n : nat) (v : vqip) | RPushCheck (n : nat) (ov : option vqip)
| RPullSet (n : nat) (q : Q) | RPullCheck (n : nat) (ov : option Q)
| RSendPush (a : nat) (v : vqip) | RSendPull (a : nat) (q : Q)
| RSendPushCheck (a : nat) (ov : option vqip) | RSendPullCheck (a : nat) (ov : option Q).

Definition res := option (net * vqip).
Definition bind {A B} (x : option A) (f : A -> option B) : option B := match x with Some a => f a | None => None end.

Fixpoint nupd {A} (l : list A) (i : nat) (f : A -> A) : list A :=
  match l, i with
  | [], _ => []
  | x :: r, O => f x :: r
  | x :: r, S j => x :: nupd r j f
  end.
Definition upd_node (s : net) (n : nat) (f : nnode -> nnode) : net := mkNet (nupd (n_nodes s) n f) (n_arcs s).
Definition upd_arc (s : net) (a : nat) (f : narc -> narc) : net := mkNet (n_nodes s) (nupd (n_arcs s) a f).
Definition set_tank (t : tank) (N : nnode) : nnode :=
  mkNN (nn_kind N) (nn_ty N) t (nn_outs N) (nn_ins N) (nn_res N) (nn_len N) (nn_vel N) (nn_damp N) (nn_mrf N)
       (nn_unrouted N) (nn_flow N).
Definition set_unrouted (u : vqip) (N : nnode) : nnode :=
  mkNN (nn_kind N) (nn_ty N) (nn_tank N) (nn_outs N) (nn_ins N) (nn_res N) (nn_len N) (nn_vel N) (nn_damp N) (nn_mrf N)
       u (nn_flow N).
Definition set_arc (x : arc) (A : narc) : narc := mkNA x (na_pref A) (na_src A) (na_dst A).

(* far-end type of an arc in a direction: push looks at the destination, pull at the source *)
Definition far_ty (s : net) (push : bool) (a : nat) : nat :=
  match nth_error (n_arcs s) a with
  | Some A => match nth_error (n_nodes s) (if push then na_dst A else na_src A) with Some N => nn_ty N | None => 0%nat end
  | None => 0%nat
  end.
(* get_direction_arcs: all arcs in creation order, or for each named type (in the order named) the arcs of that type *)
Definition direction_arcs (s : net) (push : bool) (ot : option (list nat)) (arcs : list nat) : list nat :=
  match ot with
  | None => arcs
  | Some tys => flat_map (fun ty => filter (fun a => Nat.eqb (far_ty s push a) ty) arcs) tys
  end.

Section Body.
Variable rec : net -> req -> res.
Variable maxiter : nat.

(* ---- get_connected / ncheck_basic over the shared state (checks do not change it) ---- *)
Definition ncheck_vol (s : net) (push : bool) (a : nat) : option Q :=
  bind (rec s (if push then RSendPushCheck a None else RSendPullCheck a None)) (fun '(_, v) => Some (vol v)).
Fixpoint nconnected (s : net) (push : bool) (arcs : list nat) : option (list (nat * Q * Q)) :=   (* (arc, avail, avail*pref) *)
  match arcs with
  | [] => Some []
  | a :: r =>
      bind (ncheck_vol s push a) (fun av0 =>
      bind (nconnected s push r) (fun rest =>
        let av := if Qltb av0 eps then 0 else Qred av0 in
        let pref := match nth_error (n_arcs s) a with Some A => na_pref A | None => 0 end in
        Some ((a, av, Qred (av * pref)) :: rest)))
  end.
Definition c_av (c : list (nat * Q * Q)) : Q := Qred (fold_right (fun x acc => snd (fst x) + acc) 0 c).
Definition c_pr (c : list (nat * Q * Q)) : Q := Qred (fold_right (fun x acc => snd x + acc) 0 c).

Fixpoint ncheck_sum (s : net) (push : bool) (arcs : list nat) (acc : vqip) : option vqip :=
  match arcs with
  | [] => Some acc
  | a :: r => bind (rec s (if push then RSendPushCheck a None else RSendPullCheck a None))
                   (fun '(_, v) => ncheck_sum s push r (vsum acc v))
  end.
Definition ncheck_basic (s : net) (push : bool) (ot : option (list nat)) (arcs : list nat) (ov : option Q) : option vqip :=
  bind (ncheck_sum s push (direction_arcs s push ot arcs) vzero) (fun tot =>
    Some (match ov with None => tot | Some v => vchange tot (Qmin (vol tot) v) end)).

(* ---- npush_distributed ---- *)
Fixpoint npush_round (s : net) (c : list (nat * Q * Q)) (capmode : bool) (amount prio : Q) (np : vqip) : option (net * vqip) :=
  match c with
  | [] => Some (s, np)
  | (a, av, al) :: r =>
      let to_send := vchange np (amount * (if capmode then av else al) / prio) in
      bind (rec s (RSendPush a to_send)) (fun '(s', reply) =>
        npush_round s' r capmode amount prio (vsub np (vsub to_send reply)))
  end.
Fixpoint npush_loop (fuel : nat) (n : nat) (ot : option (list nat)) (arcs : list nat) (s : net) (np : vqip)
  (c : list (nat * Q * Q)) (capmode : bool) : option (net * vqip) :=
  match fuel with
  | O => Some (s, np)
  | S f =>
      let prio := if capmode then c_av c else c_pr c in
      if Qltb eps (vol np) && Qltb eps (c_av c) then
        if Qeq_bool prio 0 then None
        else
          bind (npush_round s c capmode (Qmin (c_av c) (vol np)) prio np) (fun '(s', np') =>
          bind (nconnected s' true (direction_arcs s' true ot arcs)) (fun c' =>
            npush_loop f n ot arcs s' np' c' false))
      else Some (s, np)
  end.
Definition npush_distributed (s : net) (n : nat) (ot : option (list nat)) (v : vqip) : option (net * vqip) :=
  match nth_error (n_nodes s) n with
  | None => None
  | Some N =>
      match nn_outs N with
      | [a] =>
          if (match ot with None => true | Some tys => existsb (Nat.eqb (far_ty s true a)) tys end)
          then rec s (RSendPush a v) else Some (s, v)
      | arcs =>
          bind (nconnected s true (direction_arcs s true ot arcs)) (fun c =>
            npush_loop maxiter n ot arcs s v c (Qltb (c_av c) (vol v)))
      end
  end.

(* ---- npull_distributed ---- *)
Fixpoint npull_round (s : net) (c : list (nat * Q * Q)) (deficit prio : Q) (pulled : vqip) : option (net * vqip) :=
  match c with
  | [] => Some (s, pulled)
  | (a, av, al) :: r =>
      bind (rec s (RSendPull a (Qred (deficit * al / prio)))) (fun '(s', got) =>
        npull_round s' r deficit prio (vsum pulled got))
  end.
Fixpoint npull_loop (fuel : nat) (ot : option (list nat)) (arcs : list nat) (s : net) (want : Q) (pulled : vqip)
  (deficit : Q) (c : list (nat * Q * Q)) : option (net * vqip) :=
  match fuel with
  | O => Some (s, pulled)
  | S f =>
      if Qltb eps deficit && Qltb eps (c_av c) then
        if Qeq_bool (c_pr c) 0 then None
        else
          bind (npull_round s c deficit (c_pr c) pulled) (fun '(s', p') =>
          bind (nconnected s' false (direction_arcs s' false ot arcs)) (fun c' =>
            npull_loop f ot arcs s' want p' (Qred (want - vol p')) c'))
      else Some (s, pulled)
  end.
Definition npull_distributed (s : net) (n : nat) (ot : option (list nat)) (want : Q) : option (net * vqip) :=
  match nth_error (n_nodes s) n with
  | None => None
  | Some N =>
      match nn_ins N with
      | [a] =>
          if (match ot with None => true | Some tys => existsb (Nat.eqb (far_ty s false a)) tys end)
          then rec s (RSendPull a want) else Some (s, vzero)
      | arcs =>
          bind (nconnected s false (direction_arcs s false ot arcs)) (fun c =>
            npull_loop maxiter ot arcs s want vzero want c)
      end
  end.

Definition JUNCTION_TYPES : list nat := [T_NODE; T_RIVER; T_WASTE; T_RESERVOIR].
Definition nriverrc (N : nnode) : Q :=
  let kt := nn_damp N * (nn_len N / nn_vel N) in
  if Qeq_bool kt 0 then 1 else Qred (1 - kt + kt * exp_s (- (1 / kt))).

(* ---- the protocol ---- *)
Definition exec_body (s : net) (r : req) : res :=
  match r with
  (* arcs *)
  | RSendPushCheck a ov =>
      match nth_error (n_arcs s) a with
      | None => None
      | Some A => bind (rec s (RPushCheck (na_dst A) ov)) (fun '(_, ne) =>
                    Some (s, vchange ne (Qmin (a_cap (na_arc A) - a_fin (na_arc A)) (vol ne))))
      end
  | RSendPullCheck a ov =>
      match nth_error (n_arcs s) a with
      | None => None
      | Some A => bind (rec s (RPullCheck (na_src A) ov)) (fun '(_, ne) =>
                    Some (s, vchange ne (Qmin (a_cap (na_arc A) - a_fin (na_arc A)) (vol ne))))
      end
  | RSendPush a v =>
      match nth_error (n_arcs s) a with
      | None => None
      | Some A =>
          bind (rec s (RSendPushCheck a (Some v))) (fun '(_, ex) =>
            let np := vchange v (Qmax (vol v - vol ex) 0) in
            let v1 := vsub v np in
            bind (rec s (RPushSet (na_dst A) v1)) (fun '(s', reply) =>
              Some (upd_arc s' a (fun A' => set_arc (a_record (na_arc A') (vsub v1 reply)) A'), vsum reply np)))
      end
  | RSendPull a q =>
      match nth_error (n_arcs s) a with
      | None => None
      | Some A =>
          bind (rec s (RSendPullCheck a (Some q))) (fun '(_, ex) =>
            let volume := q - Qmax (q - vol ex) 0 in
            bind (rec s (RPullSet (na_src A) (Qred volume))) (fun '(s', got) =>
              Some (upd_arc s' a (fun A' => set_arc (a_record (na_arc A') got) A'), got)))
      end
  (* nodes *)
  | RPushSet n v =>
      match nth_error (n_nodes s) n with
      | None => None
      | Some N =>
          match nn_kind N with
          | NJunction => npush_distributed s n (Some JUNCTION_TYPES) v
          | NWaste => Some (s, vzero)
          | NStore => let '(t', r') := t_push (nn_tank N) v false in Some (upd_node s n (set_tank t'), r')
          | NRiver => let '(t', _) := t_push (nn_tank N) v true in Some (upd_node s n (set_tank t'), vzero)
          | NCatchment => Some (s, v)
          end
      end
  | RPushCheck n ov =>
      match nth_error (n_nodes s) n with
      | None => None
      | Some N =>
          match nn_kind N with
          | NJunction => bind (ncheck_basic s true (Some JUNCTION_TYPES) (nn_outs N) (option_map vol ov)) (fun v => Some (s, v))
          | NWaste | NRiver => Some (s, match ov with Some v => v | None => mkV unbounded [] [] end)
          | NStore => Some (s, t_get_excess (nn_tank N) (option_map vol ov))
          | NCatchment => Some (s, vzero)
          end
      end
  | RPullSet n q =>
      match nth_error (n_nodes s) n with
      | None => None
      | Some N =>
          match nn_kind N with
          | NJunction => npull_distributed s n None q
          | NWaste => Some (s, vzero)
          | NStore => let '(t', r') := t_pull (nn_tank N) q in Some (upd_node s n (set_tank t'), r')
          | NRiver =>
              bind (rec s (RPullCheck n (Some q))) (fun '(_, avail) =>
                let '(t1, pulled) := t_pull (nn_tank N) (vol avail) in
                let s1 := upd_node s n (set_tank t1) in
                bind (npull_distributed s1 n (Some [T_RIVER; T_NODE]) (Qred (vol avail - vol pulled))) (fun '(s2, pulled_) =>
                  Some (s2, vsum pulled pulled_)))
          | NCatchment =>
              let av := fold_left (fun av a => match nth_error (n_arcs s) a with
                                               | Some A => vchange av (vol av - vol (a_vin (na_arc A)))
                                               | None => av end) (nn_outs N) (nn_flow N) in
              Some (s, vchange av (Qmin (vol av) q))
          end
      end
  | RPullCheck n ov =>
      match nth_error (n_nodes s) n with
      | None => None
      | Some N =>
          match nn_kind N with
          | NJunction => bind (ncheck_basic s false None (nn_ins N) ov) (fun v => Some (s, v))
          | NWaste => Some (s, vzero)
          | NStore => Some (s, t_get_avail (nn_tank N) ov)
          | NRiver =>
              bind (nconnected s false (direction_arcs s false (Some [T_RIVER; T_NODE]) (nn_ins N))) (fun c =>
                let sto := t_sto (nn_tank N) in
                let total := Qred (vol sto + c_av c) in
                let av := Qmax (total - nn_mrf N / nriverrc N) 0 in
                Some (s, vchange (mkV total (adds sto) (nons sto)) (match ov with None => av | Some q => Qmin av q end)))
          | NCatchment =>
              let av := fold_left (fun av a => match nth_error (n_arcs s) a with
                                               | Some A => vchange av (vol av - vol (a_vin (na_arc A)))
                                               | None => av end) (nn_outs N) (nn_flow N) in
              Some (s, match ov with None => av | Some q => vchange av (Qmin (vol av) q) end)
          end
      end
  end.
End Body.

Fixpoint exec (maxiter fuel : nat) (s : net) (r : req) : res :=
  match fuel with
  | O => None
  | S f => exec_body (exec maxiter f) maxiter s r
  end.

(* ---- orchestration functions (called by Model.run on a node) ---- *)
Inductive ocall := ODistribute (n : nat) | ORoute (n : nat) | OAbstract (n : nat) | OGwDistribute (n : nat).
Definition ndischarge (maxiter fuel : nat) (s : net) (n : nat) (ot : option (list nat)) (amount : Q) : option net :=
  match nth_error (n_nodes s) n with
  | None => None
  | Some N =>
      let '(t1, out) := t_pull (nn_tank N) amount in
      let s1 := upd_node s n (set_tank t1) in
      bind (npush_distributed (exec maxiter fuel) maxiter s1 n ot out) (fun '(s2, retained) =>
        match nth_error (n_nodes s2) n with
        | None => None
        | Some N2 => let '(t2, _) := t_push (nn_tank N2) retained true in Some (upd_node s2 n (set_tank t2))
        end)
  end.
Definition orch (maxiter fuel : nat) (s : net) (o : ocall) : option net :=
  match o with
  | ODistribute n =>
      match nth_error (n_nodes s) n with
      | None => None
      | Some N =>
          match nn_kind N with
          | NRiver => ndischarge maxiter fuel s n (Some [T_RIVER; T_NODE; T_WASTE]) (vol (t_sto (nn_tank N)) * nriverrc N)
          | _ => ndischarge maxiter fuel s n None (vol (t_sto (nn_tank N)))
          end
      end
  | OGwDistribute n =>
      match nth_error (n_nodes s) n with
      | None => None
      | Some N => ndischarge maxiter fuel s n (Some [T_NODE; T_RIVER; T_WASTE]) (vol (t_sto (nn_tank N)) / nn_res N)
      end
  | ORoute n =>
      match nth_error (n_nodes s) n with
      | None => None
      | Some N =>
          let av := fold_left (fun av a => match nth_error (n_arcs s) a with
                                           | Some A => vchange av (vol av - vol (a_vin (na_arc A)))
                                           | None => av end) (nn_outs N) (nn_flow N) in
          bind (npush_distributed (exec maxiter fuel) maxiter s n (Some [T_NODE; T_RIVER; T_WASTE]) av) (fun '(s', reply) =>
            Some (upd_node s' n (fun N' => set_unrouted (vsum (nn_unrouted N') reply) N')))
      end
  | OAbstract n =>
      match nth_error (n_nodes s) n with
      | None => None
      | Some N =>
          bind (npull_distributed (exec maxiter fuel) maxiter s n None (vol (t_get_excess (nn_tank N) None))) (fun '(s', got) =>
            match nth_error (n_nodes s') n with
            | None => None
            | Some N' =>
                let '(t1, spill) := t_push (nn_tank N') got false in
                let '(t2, _) := t_push t1 spill true in
                Some (upd_node s' n (set_tank t2))
            end)
      end
  end.

(* ---- well-formedness of the wiring (what Arc.__init__ establishes): every arc a node lists as
   outgoing starts at it, every arc it lists as incoming ends at it ---- *)
Definition net_wfb (s : net) : bool :=
  forallb (fun nN : nat * nnode =>
    forallb (fun a => match nth_error (n_arcs s) a with Some A => Nat.eqb (na_src A) (fst nN) | None => false end) (nn_outs (snd nN)) &&
    forallb (fun a => match nth_error (n_arcs s) a with Some A => Nat.eqb (na_dst A) (fst nN) | None => false end) (nn_ins (snd nN)))
  (combine (seq 0 (length (n_nodes s))) (n_nodes s)).
