(* BoundaryLaws.v — laws of the boundary-function models of Boundary.v (C17). *)
From Coq Require Import QArith Qminmax Lqa List Bool.
From WSI Require Import Vqip Pow Tank Boundary TankLaws.
Import ListNotations.
Open Scope Q_scope.

Theorem rain_is_depth_times_area t area c rain et0 tn :
  snd (fst (imp_precip_evap t area c rain et0 tn)) == rain * area.
Proof.
  unfold imp_precip_evap. destruct (Qlt_le_dec rain (et0 * c)).
  - destruct (t_evaporate t ((et0 * c - rain) * area)) as [t' fp]. cbn [fst snd]. apply Qred_correct.
  - destruct (t_push t _ true) as [t' r]. cbn [fst snd]. apply Qred_correct.
Qed.

(* evaporation never exceeds potential evaporation x area, nor the rain plus the stored water;
   and the store changes by exactly rain - evaporation *)
Theorem evaporation_bounded t area c rain et0 tn : 0 <= area -> 0 <= rain -> 0 <= et0 * c -> 0 <= vol (t_sto t) ->
  let r := imp_precip_evap t area c rain et0 tn in
  let evap := snd r in let t' := fst (fst r) in
  0 <= evap /\ evap <= et0 * c * area /\ evap <= rain * area + vol (t_sto t) /\
  vol (t_sto t') == vol (t_sto t) + rain * area - evap.
Proof.
  intros Ha Hr He Hs. cbn zeta. unfold imp_precip_evap. destruct (Qlt_le_dec rain (et0 * c)) as [Hlt|Hge].
  - assert (Hd : 0 <= (et0 * c - rain) * area) by nra.
    destruct (t_evaporate_spec t ((et0 * c - rain) * area) Hd Hs) as (E1 & E2 & E3 & _).
    destruct (t_evaporate t ((et0 * c - rain) * area)) as [t' fp]. cbn [fst snd] in *. rewrite Qred_correct.
    repeat split; try nra; try (rewrite E3; ring).
  - destruct (t_push_forced t (mkV (Qred ((rain - et0 * c) * area)) [] tn) SVol I) as [F _]. cbn [cmp vol] in F.
    destruct (t_push t _ true) as [t' r]. cbn [fst snd] in *. rewrite Qred_correct. rewrite Qred_correct in F.
    repeat split; try nra; try (rewrite F; ring).
Qed.

(* deposition is load x area for every additive pollutant and brings no water *)
Theorem deposition_is_load_times_area t area load k :
  let r := simple_deposition t area load in
  get (adds (snd r)) k == get load k * area /\ vol (snd r) == 0 /\
  get (adds (t_sto (fst r))) k == get (adds (t_sto t)) k + get load k * area /\
  vol (t_sto (fst r)) == vol (t_sto t).
Proof.
  cbn zeta. unfold simple_deposition.
  set (p := vnorm (mkV 0 (map (fun l => l * area) load) [])).
  assert (Hp : get (adds p) k == get load k * area).
  { unfold p, vnorm; cbn [adds]. rewrite get_Qred. rewrite (get_map0 (fun l => l * area)); [reflexivity | ring]. }
  assert (Hv : vol p == 0) by (unfold p, vnorm; cbn [vol]; apply Qred_correct).
  destruct (t_push_forced t p (SAdd k) I) as [F1 _]. destruct (t_push_forced t p SVol I) as [F0 _]. cbn [cmp] in F1, F0.
  destruct (t_push t p true) as [t' r]. cbn [fst snd] in *.
  split; [exact Hp|]. split; [exact Hv|]. split; [rewrite F1, Hp; reflexivity | rewrite F0, Hv; ring].
Qed.

(* household demand is population x per-capita use, with population x load of every pollutant *)
Theorem house_demand_is_population_times_per_capita pop pc load T others k :
  vol (house_demand pop pc load T others) == pop * pc /\
  get (adds (house_demand pop pc load T others)) k == get load k * pop.
Proof.
  unfold house_demand, vnorm; cbn [vol adds]. split; [apply Qred_correct|].
  rewrite get_Qred. rewrite (get_map0 (fun l => l * pop)); [reflexivity | ring].
Qed.

(* Catchment.get_flow *)
From WSI Require Import Kinds.
Theorem catchment_flow_is_data flow conc quality k :
  vol (ca_get_flow flow conc quality) == flow /\
  get (adds (ca_get_flow flow conc quality)) k == get conc k * flow /\
  get (nons (ca_get_flow flow conc quality)) k == get quality k.
Proof.
  unfold ca_get_flow, vnorm; cbn [vol adds nons]. split; [apply Qred_correct|]. split.
  - rewrite get_Qred. rewrite (get_map0 (fun c => c * flow)); [reflexivity | ring].
  - apply get_Qred.
Qed.
