(* DivBaseline.v - the division sites of wsimod as reviewed (written by `gen_divs.py --baseline`, a
   development-time action; the checks only ever read it).  Review classes at the time: constant: 18, guarded: 37, parameter-or-data: 34.
   constant = non-zero literal or constants.*; guarded = a guarding condition mentions the divisor;
   parameter-or-data = non-zero by well-formedness of parameters / forcing data (C12 assumptions). *)
From Coq Require Import String List.
Import ListNotations.
Open Scope string_scope.

Definition reviewed_sites : list (string * string * string * list string) := [
  ("arcs/arcs.py", "Arc.send_pull_request", "vqip['volume']", ["volume > 0"; "pol in vqip.keys()"]);
  ("arcs/arcs.py", "QueueArc.enter_arc", "request['time'] + 1", []);
  ("arcs/arcs.py", "QueueArc.send_pull_request", "vqip['volume']", ["volume > 0"; "pol in vqip.keys()"]);
  ("arcs/arcs.py", "QueueArc.update_queue", "vqip['volume']", ["request['direction'] == direction"; "not (vqip['volume'] < constants.FLOAT_ACCURACY)"; "request['time'] == 0"]);
  ("core/core.py", "WSIObj.blend_vqip", "c['volume']", ["c['volume'] > 0"]);
  ("core/core.py", "WSIObj.extract_vqip_c", "c['volume']", ["c['volume'] > 0"]);
  ("core/core.py", "WSIObj.mass_balance", "magnitude", ["largest > constants.FLOAT_ACCURACY"]);
  ("core/core.py", "WSIObj.sum_vqip", "t['volume']", ["t['volume'] > 0"]);
  ("core/core.py", "WSIObj.total_to_concentration", "c['volume']", []);
  ("core/core.py", "WSIObj.v_change_vqip", "t['volume']", ["t['volume'] > 0"]);
  ("nodes/distribution.py", "decorate_leakage_check.pull_check", "1 - self.leakage", ["vqip is not None"]);
  ("nodes/distribution.py", "decorate_leakage_set.pull_set", "1 - self.leakage", []);
  ("nodes/land.py", "GrowingSurface.__init__", "2.6", []);
  ("nodes/land.py", "GrowingSurface.__init__", "7.2", []);
  ("nodes/land.py", "GrowingSurface.adjust_vqip_to_liquid", "deposition['N']", ["'nitrate' in constants.POLLUTANTS"; "deposition['N'] > 0"]);
  ("nodes/land.py", "GrowingSurface.adjust_vqip_to_liquid", "deposition['P']", ["'nitrate' in constants.POLLUTANTS"; "deposition['P'] > 0"]);
  ("nodes/land.py", "GrowingSurface.adsorption", "fprimxn", ["not (ad_de_P_pool == 0)"; "not (conc_sol <= 0)"; "abs(fxn) > limit and j < self.adsorption_nr_maxiter"]);
  ("nodes/land.py", "GrowingSurface.adsorption", "self.area * constants.M2_TO_KM2", []);
  ("nodes/land.py", "GrowingSurface.adsorption", "self.bulk_density * self.rooting_depth * self.area", ["not (ad_de_P_pool == 0)"]);
  ("nodes/land.py", "GrowingSurface.adsorption", "self.nfr", ["not (ad_de_P_pool == 0)"; "not (conc_sol <= 0)"]);
  ("nodes/land.py", "GrowingSurface.adsorption", "soil_moisture_content + coeff", ["not (ad_de_P_pool == 0)"; "conc_sol <= 0"]);
  ("nodes/land.py", "GrowingSurface.calc_crop_cover", "(1 - self.ET_depletion_factor) * self.total_available_water", ["not (root_zone_depletion < self.readily_available_water)"; "not (root_zone_depletion >= self.total_available_water)"]);
  ("nodes/land.py", "GrowingSurface.calc_crop_uptake", "(self.uptake2 + uptake_par) ** 2", ["self.days_after_sow"; "uptake_par + self.uptake2 > 0"]);
  ("nodes/land.py", "GrowingSurface.calc_crop_uptake", "20", ["self.days_after_sow"; "self.autumn_sow"]);
  ("nodes/land.py", "GrowingSurface.calc_crop_uptake", "self.storage['volume']", ["self.days_after_sow"]);
  ("nodes/land.py", "GrowingSurface.calc_soil_moisture_dependence_factor", "self.thetalow * self.rooting_depth", ["not (current_soil_moisture >= self.field_capacity_m)"; "not (current_soil_moisture <= self.wilting_point_m)"]);
  ("nodes/land.py", "GrowingSurface.calc_soil_moisture_dependence_factor", "self.thetaupp * self.rooting_depth", ["not (current_soil_moisture >= self.field_capacity_m)"; "not (current_soil_moisture <= self.wilting_point_m)"]);
  ("nodes/land.py", "GrowingSurface.calc_temperature_dependence_factor", "10", ["self.storage['temperature'] > 5"]);
  ("nodes/land.py", "GrowingSurface.calc_temperature_dependence_factor", "5", ["not (self.storage['temperature'] > 5)"; "self.storage['temperature'] > 0"]);
  ("nodes/land.py", "GrowingSurface.denitrification", "1 - self.limpar", ["not (soil_moisture_content > self.field_capacity_m)"; "soil_moisture_content / self.field_capacity_m > self.limpar"]);
  ("nodes/land.py", "GrowingSurface.denitrification", "din_conc + self.hsatINs", []);
  ("nodes/land.py", "GrowingSurface.denitrification", "self.field_capacity_m", ["not (soil_moisture_content > self.field_capacity_m)"]);
  ("nodes/land.py", "GrowingSurface.denitrification", "self.field_capacity_m", ["not (soil_moisture_content > self.field_capacity_m)"; "soil_moisture_content / self.field_capacity_m > self.limpar"]);
  ("nodes/land.py", "GrowingSurface.denitrification", "self.storage['volume']", []);
  ("nodes/land.py", "GrowingSurface.erosion", "0.5 * self.cohesion", ["self.infiltration_excess['volume'] > 0"]);
  ("nodes/land.py", "GrowingSurface.erosion", "100", ["self.infiltration_excess['volume'] > 0"]);
  ("nodes/land.py", "GrowingSurface.erosion", "365", ["precipitation_depth > 5"]);
  ("nodes/land.py", "GrowingSurface.erosion", "365", ["self.infiltration_excess['volume'] > 0"]);
  ("nodes/land.py", "GrowingSurface.erosion", "4", []);
  ("nodes/land.py", "GrowingSurface.erosion", "4", ["not (erodingflow > 4)"; "erodingflow > 0"]);
  ("nodes/land.py", "GrowingSurface.erosion", "eff_erodedP", ["eff_erodedP > 0"]);
  ("nodes/land.py", "GrowingSurface.erosion", "self.area", []);
  ("nodes/land.py", "GrowingSurface.erosion", "self.area", ["self.infiltration_excess['volume'] > 0"]);
  ("nodes/land.py", "GrowingSurface.erosion", "self.rooting_depth * constants.M_TO_KM * self.bulk_density * constants.KG_M3_TO_KG_KM3", []);
  ("nodes/land.py", "GrowingSurface.erosion", "total_flows", []);
  ("nodes/land.py", "GrowingSurface.pull_storage", "inorganic_nitrogen", ["not (self.storage['volume'] == 0)"; "'nitrate' in constants.POLLUTANTS"; "inorganic_nitrogen > 0"]);
  ("nodes/land.py", "GrowingSurface.pull_storage", "self.storage['volume']", ["not (self.storage['volume'] == 0)"; "'nitrate' in constants.POLLUTANTS"]);
  ("nodes/land.py", "GrowingSurface.quick_interp", "x_right - x_left", []);
  ("nodes/land.py", "GrowingSurface.soil_pool_transformation", "inorganic_nitrogen", ["inorganic_nitrogen > 0"]);
  ("nodes/land.py", "Land.run", "total_runoff['volume']", ["total_runoff['volume'] > 0"; "reply['volume'] > 0"]);
  ("nodes/land.py", "PerviousSurface.apply_overrides", "self.total_porosity", []);
  ("nodes/land.py", "PerviousSurface.calculate_soil_temperature", "total_weight", []);
  ("nodes/land.py", "PerviousSurface.get_cmd", "self.area", []);
  ("nodes/land.py", "PerviousSurface.get_smc", "self.area", []);
  ("nodes/land.py", "PerviousSurface.ihacres", "self.depth - self.field_capacity_m", []);
  ("nodes/land.py", "PerviousSurface.ihacres", "self.depth - self.wilting_point_m", []);
  ("nodes/land.py", "VariableAreaSurface.get_climate_", "self.area", []);
  ("nodes/nodes.py", "Node.pull_distributed", "connected['priority']", ["not (len(self.in_arcs) == 1)"; "(deficit > constants.FLOAT_ACCURACY) & (connected['avail'] > constants.FLOAT_ACCURACY) & (iter_ < constants.MAXITER)"]);
  ("nodes/nodes.py", "Node.push_distributed", "connected['priority']", ["not (len(self.out_arcs) == 1)"; "(not_pushed > constants.FLOAT_ACCURACY) & (connected['avail'] > constants.FLOAT_ACCURACY) & (iter_ < constants.MAXITER)"]);
  ("nodes/nutrient_pool.py", "NutrientPool.erode_P", "self.adsorbed_inorganic_pool.storage['P'] + self.humus_pool.storage['P']", []);
  ("nodes/storage.py", "Groundwater.distribute", "self.residence_time", []);
  ("nodes/storage.py", "QueueGroundwater.pull_set_active", "total_storage", ["not (total_pull < constants.FLOAT_ACCURACY)"; "isinstance(self.tank.internal_arc.queue, dict)"]);
  ("nodes/storage.py", "River.__init__", "7.2", []);
  ("nodes/storage.py", "River.biochemical_processes", "10", ["not (self.tank.storage['volume'] < constants.FLOAT_ACCURACY)"; "not (self.tank.storage['temperature'] <= 0)"]);
  ("nodes/storage.py", "River.biochemical_processes", "20", ["not (self.tank.storage['volume'] < constants.FLOAT_ACCURACY)"; "not (self.tank.storage['temperature'] <= 0)"]);
  ("nodes/storage.py", "River.biochemical_processes", "5", ["not (self.tank.storage['volume'] < constants.FLOAT_ACCURACY)"; "not (self.tank.storage['temperature'] <= 0)"]);
  ("nodes/storage.py", "River.biochemical_processes", "5", ["not (self.tank.storage['volume'] < constants.FLOAT_ACCURACY)"; "not (self.tank.storage['temperature'] <= 0)"; "self.tank.storage['temperature'] < 5"]);
  ("nodes/storage.py", "River.biochemical_processes", "din", ["not (self.tank.storage['volume'] < constants.FLOAT_ACCURACY)"; "not (self.tank.storage['temperature'] <= 0)"; "din > 0"]);
  ("nodes/storage.py", "River.biochemical_processes", "din", ["not (self.tank.storage['volume'] < constants.FLOAT_ACCURACY)"; "not (self.tank.storage['temperature'] <= 0)"; "minprodN > 0"; "din > 0"]);
  ("nodes/storage.py", "River.biochemical_processes", "din", ["not (self.tank.storage['volume'] < constants.FLOAT_ACCURACY)"; "not (self.tank.storage['temperature'] <= 0)"; "not (minprodN > 0)"; "din > 0"]);
  ("nodes/storage.py", "River.biochemical_processes", "din_concentration + self.halfsatINwater", ["not (self.tank.storage['volume'] < constants.FLOAT_ACCURACY)"; "not (self.tank.storage['temperature'] <= 0)"]);
  ("nodes/storage.py", "River.biochemical_processes", "self.T_wdays", []);
  ("nodes/storage.py", "River.biochemical_processes", "self.max_phosphorus_lag", ["not (self.tank.storage['volume'] < constants.FLOAT_ACCURACY)"; "not (self.tank.storage['temperature'] <= 0)"]);
  ("nodes/storage.py", "River.biochemical_processes", "self.tank.storage['volume']", ["not (self.tank.storage['volume'] < constants.FLOAT_ACCURACY)"; "not (self.tank.storage['temperature'] <= 0)"]);
  ("nodes/storage.py", "River.biochemical_processes", "total_phos_365_day - self.limpppar + self.hsatTP", ["not (self.tank.storage['volume'] < constants.FLOAT_ACCURACY)"; "not (self.tank.storage['temperature'] <= 0)"; "total_phos_365_day - self.limpppar + self.hsatTP > 0"]);
  ("nodes/storage.py", "River.get_riverrc", "kt", ["kt != 0"]);
  ("nodes/storage.py", "River.get_riverrc", "self.velocity", []);
  ("nodes/storage.py", "River.pull_check_river", "self.get_riverrc()", []);
  ("nodes/storage.py", "River.update_depth", "self.area", []);
  ("nodes/storage.py", "Storage.get_percent", "self.tank.capacity", []);
  ("nodes/tanks.py", "ResidenceTank.pull_outflow", "self.residence_time", []);
  ("nodes/tanks.py", "Tank.get_head", "self.area", []);
  ("nodes/wtw.py", "WTW.treat_current_input", "liquor_volume", ["liquor_volume > 0"]);
  ("orchestration/model.py", "Model.change_runoff_coefficient", "grass_area", ["'Impervious' in surface_dict.keys()"; "not (new_grass_area < 0)"]);
  ("orchestration/model.py", "Model.run", "magnitude", ["largest > constants.FLOAT_ACCURACY"]);
  ("orchestration/model.py", "Model.save", "surface.total_porosity", ["'surfaces' in init_args"; "not (set(['rooting_depth', 'pore_depth']).intersection(surface_args))"; "'total_porosity' in surface_args"]);
  ("orchestration/model.py", "to_datetime.is_leap_year", "100", ["year % 4 == 0"]);
  ("orchestration/model.py", "to_datetime.is_leap_year", "4", []);
  ("orchestration/model.py", "to_datetime.is_leap_year", "400", ["year % 4 == 0"])
].
