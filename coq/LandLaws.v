(* LandLaws.v — laws of the pervious surface (LandV.ihacres): what it declares at the boundary.
   Rain is depth times area; evaporation never exceeds potential evaporation times the surface's coefficient times area,
   nor the rain that infiltrated plus the water the soil held - whatever the soil parameters, the moisture state and the
   surrogates used for exp and non-integer powers (only "min(1, .) <= 1" is used of them). *)
From Coq Require Import QArith Qminmax Lqa List Bool Arith.
From WSI Require Import Vqip Pow Tank Arc Distrib Kinds TimeArea Boundary LandV TankLaws.
Import ListNotations.
Open Scope Q_scope.

Theorem ihacres_boundary p area t rain et0 T tn :
  0 < area -> 0 <= et0 -> 0 <= ps_et0c p -> 0 <= rain -> 0 <= ps_infil p ->
  let '(t', excess, ssf, perc, pr, ev) := ihacres p area t rain et0 T tn in
  pr == rain * area /\
  ev <= et0 * ps_et0c p * area /\
  ev <= (rain + vol (t_sto t) / area) * area.
Proof.
  intros Ha He Hc Hr Hi. unfold ihacres. cbn zeta.
  set (evap_depth := et0 * ps_et0c p).
  set (infiltrated := Qmin rain (ps_infil p)).
  set (cmd := vol (t_get_excess t None) / area).
  set (smc := vol (t_sto t) / area).
  set (m1 := Qmin 1 (exp_s (2 * (1 - cmd / (ps_depth p - ps_wp_m p))))).
  set (m2 := Qmin 1 (pow_s (cmd / (ps_depth p - ps_fc_m p)) (ps_p p))).
  set (ev0 := evap_depth * m1).
  set (outflow := infiltrated * (1 - m2)).
  set (ev := Qmin ev0 (infiltrated - outflow + smc)).
  assert (H1 : m1 <= 1) by apply Q.le_min_l.
  assert (H2 : m2 <= 1) by apply Q.le_min_l.
  assert (Hinf : 0 <= infiltrated <= rain) by (unfold infiltrated; split; [apply Q.min_glb; assumption | apply Q.le_min_l]).
  assert (Hout : 0 <= outflow) by (unfold outflow; apply Qmult_le_0_compat; lra).
  assert (Hed : 0 <= evap_depth) by (unfold evap_depth; apply Qmult_le_0_compat; assumption).
  assert (Hev0 : ev0 <= evap_depth).
  { unfold ev0. assert (E : evap_depth * m1 <= evap_depth * 1) by (rewrite !(Qmult_comm evap_depth); apply Qmult_le_compat_r; lra). lra. }
  assert (Hev : ev <= evap_depth /\ ev <= rain + smc).
  { unfold ev. split.
    - eapply Qle_trans; [apply Q.le_min_l | exact Hev0].
    - eapply Qle_trans; [apply Q.le_min_r|]. lra. }
  match goal with |- context [if Qlt_le_dec 0 ?X then _ else _] => destruct (Qlt_le_dec 0 X) end.
  - destruct (t_push t _ true) as [t1 r1]. destruct (t_pull t1 _) as [t2 s]. destruct (t_pull t2 _) as [t3 pc].
    rewrite !Qred_correct. split; [reflexivity|]. split.
    + fold evap_depth. apply Qmult_le_compat_r; [apply Hev | lra].
    + apply Qmult_le_compat_r; [apply Hev | lra].
  - destruct (t_evaporate t _) as [t1 e1].
    rewrite !Qred_correct. split; [reflexivity|]. split.
    + fold evap_depth. apply Qmult_le_compat_r; [apply Hev | lra].
    + apply Qmult_le_compat_r; [apply Hev | lra].
Qed.

(* ---------------- the water balance of the soil store ---------------- *)
Lemma t_pull_vol t q : 0 <= q -> 0 <= vol (t_sto t) ->
  vol (snd (t_pull t q)) == Qmin q (vol (t_sto t)) /\
  vol (t_sto (fst (t_pull t q))) == vol (t_sto t) - Qmin q (vol (t_sto t)).
Proof.
  intros Hq Hs. unfold t_pull. destruct (Qeq_bool (vol (t_sto t)) 0) eqn:E.
  - apply Qeq_bool_iff in E. cbn [fst snd]. unfold vzero at 1; cbn [vol]. rewrite E.
    rewrite Q.min_r by exact Hq. split; [reflexivity | ring].
  - cbn [fst snd t_with t_sto]. rewrite vol_sub, vol_change. split; reflexivity.
Qed.
Lemma t_push_forced_vol t v : vol (t_sto (fst (t_push t v true))) == vol (t_sto t) + vol v.
Proof. unfold t_push; cbn [fst t_with t_sto]. apply vol_sum. Qed.
Lemma t_evaporate_vol t e : 0 <= e <= vol (t_sto t) -> vol (t_sto (fst (t_evaporate t e))) == vol (t_sto t) - e.
Proof.
  intros [H0 H1]. unfold t_evaporate; cbn [fst t_with t_sto]. rewrite vol_distill. rewrite Q.min_l by exact H1. reflexivity.
Qed.

(* IHACRES on a pervious surface creates and loses no water: what the soil store holds afterwards plus what the surface
   hands to the node (infiltration excess incl. the surface share of the outflow, subsurface flow, percolation) is what
   it held before plus rain minus evaporation - in every moisture state, for all soil parameters with coefficients in
   [0, 1] (this is the statement the Land node's balance rests on; it was false before the repair of the evaporation
   bound, fix 2022df5) *)
Theorem ihacres_water_balance p area t rain et0 T tn :
  0 < area -> 0 <= vol (t_sto t) -> 0 <= et0 -> 0 <= ps_et0c p -> 0 <= rain -> 0 <= ps_infil p ->
  0 <= ps_surf_c p <= 1 -> 0 <= ps_perc_c p <= 1 ->
  let '(t', excess, ssf, perc, pr, ev) := ihacres p area t rain et0 T tn in
  vol (t_sto t') + vol excess + vol ssf + vol perc == vol (t_sto t) + pr - ev.
Proof.
  intros Ha Hs He Hc Hr Hi [Hs0 Hs1] [Hp0 Hp1]. unfold ihacres. cbn zeta.
  set (evap_depth := et0 * ps_et0c p).
  set (infiltrated := Qmin rain (ps_infil p)).
  set (cmd := vol (t_get_excess t None) / area).
  set (smc := vol (t_sto t) / area).
  set (m1 := Qmin 1 (exp_s (2 * (1 - cmd / (ps_depth p - ps_wp_m p))))).
  set (m2 := Qmin 1 (pow_s (cmd / (ps_depth p - ps_fc_m p)) (ps_p p))).
  set (ev0 := evap_depth * m1).
  set (outflow := infiltrated * (1 - m2)).
  set (ev := Qmin ev0 (infiltrated - outflow + smc)).
  set (ssf := outflow * (1 - ps_surf_c p) * (1 - ps_perc_c p) * area).
  set (perc := outflow * (1 - ps_surf_c p) * ps_perc_c p * area).
  set (recharge := (infiltrated - ev - outflow) * area).
  assert (H2 : m2 <= 1) by apply Q.le_min_l.
  assert (Hinf : 0 <= infiltrated <= rain) by (unfold infiltrated; split; [apply Q.min_glb; assumption | apply Q.le_min_l]).
  assert (Hout : 0 <= outflow) by (unfold outflow; apply Qmult_le_0_compat; lra).
  assert (Hex0 : Qmax (rain - infiltrated) 0 == rain - infiltrated) by (apply Q.max_l; lra).
  assert (Hssf : 0 <= ssf) by (unfold ssf; repeat apply Qmult_le_0_compat; lra).
  assert (Hperc : 0 <= perc) by (unfold perc; repeat apply Qmult_le_0_compat; lra).
  assert (Hsmc : smc * area == vol (t_sto t)) by (unfold smc; field; lra).
  assert (Hev : ev <= infiltrated - outflow + smc) by (unfold ev; apply Q.le_min_r).
  assert (Hrech : - vol (t_sto t) <= recharge).
  { unfold recharge. rewrite <- Hsmc. setoid_replace (- (smc * area)) with ((- smc) * area) by ring.
    apply Qmult_le_compat_r; lra. }
  match goal with |- context [if Qlt_le_dec 0 ?X then _ else _] => set (through := X) end.
  assert (Eth : through == recharge + ssf + perc) by (unfold through, recharge, ssf, perc; reflexivity).
  destruct (Qlt_le_dec 0 through) as [Hth|Hth].
  - assert (Ep : vol (t_sto (fst (t_push t (mkV (Qred through) [] tn) true))) == vol (t_sto t) + through)
      by (rewrite t_push_forced_vol; cbn [vol]; rewrite Qred_correct; reflexivity).
    destruct (t_push t (mkV (Qred through) [] tn) true) as [t1 r1]. cbn [fst] in Ep.
    assert (H1 : 0 <= vol (t_sto t1)) by (rewrite Ep; lra).
    destruct (t_pull_vol t1 ssf Hssf H1) as [Pa Pb].
    destruct (t_pull t1 ssf) as [t2 s]. cbn [fst snd] in Pa, Pb.
    assert (Hm1 : Qmin ssf (vol (t_sto t1)) == ssf) by (apply Q.min_l; rewrite Ep; lra).
    assert (H2' : 0 <= vol (t_sto t2)) by (rewrite Pb, Hm1, Ep; lra).
    destruct (t_pull_vol t2 perc Hperc H2') as [Qa Qb].
    destruct (t_pull t2 perc) as [t3 pc]. cbn [fst snd] in Qa, Qb.
    assert (Hm2 : Qmin perc (vol (t_sto t2)) == perc) by (apply Q.min_l; rewrite Pb, Hm1, Ep; lra).
    cbn [vol]. rewrite !Qred_correct, Qb, Hm2, Pb, Hm1, Ep, Pa, Qa, Hm1, Hm2, Hex0, Eth.
    unfold recharge, ssf, perc. ring.
  - assert (Hrange : 0 <= - through <= vol (t_sto t)) by lra.
    pose proof (t_evaporate_vol t (- through) Hrange) as Ee.
    destruct (t_evaporate t (- through)) as [t1 e1]. cbn [fst] in Ee.
    cbn [vol]. unfold vzero; cbn [vol]. rewrite !Qred_correct, Ee, Hex0, Eth.
    unfold recharge, ssf, perc. ring.
Qed.
