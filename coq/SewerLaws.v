(* SewerLaws.v — Sewer.make_discharge (TimeArea.sw_make_discharge) keeps books: against any neighbours meeting the reply
   contract, what the sewer's tank declares less after a discharge is exactly what its out-arcs record as carried more
   (volume and every additive pollutant; flooding to Land included), and the tank still declares what it holds. *)
From Coq Require Import QArith Qminmax Lqa List Bool Arith.
From WSI Require Import Vqip Pow Tank Arc QTank Distrib Kinds TimeArea TankLaws ArcLaws QueueLaws QTankLaws DistribLaws DecayStores DecayQTank.
Import ListNotations.
Open Scope Q_scope.

Section SewerLaws.
Variable S : Type.
Variable P : port S.
Variable K : contract S P.
Hypothesis wet_replies : forall s v, okS S P K s -> wet v ->
  forall k, vol (snd (p_push_set P s v)) <= 0 -> get (adds (snd (p_push_set P s v))) k == 0.
Variable maxiter : nat.

Notation star_ok := (star_ok S P K).
Notation sumvin := (sumvin S).

(* what push_distributed hands back from a wet offer is wet *)
Lemma push_distributed_wet ot st v st' np msg : star_ok st -> wet v ->
  push_distributed S P maxiter ot st v = Some (st', np, msg) -> wet np.
Proof.
  intros Hok Hw Hrun. unfold push_distributed in Hrun.
  assert (Hmode : conn_ok (let c0 := get_connected S P true ot st in
                           if Qltb (c_avail c0) (vol v) then mkConn (c_avail c0) (c_avail c0) (c_cap c0) (c_cap c0) else c0)).
  { cbn zeta. destruct (Qltb _ _); [|apply (get_connected_ok S P K); exact Hok].
    unfold conn_ok, get_connected; cbn [c_alloc c_prio c_avail c_cap]. rewrite Qred_correct.
    pose proof (avails_nonneg S P true ot st) as H. split; [exact H|]. split; [reflexivity | apply sumq_nonneg; exact H]. }
  assert (General : forall c0, conn_ok c0 ->
            match push_loop S P maxiter ot st v c0 0 with
            | Some (st'0, np0, iter) => Some (st'0, np0, Nat.eqb iter maxiter)
            | None => None
            end = Some (st', np, msg) -> wet np).
  { intros c0 Hc0 Hr. destruct (push_loop S P maxiter ot st v c0 0) as [[[st1 np1] it]|] eqn:El; [|discriminate].
    inversion Hr; subst. destruct (push_loop_spec S P K wet_replies ot maxiter st v c0 0%nat _ Hok Hw Hc0 El) as (_ & L2 & _).
    exact L2. }
  destruct st as [|x [|y r]].
  - exact (General _ Hmode Hrun).
  - destruct (selected S ot x) eqn:Esel.
    + inversion Hok as [|x0 l0 (Ha & Hs & Hp) _]; subst.
      pose proof (a_push_reply_wet S P K wet_replies (sa_a S x) (sa_s S x) v Hs Hw Ha) as Hwr.
      destruct (a_send_push S P (sa_a S x) (sa_s S x) v false) as [[a' s'] reply]. cbn [snd] in Hwr.
      inversion Hrun; subst. exact Hwr.
    + inversion Hrun; subst. exact Hw.
  - exact (General _ Hmode Hrun).
Qed.

(* QueueTank.pull_storage_exact of something that is there componentwise takes exactly that *)
Lemma pull_exact_within t v c : conserved c ->
  (forall k, conserved k -> 0 <= cmp k v <= cmp k (s_act (qt_s t))) ->
  cmp c (snd (qt_pull_exact t v)) == cmp c v.
Proof.
  intros Hc Hle. unfold qt_pull_exact. cbn [snd]. rewrite cmp_norm.
  destruct c as [|k|k]; [| |destruct Hc].
  - cbn [cmp vol]. pose proof (Hle SVol I) as H; cbn [cmp] in H. apply Q.min_l. lra.
  - cbn [cmp adds]. rewrite get_vmap2 by reflexivity. pose proof (Hle (SAdd k) I) as H; cbn [cmp] in H. apply Q.min_l. lra.
Qed.


Lemma wet_of_remaining a r rem : wet rem ->
  (forall c, conserved c -> cmp c (vsub a r) == cmp c rem) -> wet (vsub a r).
Proof.
  intros [Hn Hd] He. split.
  - intros c Hc. rewrite (He c Hc). apply Hn; exact Hc.
  - intros Hv k. pose proof (He SVol I) as H0; cbn [cmp] in H0.
    pose proof (He (SAdd k) I) as Hk; cbn [cmp] in Hk. rewrite Hk. apply Hd. lra.
Qed.

Theorem sw_discharge_books (n n' : qnode S) :
  star_ok (qn_outs S n) -> qledger (qn_t S n) ->
  wet (vsum (s_act (qt_s (qn_t S n))) (bget (l_b (qt_l (qn_t S n))) 0)) ->
  sw_make_discharge S P maxiter n = Some n' ->
  star_ok (qn_outs S n') /\ qledger (qn_t S n') /\
  exists dust, 0 <= vol dust <= eps /\ (forall c, conserved c -> 0 <= cmp c dust) /\
    forall c, conserved c ->
      cmp c (s_sto (qt_s (qn_t S n))) - cmp c (s_sto (qt_s (qn_t S n'))) ==
      (sumvin c (qn_outs S n') - sumvin c (qn_outs S n)) + cmp c dust.
Proof.
  intros Hok L Hwet Hrun. unfold sw_make_discharge in Hrun.
  pose proof (l_update_qt (qt_l (qn_t S n)) (qt_s (qn_t S n))) as HU.
  assert (Eact : s_act (snd (fst (l_update qts qt_port (qt_l (qn_t S n)) (qt_s (qn_t S n))))) =
                 vsum (s_act (qt_s (qn_t S n))) (bget (l_b (qt_l (qn_t S n))) 0)) by reflexivity.
  destruct (l_update qts qt_port (qt_l (qn_t S n)) (qt_s (qn_t S n))) as [[l1 s1] bk].
  destruct HU as (_ & Hs & _ & _ & _ & Hd2 & _ & Hq). cbn [fst snd] in Eact.
  set (t1 := mkQT s1 l1) in *.
  assert (L1 : qledger t1).
  { intros c Hc. unfold t1; cbn [qt_s qt_l]. rewrite Hs, Hd2. pose proof (Hq c Hc). pose proof (L c Hc). lra. }
  assert (W1 : wet (s_act s1)) by (rewrite Eact; exact Hwet).
  destruct (push_distributed S P maxiter None (qn_outs S n) (s_act s1)) as [[[outs1 remaining] msg1]|] eqn:E1; [|discriminate].
  destruct (push_distributed_spec S P K wet_replies maxiter None (qn_outs S n) (s_act s1) outs1 remaining msg1 Hok W1 E1)
    as (Hok1 & _ & R1 & V1 & _).
  pose proof (push_distributed_wet None (qn_outs S n) (s_act s1) outs1 remaining msg1 Hok W1 E1) as Wrem.
  set (sent := vsub (s_act s1) remaining) in *.
  assert (Hsent : forall k, conserved k -> 0 <= cmp k sent <= cmp k (s_act (qt_s t1))).
  { intros k Hk. unfold sent, t1; cbn [qt_s]. rewrite cmp_sub by exact Hk. pose proof (R1 k Hk). lra. }
  pose proof (qt_pull_exact_ledger t1 sent L1) as L2.
  assert (Ereply : forall c, conserved c -> cmp c (snd (qt_pull_exact t1 sent)) == cmp c sent)
    by (intros c Hc; apply pull_exact_within; assumption).
  assert (Sto2 : forall c, conserved c -> cmp c (s_sto (qt_s (fst (qt_pull_exact t1 sent)))) == cmp c (s_sto s1) - cmp c sent).
  { intros c Hc. unfold qt_pull_exact at 1. cbn [fst qt_s s_sto]. rewrite cmp_sub by exact Hc.
    pose proof (Ereply c Hc) as E. unfold qt_pull_exact in E. cbn [snd] in E. unfold t1 in *. cbn [qt_s] in *. rewrite E. reflexivity. }
  assert (Act2 : forall c, conserved c -> cmp c (s_act (qt_s (fst (qt_pull_exact t1 sent)))) == cmp c remaining).
  { intros c Hc. unfold qt_pull_exact at 1. cbn [fst qt_s s_act]. rewrite cmp_sub by exact Hc.
    pose proof (Ereply c Hc) as E. unfold qt_pull_exact in E. cbn [snd] in E. unfold t1 in *. cbn [qt_s] in *. rewrite E.
    unfold sent. rewrite cmp_sub by exact Hc. ring. }
  assert (W2 : wet (s_act (qt_s (fst (qt_pull_exact t1 sent))))).
  { unfold qt_pull_exact at 1. cbn [fst qt_s s_act]. apply (wet_of_remaining _ _ remaining Wrem).
    intros c Hc. pose proof (Act2 c Hc) as A. unfold qt_pull_exact at 1 in A. cbn [fst qt_s s_act] in A. exact A. }
  destruct (qt_pull_exact t1 sent) as [t2 reply2]. cbn [fst snd] in *.
  unfold qt_pull_ponded in Hrun.
  set (pv := Qmax (vol (s_sto (qt_s t2)) - s_cap (qt_s t2)) 0) in *.
  pose proof (qt_pull_ledger t2 pv L2) as L3.
  assert (Epond : snd (qt_pull t2 pv) = vchange (s_act (qt_s t2)) (Qmin pv (vol (s_act (qt_s t2))))) by reflexivity.
  assert (Sto3 : forall c, conserved c -> cmp c (s_sto (qt_s (fst (qt_pull t2 pv)))) == cmp c (s_sto (qt_s t2)) - cmp c (snd (qt_pull t2 pv))).
  { intros c Hc. unfold qt_pull. cbn [fst snd qt_s s_sto]. rewrite cmp_sub by exact Hc. reflexivity. }
  assert (Hx : 0 <= Qmin pv (vol (s_act (qt_s t2))) <= vol (s_act (qt_s t2))).
  { pose proof (proj1 W2 SVol I) as H0; cbn [cmp] in H0. split; [apply Q.min_glb; [apply Q.le_max_r | exact H0] | apply Q.le_min_r]. }
  assert (Wp : wet (snd (qt_pull t2 pv))) by (rewrite Epond; apply wet_part; assumption).
  destruct (qt_pull t2 pv) as [t3 ponded]. cbn [fst snd] in *.
  destruct (Qltb eps (vol ponded)) eqn:Efl.
  - destruct (push_distributed S P maxiter (Some [T_LAND]) outs1 ponded) as [[[outs2 back] msg2]|] eqn:E2; [|discriminate].
    destruct (push_distributed_spec S P K wet_replies maxiter (Some [T_LAND]) outs1 ponded outs2 back msg2 Hok1 Wp E2)
      as (Hok2 & _ & R2 & V2 & _).
    pose proof (push_distributed_wet (Some [T_LAND]) outs1 ponded outs2 back msg2 Hok1 Wp E2) as Wb.
    pose proof (qt_push_ledger t3 back 0 true Wb L3) as L4.
    assert (Sto4 : forall c, conserved c -> cmp c (s_sto (qt_s (fst (qt_push t3 back 0 true)))) == cmp c (s_sto (qt_s t3)) + cmp c back).
    { intros c Hc. unfold qt_push. cbn [fst qt_s s_sto]. rewrite cmp_sum by exact Hc. reflexivity. }
    destruct (qt_push t3 back 0 true) as [t4 r4]. cbn [fst] in *.
    inversion Hrun; subst n'. unfold qn_with. cbn [qn_t qn_outs].
    split; [exact Hok2|]. split; [exact L4|].
    exists vzero. split; [unfold vzero; cbn [vol]; unfold eps; lra|]. split; [intros c _; rewrite cmp_zero; lra|].
    intros c Hc. rewrite cmp_zero, (Sto4 c Hc), (Sto3 c Hc), (Sto2 c Hc), (V2 c Hc), (V1 c Hc), Hs.
    unfold sent. rewrite cmp_sub by exact Hc. ring.
  - inversion Hrun; subst n'. unfold qn_with. cbn [qn_t qn_outs].
    split; [exact Hok1|]. split; [exact L3|].
    exists ponded. split.
    { split; [apply (proj1 Wp SVol I) | apply Qltb_false; exact Efl]. }
    split; [intros c Hc; apply (proj1 Wp c Hc)|].
    intros c Hc. rewrite (Sto3 c Hc), (Sto2 c Hc), (V1 c Hc), Hs.
    unfold sent. rewrite cmp_sub by exact Hc. ring.
Qed.


(* QueueGroundwater.distribute: the same books, without the flooding step *)
Theorem qg_distribute_books (n n' : qnode S) :
  star_ok (qn_outs S n) -> qledger (qn_t S n) ->
  wet (vsum (s_act (qt_s (qn_t S n))) (bget (l_b (qt_l (qn_t S n))) 0)) ->
  qg_distribute S P maxiter n = Some n' ->
  star_ok (qn_outs S n') /\ qledger (qn_t S n') /\
  forall c, conserved c ->
    cmp c (s_sto (qt_s (qn_t S n))) - cmp c (s_sto (qt_s (qn_t S n'))) == sumvin c (qn_outs S n') - sumvin c (qn_outs S n).
Proof.
  intros Hok L Hwet Hrun. unfold qg_distribute in Hrun.
  pose proof (l_update_qt (qt_l (qn_t S n)) (qt_s (qn_t S n))) as HU.
  assert (Eact : s_act (snd (fst (l_update qts qt_port (qt_l (qn_t S n)) (qt_s (qn_t S n))))) =
                 vsum (s_act (qt_s (qn_t S n))) (bget (l_b (qt_l (qn_t S n))) 0)) by reflexivity.
  destruct (l_update qts qt_port (qt_l (qn_t S n)) (qt_s (qn_t S n))) as [[l1 s1] bk].
  destruct HU as (_ & Hs & _ & _ & _ & Hd2 & _ & Hq). cbn [fst snd] in Eact.
  set (t1 := mkQT s1 l1) in *.
  assert (L1 : qledger t1).
  { intros c Hc. unfold t1; cbn [qt_s qt_l]. rewrite Hs, Hd2. pose proof (Hq c Hc). pose proof (L c Hc). lra. }
  assert (W1 : wet (s_act s1)) by (rewrite Eact; exact Hwet).
  destruct (push_distributed S P maxiter None (qn_outs S n) (s_act s1)) as [[[outs1 remaining] msg1]|] eqn:E1; [|discriminate].
  destruct (push_distributed_spec S P K wet_replies maxiter None (qn_outs S n) (s_act s1) outs1 remaining msg1 Hok W1 E1)
    as (Hok1 & _ & R1 & V1 & _).
  set (sent := vsub (s_act s1) remaining) in *.
  assert (Hsent : forall k, conserved k -> 0 <= cmp k sent <= cmp k (s_act (qt_s t1))).
  { intros k Hk. unfold sent, t1; cbn [qt_s]. rewrite cmp_sub by exact Hk. pose proof (R1 k Hk). lra. }
  pose proof (qt_pull_exact_ledger t1 sent L1) as L2.
  assert (Sto2 : forall c, conserved c -> cmp c (s_sto (qt_s (fst (qt_pull_exact t1 sent)))) == cmp c (s_sto s1) - cmp c sent).
  { intros c Hc. pose proof (pull_exact_within t1 sent c Hc Hsent) as E.
    unfold qt_pull_exact in *. cbn [fst snd qt_s s_sto] in *. rewrite cmp_sub by exact Hc. unfold t1 in *. cbn [qt_s] in *. rewrite E. reflexivity. }
  destruct (qt_pull_exact t1 sent) as [t2 reply2]. cbn [fst snd] in *.
  inversion Hrun; subst n'. unfold qn_with. cbn [qn_t qn_outs].
  split; [exact Hok1|]. split; [exact L2|].
  intros c Hc. rewrite (Sto2 c Hc), (V1 c Hc), Hs. unfold sent. rewrite cmp_sub by exact Hc. ring.
Qed.

End SewerLaws.
