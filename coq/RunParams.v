(* RunParams.v — interpreters and encoders for the parameter models of Params.v, evaluated by the
   correspondence check (harness/corr_params.py).  Model file: definitions only. *)
From Coq Require Import QArith List Bool ZArith.
From WSI Require Import Enc Params.
Import ListNotations.
Open Scope Q_scope.

Definition encoq (o : option Q) : list Z := match o with Some q => 1%Z :: encq q | None => [0%Z] end.
Definition encdict (n : nat) (d : dict) : list Z := flat_map (fun k => encoq (nth k d None)) (seq 0 n).

Inductive pop (O : Type) := POv (o : O) | PSaveLoad.
Arguments POv {O} o.
Arguments PSaveLoad {O}.

Section ParamRun.
Variables (A S O : Type) (mk : A -> S) (ovf : S -> O -> option S) (save : S -> option A)
          (encS : S -> list Z) (encA : A -> list Z).
(* after an override: the state; after save/load: the arguments written, the state of the
   component constructed from them (which then takes the place of the original);
   -999: the operation raised *)
Fixpoint prun (s : S) (ops : list (pop O)) : list Z :=
  match ops with
  | [] => []
  | POv o :: r => match ovf s o with Some s' => encS s' ++ prun s' r | None => [(-999)%Z] end
  | PSaveLoad :: r => match save s with
                      | Some a => encA a ++ encS (mk a) ++ prun (mk a) r
                      | None => [(-999)%Z]
                      end
  end.
Definition prun0 (a : A) (ops : list (pop O)) : list Z := encS (mk a) ++ prun (mk a) ops.
End ParamRun.

Definition enc_ptank (t : ptank) := encq (pt_cap t) ++ encq (pt_area t) ++ encq (pt_datum t).
Definition run_ptank := prun0 ptank ptank otank tank_mk (fun s o => Some (tank_ov s o)) (fun s => Some s) enc_ptank enc_ptank.

Definition enc_parc (t : parc) := encq (pa_cap t) ++ encq (pa_pref t).
Definition run_parc := prun0 parc parc oarc arc_mk (fun s o => Some (arc_ov s o)) (fun s => Some (arc_save s)) enc_parc enc_parc.

Definition enc_asurf n (a : asurf) := encq (as_area a) ++ encq (as_depth a) ++ encdict n (as_load a).
Definition enc_psurf n (s : psurf) := encq (s_area s) ++ encq (s_depth s) ++ encq (s_cap s) ++ encdict n (s_load s).
Definition run_psurf n := prun0 asurf psurf osurf surf_mk (fun s o => Some (surf_ov s o)) (fun s => Some (surf_save s))
                                 (enc_psurf n) (enc_asurf n).

Definition enc_aimp n (a : aimp) := encq (ai_area a) ++ encq (ai_pore a) ++ encq (ai_e a) ++ encdict n (ai_load a).
Definition enc_pimp n (s : pimp) :=
  encq (i_area s) ++ encq (i_pore s) ++ encq (i_depth s) ++ encq (i_cap s) ++ encq (i_e s) ++ encdict n (i_load s).
Definition run_pimp n := prun0 aimp pimp oimp imp_mk (fun s o => Some (imp_ov s o)) (fun s => Some (imp_save s))
                                (enc_pimp n) (enc_aimp n).

Definition enc_aperv n (a : aperv) :=
  encq (ap_area a) ++ encq (ap_depth a) ++ encq (ap_tp a) ++ encq (ap_fc a) ++ encq (ap_wp a) ++ encq (ap_perc a)
  ++ encq (ap_inf a) ++ encdict n (ap_load a).
Definition enc_pperv n (s : pperv) :=
  encq (v_area s) ++ encq (v_depth s) ++ encq (v_cap s) ++ encq (v_tp s) ++ encq (v_fc s) ++ encq (v_fcm s)
  ++ encq (v_wp s) ++ encq (v_wpm s) ++ encq (v_perc s) ++ encq (v_subs s) ++ encq (v_inf s) ++ encdict n (v_load s).
Definition run_pperv n := prun0 aperv pperv operv perv_mk perv_ov perv_save (enc_pperv n) (enc_aperv n).

Definition enc_pstore (s : pstore) := encq (n_cap s) ++ encq (n_area s) ++ encq (n_datum s) ++ enc_ptank (n_tank s).
Definition run_pstore := prun0 ptank pstore otank store_mk (fun s o => Some (store_ov s o)) (fun s => Some (store_save s))
                                enc_pstore enc_ptank.

Definition enc_ariver (a : ariver) :=
  encq (ar_len a) ++ encq (ar_wid a) ++ encq (ar_vel a) ++ encq (ar_damp a) ++ encq (ar_mrf a) ++ encq (ar_datum a).
Definition enc_priver (s : priver) :=
  encq (r_len s) ++ encq (r_wid s) ++ encq (r_vel s) ++ encq (r_damp s) ++ encq (r_mrf s) ++ enc_pstore (r_store s).
Definition run_priver U := prun0 ariver priver oriver (river_mk U) (fun s o => Some (river_ov U s o))
                                  (fun s => Some (river_save s)) enc_priver enc_ariver.

Definition enc_awtw (a : awtw) := encq (aw_solids a) ++ encq (aw_liquor a) ++ encq (aw_through a).
Definition enc_pwtw (s : pwtw) := encq (w_solids s) ++ encq (w_liquor s) ++ encq (w_through s) ++ encq (w_volc s).
Definition run_pwtw := prun0 awtw pwtw owtw wtw_mk (fun s o => Some (wtw_ov s o)) (fun s => Some (wtw_save s))
                              enc_pwtw enc_awtw.

(* ownership: after every operation, the default argument and the view of every instance *)
Definition enc_world n (w : world) : list Z :=
  encdict n (cell w 0) ++ flat_map (fun i => encdict n (view w i)) (seq 0 (length (insts w))).
Fixpoint run_world_from n (alias : bool) (w : world) (ops : list wop) : list Z :=
  match ops with
  | [] => []
  | o :: r => let w' := wstep alias w o in enc_world n w' ++ run_world_from n alias w' r
  end.
Definition run_world n (d : dict) (ops : list wop) : list Z := run_world_from n false (world0 d) ops.
