(* CoreBridge.v — the hand-written, normalised flux operations of Vqip.v (the
   ones every model above is built from) are extensionally equal to the
   definitions translated from core.py.  Proved extensionally (not by
   reflexivity) so that an algebraically equivalent rewrite of the source
   keeps these lemmas. *)
From Coq Require Import QArith Qminmax Lqa Lia List Bool Setoid Morphisms.
From WSI Require Import Vqip CoreLaws.
From WSI.gen Require Import GenCore.
Import ListNotations.
Open Scope Q_scope.

Ltac bridge c :=
  intro c; rewrite cmp_norm; destruct c as [|k|k]; cbn [cmp vol adds nons];
  split_dec; cbn [vol adds nons]; try lra; getsimp; try reflexivity; try (field; lra); try lra.

Lemma bridge_sum a b : vsum a b ≡ gen_sum_vqip a b.
Proof. unfold vsum, gen_sum_vqip. bridge c. Qed.
Lemma bridge_sub a b : vsub a b ≡ gen_extract_vqip a b.
Proof. unfold vsub, gen_extract_vqip. bridge c. Qed.
Lemma bridge_ds a b : vds a b ≡ gen_ds_vqip a b.
Proof. unfold vds, gen_ds_vqip. bridge c. Qed.
Lemma bridge_change t v : vchange t v ≡ gen_v_change_vqip t v.
Proof. unfold vchange, gen_v_change_vqip. bridge c. Qed.
Lemma bridge_distill t v : vdistill t v ≡ gen_v_distill_vqip t v.
Proof. unfold vdistill, gen_v_distill_vqip. bridge c. Qed.
Lemma bridge_c2t t : vc2t t ≡ gen_concentration_to_total t.
Proof. unfold vc2t, gen_concentration_to_total. bridge c. Qed.
Lemma bridge_t2c t : vt2c t ≡ gen_total_to_concentration t.
Proof. unfold vt2c, gen_total_to_concentration. bridge c. Qed.
Lemma bridge_blend a b : vblend a b ≡ gen_blend_vqip a b.
Proof. unfold vblend, gen_blend_vqip. bridge c. Qed.
