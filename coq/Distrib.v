(* Distrib.v — executable model of Node.push_distributed / pull_distributed /
   get_connected (wsimod/nodes/nodes.py) on a star: the distributing node, its
   arcs (plain Arc with capacity and preference) and, behind each arc, a
   neighbour of some type.  Model file: definitions only.
   The type filter is `of_type` (None = all arcs); arcs are visited in creation
   order (with exact arithmetic and independent neighbours the visiting order of
   the implementation — types in of_type order — gives the same result).
   The division by connected["priority"] is unguarded in the source: the model
   returns None where Python raises ZeroDivisionError. *)
From Coq Require Import QArith Qminmax List Bool Arith.
From WSI Require Import Vqip Pow Tank Arc QTank.
Import ListNotations.
Open Scope Q_scope.

Section Star.
Variable S : Type.
Variable P : port S.

Record sarc := mkSA { sa_a : arc; sa_pref : Q; sa_s : S; sa_ty : nat }.
Definition star := list sarc.

Definition selected (ot : option (list nat)) (x : sarc) : bool :=
  match ot with None => true | Some tys => existsb (Nat.eqb (sa_ty x)) tys end.

Definition sumq (l : list Q) : Q := fold_right Qplus 0 l.

(* get_connected: per-arc availability (sub-epsilon answers count as 0; unselected arcs 0) *)
Definition avail1 (push : bool) (ot : option (list nat)) (x : sarc) : Q :=
  if selected ot x then
    let a := if push then vol (a_excess_push S P (sa_a x) (sa_s x) None)
             else vol (a_excess_pull S P (sa_a x) (sa_s x) None) in
    if Qltb a eps then 0 else Qred a
  else 0.
Definition avails (push : bool) (ot : option (list nat)) (st : star) : list Q := map (avail1 push ot) st.
Definition allocs (push : bool) (ot : option (list nat)) (st : star) : list Q :=
  map (fun x => Qred (avail1 push ot x * sa_pref x)) st.

Record conn := mkConn { c_avail : Q; c_prio : Q; c_alloc : list Q; c_cap : list Q }.
Definition get_connected (push : bool) (ot : option (list nat)) (st : star) : conn :=
  mkConn (Qred (sumq (avails push ot st))) (Qred (sumq (allocs push ot st))) (allocs push ot st) (avails push ot st).

(* ---------------- push ---------------- *)
(* one round: every selected arc is offered its share of `amount`, cut from what is left *)
Fixpoint push_round (ot : option (list nat)) (st : star) (al : list Q) (amount prio : Q) (np : vqip)
  : star * vqip :=
  match st, al with
  | x :: r, w :: al' =>
      if selected ot x then
        let to_send := vchange np (amount * w / prio) in
        let '(a', s', reply) := a_send_push S P (sa_a x) (sa_s x) to_send false in
        let np' := vsub np (vsub to_send reply) in
        let '(r', np'') := push_round ot r al' amount prio np' in
        (mkSA a' (sa_pref x) s' (sa_ty x) :: r', np'')
      else
        let '(r', np') := push_round ot r al' amount prio np in (x :: r', np')
  | _, _ => (st, np)
  end.

(* the while loop; fuel = MAXITER - iter.  Result: (star, not pushed, rounds done); None = ZeroDivisionError *)
Fixpoint push_loop (fuel : nat) (ot : option (list nat)) (st : star) (np : vqip) (c : conn) (iter : nat)
  : option (star * vqip * nat) :=
  match fuel with
  | O => Some (st, np, iter)
  | Datatypes.S f =>
      if Qltb eps (vol np) && Qltb eps (c_avail c) then
        if Qeq_bool (c_prio c) 0 then None
        else
          let amount := Qmin (c_avail c) (vol np) in
          let '(st', np') := push_round ot st (c_alloc c) amount (c_prio c) np in
          push_loop f ot st' np' (get_connected true ot st') (Datatypes.S iter)
      else Some (st, np, iter)
  end.

(* push_distributed: (star', not pushed, iteration-limit message printed) *)
Definition push_distributed (maxiter : nat) (ot : option (list nat)) (st : star) (v : vqip)
  : option (star * vqip * bool) :=
  match st with
  | [x] =>
      if selected ot x then
        let '(a', s', reply) := a_send_push S P (sa_a x) (sa_s x) v false in
        Some ([mkSA a' (sa_pref x) s' (sa_ty x)], reply, false)
      else Some (st, v, false)
  | _ =>
      let c0 := get_connected true ot st in
      let c := if Qltb (c_avail c0) (vol v)
               then mkConn (c_avail c0) (c_avail c0) (c_cap c0) (c_cap c0) else c0 in
      match push_loop maxiter ot st v c 0 with
      | None => None
      | Some (st', np, iter) => Some (st', np, Nat.eqb iter maxiter)
      end
  end.

(* ---------------- pull ---------------- *)
Fixpoint pull_round (ot : option (list nat)) (st : star) (al : list Q) (deficit prio : Q) (pulled : vqip)
  : star * vqip :=
  match st, al with
  | x :: r, w :: al' =>
      if selected ot x then
        let '(a', s', got) := a_send_pull S P (sa_a x) (sa_s x) (Qred (deficit * w / prio)) in
        let '(r', p') := pull_round ot r al' deficit prio (vsum pulled got) in
        (mkSA a' (sa_pref x) s' (sa_ty x) :: r', p')
      else
        let '(r', p') := pull_round ot r al' deficit prio pulled in (x :: r', p')
  | _, _ => (st, pulled)
  end.

Fixpoint pull_loop (fuel : nat) (ot : option (list nat)) (st : star) (want : Q) (pulled : vqip) (deficit : Q)
  (c : conn) (iter : nat) : option (star * vqip * nat) :=
  match fuel with
  | O => Some (st, pulled, iter)
  | Datatypes.S f =>
      if Qltb eps deficit && Qltb eps (c_avail c) then
        if Qeq_bool (c_prio c) 0 then None
        else
          let '(st', p') := pull_round ot st (c_alloc c) deficit (c_prio c) pulled in
          pull_loop f ot st' want p' (Qred (want - vol p')) (get_connected false ot st') (Datatypes.S iter)
      else Some (st, pulled, iter)
  end.

Definition pull_distributed (maxiter : nat) (ot : option (list nat)) (st : star) (want : Q)
  : option (star * vqip * bool) :=
  match st with
  | [x] =>
      if selected ot x then
        let '(a', s', got) := a_send_pull S P (sa_a x) (sa_s x) want in
        Some ([mkSA a' (sa_pref x) s' (sa_ty x)], got, false)
      else Some (st, vzero, false)
  | _ =>
      match pull_loop maxiter ot st want vzero want (get_connected false ot st) 0 with
      | None => None
      | Some (st', p, iter) => Some (st', p, Nat.eqb iter maxiter)
      end
  end.

(* check_basic (push_check_basic / pull_check_basic): sum of the arcs' answers, limited to the request *)
Definition check_basic (push : bool) (ot : option (list nat)) (st : star) (ov : option Q) : vqip :=
  let tot := fold_left (fun acc x =>
               if selected ot x then
                 vsum acc (if push then a_excess_push S P (sa_a x) (sa_s x) None
                           else a_excess_pull S P (sa_a x) (sa_s x) None)
               else acc) st vzero in
  match ov with
  | None => tot
  | Some v => vchange tot (Qmin (vol tot) v)
  end.
End Star.
