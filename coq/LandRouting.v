(* LandRouting.v — the routing half of Land.run (LandV.ld_route) keeps the books: what the node's three residence tanks
   hold less afterwards is what its out-arcs record as carried more (percolation to groundwater, runoff to rivers and
   junctions; what is not placed goes back), up to a percolation remainder below FLOAT_ACCURACY that the code drops by
   design - volume and every additive pollutant, against ANY neighbours meeting the reply contract. *)
From Coq Require Import QArith Qminmax Lqa List Bool Arith.
From WSI Require Import Vqip Pow Tank Arc Distrib Kinds LandV TankLaws ArcLaws QueueLaws DistribLaws SewerLaws.
From WSI Require Run.
Import ListNotations.
Open Scope Q_scope.

Lemma wet_sum a b : wet a -> wet b -> wet (vsum a b).
Proof.
  intros [Na Da] [Nb Db]. split.
  - intros c Hc. rewrite cmp_sum by exact Hc. pose proof (Na c Hc). pose proof (Nb c Hc). lra.
  - intros Hv k. rewrite vol_sum in Hv. pose proof (Na SVol I) as Ha. pose proof (Nb SVol I) as Hb. cbn [cmp] in Ha, Hb.
    rewrite add_sum. rewrite Da, Db by lra. ring.
Qed.

Lemma t_pull_wet t v : wet (t_sto t) -> 0 <= v -> wet (snd (t_pull t v)).
Proof.
  intros Hw Hv. unfold t_pull. destruct (Qeq_bool (vol (t_sto t)) 0); cbn [snd]; [apply wet_zero|].
  apply wet_part; [exact Hw|]. pose proof (proj1 Hw SVol I) as H0. cbn [cmp] in H0.
  split; [apply Q.min_glb; lra | apply Q.le_min_r].
Qed.

Lemma outflow_request t : 0 <= vol (t_sto t) -> 0 <= t_res t ->
  0 <= vol (vchange (t_sto t) (vol (t_sto t) / t_res t)).
Proof.
  intros Hs Hr. rewrite vol_change. destruct (Qlt_le_dec 0 (t_res t)) as [H|H].
  - apply Qle_shift_div_l; [exact H | lra].
  - assert (E : t_res t == 0) by lra. rewrite E. unfold Qdiv, Qinv; cbn. lra.
Qed.

(* handing a remainder back by volume shares hands all of it back *)
Lemma shares_add_up c back x y tot : conserved c -> 0 < vol back -> 0 < tot -> x + y == tot ->
  cmp c (vchange back (vol back * x / tot)) + cmp c (vchange back (vol back * y / tot)) == cmp c back.
Proof.
  intros Hc Hb Ht Hs.
  rewrite !(cmp_change_pos c back) by assumption.
  assert (E : y == tot - x) by lra. rewrite E. field. split; lra.
Qed.

Section Routing.
Variable S : Type.
Variable P : port S.
Variable K : contract S P.
Hypothesis wet_replies : forall s v, okS S P K s -> wet v ->
  forall k, vol (snd (p_push_set P s v)) <= 0 -> get (adds (snd (p_push_set P s v))) k == 0.
Variable maxiter : nat.
Notation star_ok := (star_ok S P K).
Notation sumvin := (sumvin S).

Theorem ld_route_books sr ssr perc outs sr' ssr' perc' outs' c : conserved c -> star_ok outs ->
  wet (t_sto sr) -> wet (t_sto ssr) -> wet (t_sto perc) -> 0 <= t_res sr -> 0 <= t_res ssr -> 0 <= t_res perc ->
  ld_route S P maxiter sr ssr perc outs = Some (sr', ssr', perc', outs') ->
  exists dropped, 0 <= dropped /\ (c = SVol -> dropped <= eps) /\
    cmp c (t_sto sr') + cmp c (t_sto ssr') + cmp c (t_sto perc') + (sumvin c outs' - sumvin c outs) + dropped
    == cmp c (t_sto sr) + cmp c (t_sto ssr) + cmp c (t_sto perc).
Proof.
  intros Hc Ho Wsr Wssr Wperc Rsr Rssr Rperc Hrun. unfold ld_route, t_pull_outflow in Hrun.
  pose proof (proj1 Wsr SVol I) as Vsr. pose proof (proj1 Wssr SVol I) as Vssr. pose proof (proj1 Wperc SVol I) as Vperc. cbn [cmp] in Vsr, Vssr, Vperc.
  set (qp := vol (vchange (t_sto perc) (vol (t_sto perc) / t_res perc))) in *.
  set (qs := vol (vchange (t_sto sr) (vol (t_sto sr) / t_res sr))) in *.
  set (qss := vol (vchange (t_sto ssr) (vol (t_sto ssr) / t_res ssr))) in *.
  assert (Hqp : 0 <= qp) by (apply outflow_request; assumption).
  assert (Hqs : 0 <= qs) by (apply outflow_request; assumption).
  assert (Hqss : 0 <= qss) by (apply outflow_request; assumption).
  destruct (t_pull_spec perc qp c Hc (proj1 Wperc) Hqp) as (_ & Pp & _).
  destruct (t_pull_spec sr qs c Hc (proj1 Wsr) Hqs) as (_ & Ps & _).
  destruct (t_pull_spec ssr qss c Hc (proj1 Wssr) Hqss) as (_ & Pss & _).
  pose proof (t_pull_wet perc qp Wperc Hqp) as Wp. pose proof (t_pull_wet sr qs Wsr Hqs) as Ws. pose proof (t_pull_wet ssr qss Wssr Hqss) as Wss.
  destruct (t_pull perc qp) as [perc1 percolation]. destruct (t_pull sr qs) as [sr1 srv]. destruct (t_pull ssr qss) as [ssr1 ssrv].
  cbn [fst snd] in *.
  destruct (push_distributed S P maxiter (Some [T_GROUNDWATER]) outs percolation) as [[[outs1 reply] m1]|] eqn:E1; [|discriminate].
  destruct (push_distributed_spec S P K wet_replies maxiter _ _ _ _ _ _ Ho Wp E1) as (Ho1 & _ & R1 & V1 & _).
  (* percolation tank: the remainder goes back, or is dropped when below FLOAT_ACCURACY *)
  set (perc2 := if Qltb eps (vol reply) then fst (t_push perc1 reply true) else perc1) in *.
  set (dropped := if Qltb eps (vol reply) then 0 else cmp c reply).
  assert (Hperc2 : cmp c (t_sto perc2) + dropped == cmp c (t_sto perc1) + cmp c reply).
  { unfold perc2, dropped. destruct (Qltb eps (vol reply)).
    - rewrite (proj1 (t_push_forced perc1 reply c Hc)). ring.
    - ring. }
  assert (Hd0 : 0 <= dropped).
  { unfold dropped. destruct (Qltb eps (vol reply)); [lra | apply (R1 c Hc)]. }
  assert (Hd1 : c = SVol -> dropped <= eps).
  { intros ->. unfold dropped. destruct (Qltb eps (vol reply)) eqn:Eb; [unfold eps; lra|].
    cbn [cmp]. unfold Qltb in Eb. destruct (Qlt_le_dec eps (vol reply)); [discriminate | assumption]. }
  exists dropped. split; [exact Hd0|]. split; [exact Hd1|].
  pose proof (V1 c Hc) as V1c.
  destruct (Qlt_le_dec 0 (vol (vsum srv ssrv))) as [Hpos|Hzero].
  - destruct (push_distributed S P maxiter (Some [T_RIVER; T_NODE]) outs1 (vsum srv ssrv)) as [[[outs2 back] m2]|] eqn:E2; [|discriminate].
    destruct (push_distributed_spec S P K wet_replies maxiter _ _ _ _ _ _ Ho1 (wet_sum _ _ Ws Wss) E2) as (_ & _ & R2 & V2 & _).
    pose proof (V2 c Hc) as V2c. rewrite cmp_sum in V2c by exact Hc.
    destruct (Qlt_le_dec 0 (vol back)) as [Hb|Hb].
    + cbv zeta in Hrun. inversion Hrun; subst sr' ssr' perc' outs'. clear Hrun.
      set (bs := vchange back (vol back * vol srv / vol (vsum srv ssrv))).
      set (bss := vchange back (vol back * vol ssrv / vol (vsum srv ssrv))).
      assert (Hsum : cmp c bs + cmp c bss == cmp c back).
      { apply shares_add_up; [exact Hc | exact Hb | exact Hpos | rewrite vol_sum; reflexivity]. }
      pose proof (proj1 Ws SVol I) as Vs. pose proof (proj1 Wss SVol I) as Vss. cbn [cmp] in Vs, Vss.
      assert (Hsr2 : forall (t1 : tank) (b : vqip) x, b = vchange back x -> 0 <= x ->
                 cmp c (t_sto (if Qlt_le_dec 0 (vol b) then fst (t_push t1 b true) else t1)) == cmp c (t_sto t1) + cmp c b).
      { intros t1 b x -> Hx. destruct (Qlt_le_dec 0 (vol (vchange back x))) as [Hv|Hv].
        - apply (proj1 (t_push_forced t1 _ c Hc)).
        - rewrite vol_change in Hv. assert (Ex : x == 0) by lra.
          rewrite (cmp_change_pos c back x Hc Hb), Ex. unfold Qdiv. ring. }
      assert (Hx1 : 0 <= vol back * vol srv / vol (vsum srv ssrv)).
      { apply Qle_shift_div_l; [exact Hpos|]. rewrite Qmult_0_l. apply Qmult_le_0_compat; lra. }
      assert (Hx2 : 0 <= vol back * vol ssrv / vol (vsum srv ssrv)).
      { apply Qle_shift_div_l; [exact Hpos|]. rewrite Qmult_0_l. apply Qmult_le_0_compat; lra. }
      pose proof (Hsr2 sr1 bs _ eq_refl Hx1) as A1. pose proof (Hsr2 ssr1 bss _ eq_refl Hx2) as A2.
      change (cmp c (t_sto (if Qlt_le_dec 0 (vol bs) then fst (t_push sr1 bs true) else sr1))
              + cmp c (t_sto (if Qlt_le_dec 0 (vol bss) then fst (t_push ssr1 bss true) else ssr1))
              + cmp c (t_sto perc2) + (sumvin c outs2 - sumvin c outs) + dropped
              == cmp c (t_sto sr) + cmp c (t_sto ssr) + cmp c (t_sto perc)).
      lra.
    + inversion Hrun; subst sr' ssr' perc' outs'. clear Hrun.
      assert (Hback : cmp c back == 0).
      { pose proof (R2 SVol I) as Rv. cbn [cmp] in Rv.
        assert (Eb : vol back <= 0) by lra.
        destruct c as [|k|k]; [cbn [cmp]; lra | | destruct Hc]. cbn [cmp].
        (* a remainder without water carries no mass: what push_distributed hands back of a wet offer is wet *)
        pose proof (R2 (SAdd k) I) as Rk. cbn [cmp] in Rk.
        destruct (push_distributed_wet S P K wet_replies maxiter _ _ _ _ _ _ Ho1 (wet_sum _ _ Ws Wss) E2) as [_ Hdry].
        apply Hdry; exact Eb. }
      rewrite V2c, V1c. lra.
  - inversion Hrun; subst sr' ssr' perc' outs'. clear Hrun.
    (* nothing to route: both outflows are without water, hence (wet) without mass *)
    rewrite vol_sum in Hzero. pose proof (proj1 Ws SVol I) as Vs. pose proof (proj1 Wss SVol I) as Vss. cbn [cmp] in Vs, Vss.
    assert (Zs : cmp c srv == 0).
    { destruct c as [|k|k]; [cbn [cmp]; lra | cbn [cmp]; apply (proj2 Ws); lra | destruct Hc]. }
    assert (Zss : cmp c ssrv == 0).
    { destruct c as [|k|k]; [cbn [cmp]; lra | cbn [cmp]; apply (proj2 Wss); lra | destruct Hc]. }
    rewrite V1c. lra.
Qed.

End Routing.

(* the hypotheses are met by concrete tanks (a land node without arcs keeps everything) *)
Lemma wet_lit x a ns : 0 < x -> 0 <= a -> wet (mkV x [a] ns).
Proof.
  intros Hx Ha. split.
  - intros c Hc. destruct c as [|k|k]; [cbn; lra | | destruct Hc]. destruct k as [|[|k]]; cbn; lra.
  - cbn [vol]. intros H; lra.
Qed.
Definition ex_tank (v a : Q) (res : Q) : tank := mkT (1000#1) (mkV v [a] [12#1]) (mkV v [a] [12#1]) [] vzero res.
Example ld_route_example :
  let sr := ex_tank (6#1) (3#2) (2#1) in let ssr := ex_tank (9#1) (1#1) (3#1) in let perc := ex_tank (20#1) (5#1) (10#1) in
  star_ok (Run.nb * Run.nb) Run.nbport tank_contract [] /\
  wet (t_sto sr) /\ wet (t_sto ssr) /\ wet (t_sto perc) /\ 0 <= t_res sr /\ 0 <= t_res ssr /\ 0 <= t_res perc /\
  exists r, ld_route _ Run.nbport 10 sr ssr perc [] = Some r.
Proof.
  cbv zeta. split; [constructor|]. unfold ex_tank; cbn [t_sto t_res].
  repeat (split; [first [apply wet_lit; lra | lra]|]).
  eexists. vm_compute. reflexivity.
Qed.
